import Pathrs.Proofs.KProcReopen
import Pathrs.Proofs.Ancestors
import Pathrs.Proofs.PathLemmas

/-!
# C07 — the final-component table of the procfs layer, on every procfs tree with mounts (`PWorld`)

`ProcfsHandle::open` and `readlink` never follow a trailing symlink of any kind; `open_follow` follows exactly the
trailing link.  The helper lemmas (`C07Table.*`) decompose the confined lookup of `parent/trailing` into the lookup of
`parent` and one last step (`openSpec_split`) and compute `open_follow` as a function of the world
(`prun_openFollowH`); the property theorems `C07_*` and their non-vacuity examples are at the end of the file.
-/

open K PWorld KProc KProcOpen KProcReopen

namespace C07Table

variable {w : PWorld}

/-! ## `path_split` in terms of raw components -/

theorem pathSplit_head {p dir parent trailing : Bytes} {base : Option Bytes} {tl : List (Bytes × Option Bytes)}
    (hpa : Path.partialAncestors p = (dir, base) :: tl) (h : Path.pathSplit p = .ok (parent, some trailing)) :
    dir = parent ∧ base = some trailing := by
  unfold Path.pathSplit at h
  rw [hpa] at h
  simp only [] at h
  cases base with
  | none => simp only [] at h; cases h
  | some b =>
    simp only [] at h
    split at h
    · cases h
    · split at h
      · cases h
      · cases h; exact ⟨rfl, rfl⟩

theorem ite_cons_head {α : Type} (c : Prop) [Decidable c] (a : α) (l : List α) :
    ∃ tl, (if c then [a] else a :: l) = a :: tl := by
  split
  · exact ⟨_, rfl⟩
  · exact ⟨_, rfl⟩

theorem ancSpec_head (comps : List Bytes) (k : Nat) :
    ∃ tl, Ancestors.ancSpec comps (k + 2) =
      ((if Path.joinSlash (comps.take (k + 1)) = [] then [Path.slash] else Path.joinSlash (comps.take (k + 1)),
        if Path.joinSlash (comps.drop (k + 1)) = [] then none else some (Path.joinSlash (comps.drop (k + 1)))) :: tl) := by
  rw [Ancestors.ancSpec]
  exact ite_cons_head _ _ _

/-- `path_split` of a path whose parent part is relative: the raw components of the path are those of the parent
followed by the final name — or the path is one single component and the parent is `.` -/
theorem pathSplit_raw {sub parent trailing : Bytes} (h : Path.pathSplit sub = .ok (parent, some trailing))
    (habs : Path.isAbsolute parent = false) :
    Path.rawComponents parent ++ [trailing] = Path.rawComponents sub ∨
      (parent = Path.dot ∧ Path.rawComponents sub = [trailing]) := by
  have hpa := Ancestors.partialAncestors_eq sub
  have hsingle : ∀ c ∈ Path.rawComponents sub, Path.containsSlash c = false := rawComponents_single sub
  generalize Path.rawComponents sub = comps at hpa hsingle ⊢
  match comps, hpa, hsingle with
  | [], hpa, _ =>
    unfold Path.pathSplit at h
    rw [hpa] at h
    cases h
  | [x], hpa, _ =>
    have hpa' : Path.partialAncestors sub = [(Path.dot, if x = [] then none else some x)] := hpa
    obtain ⟨h1, h2⟩ := pathSplit_head hpa' h
    right
    refine ⟨h1.symm, ?_⟩
    split at h2
    · cases h2
    · cases h2; rfl
  | x :: y :: rest, hpa, hsingle =>
    left
    obtain ⟨tl, htl⟩ := ancSpec_head (x :: y :: rest) rest.length
    have hpa' := hpa.trans htl
    obtain ⟨h1, h2⟩ := pathSplit_head hpa' h
    have hdrop : ∃ z, (x :: y :: rest).drop (rest.length + 1) = [z] := by
      have hlen : ((x :: y :: rest).drop (rest.length + 1)).length = 1 := by simp
      match hd : (x :: y :: rest).drop (rest.length + 1), hlen with
      | [z], _ => exact ⟨z, rfl⟩
    obtain ⟨z, hz⟩ := hdrop
    rw [hz] at h2
    have hjz : Path.joinSlash [z] = z := rfl
    rw [hjz] at h2
    have htr : trailing = z := by
      split at h2
      · cases h2
      · cases h2; rfl
    have htake_ne : (x :: y :: rest).take (rest.length + 1) ≠ [] := by simp
    have hparent : parent = Path.joinSlash ((x :: y :: rest).take (rest.length + 1)) := by
      rw [← h1]
      split
      · rename_i he
        rw [← h1, if_pos he] at habs
        exact absurd habs (by decide)
      · rfl
    have hraw : Path.rawComponents parent = (x :: y :: rest).take (rest.length + 1) := by
      rw [hparent]
      exact KPath.splitSlash_joinSlash _ (fun c hc => hsingle c (List.mem_of_mem_take hc)) htake_ne
    rw [hraw, htr, ← hz, List.take_append_drop]

/-! ## the last component of a no-follow lookup -/

/-- the final `open(2)` of the object `o` a lookup ended at -/
def openAs (w : PWorld) (o : Fd) (fl : Nat) : Except Nat Fd :=
  match openKind (w.kind o) fl with
  | .ok () => .ok o
  | .error e => .error e

theorem lookup_ok_dir {d l : Fd} {t : Bytes} (hl : w.lookup d t = .ok l) : w.kind d = .dir := by
  unfold PWorld.lookup at hl
  split at hl
  · cases hl
  · rename_i h; simpa using h

theorem p_dot_more (c : PCfg) (cur : Fd) (x : Bytes) (rest : List Bytes) (links : Nat)
    (h : w.kind cur = .dir) (hx : x = [] ∨ x = Path.dot) (hr : rest ≠ []) :
    presolve w c cur (x :: rest) links = presolve w c cur rest links := by
  rw [p_dot c cur x rest links h hx, if_neg hr]

theorem p_dotdot_more (c : PCfg) (cur : Fd) (rest : List Bytes) (links : Nat)
    (h : w.kind cur = .dir) (hb : cur ≠ w.base) (hm : w.mnt (w.parent cur) = w.mnt cur) (hr : rest ≠ []) :
    presolve w c cur (Path.dotdot :: rest) links = presolve w c (w.parent cur) rest links := by
  rw [presolve.eq_def]
  have h1 : ¬ (Path.dotdot = [] ∨ Path.dotdot = Path.dot) := by decide
  simp only [h, ne_eq, not_true_eq_false, ↓reduceIte, h1, hb, hm, hr]

/-- one step over a name that is not a link, with more of the path to come -/
theorem p_nonlink_more (c : PCfg) (cur nxt : Fd) (x : Bytes) (rest : List Bytes) (links : Nat)
    (h : w.kind cur = .dir) (h1 : x ≠ []) (h2 : x ≠ Path.dot) (h3 : x ≠ Path.dotdot)
    (hc : w.child cur x = some nxt) (hm : w.mnt nxt = w.mnt cur) (hk : isLink (w.kind nxt) = false) (hr : rest ≠ []) :
    presolve w c cur (x :: rest) links = presolve w c nxt rest links := by
  rw [p_name c cur x rest links h h1 h2 h3, hc]
  simp only [hm, ne_eq, not_true_eq_false, ↓reduceIte, hk, Bool.false_eq_true, hr]

/-- one step over an ordinary symlink in the middle of the path -/
theorem p_link_more (c : PCfg) (cur nxt : Fd) (x : Bytes) (rest : List Bytes) (links : Nat)
    (h : w.kind cur = .dir) (h1 : x ≠ []) (h2 : x ≠ Path.dot) (h3 : x ≠ Path.dotdot)
    (hc : w.child cur x = some nxt) (hm : w.mnt nxt = w.mnt cur) (hk : isLink (w.kind nxt) = true) (hr : rest ≠ [])
    (hns : c.noSymlinks = false) (hmg : w.kind nxt ≠ .magic) (hlim : ¬ links + 1 ≥ c.maxLinks)
    (habs : Path.isAbsolute (w.body nxt) = false) :
    presolve w c cur (x :: rest) links = presolve w c cur (Path.rawComponents (w.body nxt) ++ rest) (links + 1) := by
  rw [p_name c cur x rest links h h1 h2 h3, hc]
  simp only [hm, ne_eq, not_true_eq_false, ↓reduceIte, hk, hr, false_and, hns, Bool.false_eq_true, hmg, hlim, habs]

/-- a confined lookup that asked for a directory and did not follow its last component ended at `d`: the same lookup
of the path with one more component `t` arrives at `d` with `[t]` left to do -/
theorem presolve_snoc (c c' : PCfg) (hdir : hasAll c.oflags O_DIRECTORY = true) (hnf : hasAll c.oflags O_NOFOLLOW = true)
    (hns : c'.noSymlinks = c.noSymlinks) (hml : c'.maxLinks = c.maxLinks)
    (t : Bytes) (cur : Fd) (rem : List Bytes) (links : Nat) (d : Fd) (hne : rem ≠ [])
    (h : presolve w c cur rem links = .ok d) :
    ∃ links', presolve w c' cur (rem ++ [t]) links = presolve w c' d [t] links' := by
  fun_induction presolve w c cur rem links
  case case1 => exact absurd rfl hne
  case case3 =>
    rename_i cur links x hk hx _
    cases h
    exact ⟨links, p_dot_more c' _ x [t] links (by simpa using hk) hx (by simp)⟩
  case case5 =>
    rename_i cur links x rest hk hx hr ih
    obtain ⟨l', hl'⟩ := ih hr h
    exact ⟨l', (p_dot_more c' cur x (rest ++ [t]) links (by simpa using hk) hx (by simp)).trans hl'⟩
  case case8 =>
    rename_i cur links hk hb hm _ _
    cases h
    exact ⟨links, p_dotdot_more c' cur [t] links (by simpa using hk) hb (by simpa using hm) (by simp)⟩
  case case10 =>
    rename_i cur links rest hk hb hm hr _ ih
    obtain ⟨l', hl'⟩ := ih hr h
    exact ⟨l', (p_dotdot_more c' cur (rest ++ [t]) links (by simpa using hk) hb (by simpa using hm) (by simp)).trans hl'⟩
  case case13 =>
    rename_i cur links x hk hx hdd nxt hc hm hlk _ hok
    have := openKind_ok_dir _ _ hdir hok
    rw [this] at hlk
    cases hlk
  case case19 =>
    rename_i cur links x rest hk hx hdd nxt hc hm hlk hfin hnos hmg hlim habs ih
    have hr : rest ≠ [] := fun h0 => hfin ⟨h0, hnf⟩
    obtain ⟨l', hl'⟩ := ih (by simp [hr]) h
    refine ⟨l', ?_⟩
    rw [← hl', List.append_assoc]
    exact p_link_more c' cur nxt x (rest ++ [t]) links (by simpa using hk) (fun h0 => hx (Or.inl h0))
      (fun h0 => hx (Or.inr h0)) hdd hc (by simpa using hm) hlk (by simp) (by rw [hns]; simpa using hnos) hmg
      (by rw [hml]; exact hlim) (by simpa using habs)
  case case20 =>
    rename_i cur links x hk hx hdd nxt hc hm hlk hok
    cases h
    exact ⟨links, p_nonlink_more c' cur _ x [t] links (by simpa using hk) (fun h0 => hx (Or.inl h0))
      (fun h0 => hx (Or.inr h0)) hdd hc (by simpa using hm) (by simpa using hlk) (by simp)⟩
  case case22 =>
    rename_i cur links x rest hk hx hdd nxt hc hm hlk hr ih
    obtain ⟨l', hl'⟩ := ih hr h
    exact ⟨l', (p_nonlink_more c' cur nxt x (rest ++ [t]) links (by simpa using hk) (fun h0 => hx (Or.inl h0))
      (fun h0 => hx (Or.inr h0)) hdd hc (by simpa using hm) (by simpa using hlk) (by simp)).trans hl'⟩
  all_goals cases h

/-- the last step of a no-follow lookup: the name `t` in the directory `d` -/
theorem presolve_last (c : PCfg) (hnf : hasAll c.oflags O_NOFOLLOW = true) (d l : Fd) (t : Bytes) (links : Nat)
    (htd : t ≠ Path.dotdot) (ht : t ≠ []) (hl : w.lookup d t = .ok l) :
    presolve w c d [t] links = if w.mnt l ≠ w.mnt d then .error EXDEV else openAs w l c.oflags := by
  have hk := lookup_ok_dir hl
  unfold PWorld.lookup at hl
  rw [if_neg (by simp [hk])] at hl
  by_cases hdot : t = Path.dot
  · rw [if_pos hdot] at hl
    cases hl
    rw [p_dot c d t [] links hk (Or.inr hdot), if_pos rfl, if_neg (by simp)]
    unfold openAs
    rw [hk]
    rfl
  · rw [if_neg hdot, if_neg htd] at hl
    rw [p_name c d t [] links hk ht hdot htd]
    cases hc : w.child d t with
    | none => rw [hc] at hl; cases hl
    | some n =>
      rw [hc] at hl
      cases hl
      simp only []
      by_cases hm : w.mnt l = w.mnt d
      · simp only [hm, ne_eq, not_true_eq_false, ↓reduceIte, hnf, and_self, ite_self]
        rfl
      · simp only [hm, ne_eq, not_false_eq_true, ↓reduceIte]

theorem openAs_ok {o r : Fd} {fl : Nat} (h : openAs w o fl = .ok r) : r = o := by
  unfold openAs at h
  generalize openKind (w.kind o) fl = x at h
  cases x with
  | error e => cases h
  | ok u => cases h; rfl

/-- `open(2)` of a link itself (`O_NOFOLLOW`): the kernel's table -/
theorem openAs_link {l : Fd} (hk : isLink (w.kind l) = true) (fl : Nat) :
    openAs w l fl =
      if hasAll fl O_DIRECTORY then .error ENOTDIR else if hasAll fl O_PATH then .ok l else .error ELOOP := by
  unfold openAs
  rcases isLink_cases hk with h | h <;> rw [h] <;> simp only [openKind] <;>
    by_cases h1 : hasAll fl O_DIRECTORY = true <;> by_cases h2 : hasAll fl O_PATH = true <;> simp [h1, h2]

theorem openAs_opath (l : Fd) : openAs w l (O_PATH ||| O_NOFOLLOW) = .ok l := by
  unfold openAs
  rw [openKind_walk]

/-! ## `path_split` and the confined lookup -/

theorem isAbsolute_append (a b : Bytes) (ha : a ≠ []) : Path.isAbsolute (a ++ b) = Path.isAbsolute a := by
  cases a with
  | nil => exact absurd rfl ha
  | cons x xs => rfl

theorem single_not_absolute (t : Bytes) (h : Path.containsSlash t = false) : Path.isAbsolute t = false := by
  cases t with
  | nil => rfl
  | cons a r =>
    by_cases ha : a = Path.slash
    · subst ha
      simp [Path.containsSlash] at h
    · simp [Path.isAbsolute, ha]

theorem pathSplit_shape {sub parent trailing : Bytes} (h : Path.pathSplit sub = .ok (parent, some trailing))
    (hne : parent ≠ []) (habs : Path.isAbsolute parent = false) :
    Path.isAbsolute sub = false ∧
      (Path.rawComponents parent ++ [trailing] = Path.rawComponents sub ∨
        (parent = Path.dot ∧ Path.rawComponents sub = [trailing])) := by
  have hr := pathSplit_raw h habs
  refine ⟨?_, hr⟩
  rcases hr with hr | ⟨_, hr⟩
  · have hs : sub = parent ++ Path.slash :: trailing := by
      have h1 := Ancestors.joinSlash_splitSlash sub
      have h2 : Path.splitSlash sub = Path.splitSlash parent ++ [trailing] := hr.symm
      rw [h2, Ancestors.joinSlash_append (KPath.splitSlash_ne_nil parent) (by simp),
        Ancestors.joinSlash_splitSlash parent] at h1
      exact h1.symm
    rw [hs, isAbsolute_append _ _ hne, habs]
  · have hs : sub = trailing := by
      have h1 := Ancestors.joinSlash_splitSlash sub
      have h2 : Path.splitSlash sub = [trailing] := hr
      rw [h2] at h1
      exact h1.symm
    rw [hs]
    exact single_not_absolute _ (pathSplit_single h)

/-- **The decomposition of `ProcfsHandle::open`'s lookup at the final component.**  When the no-follow directory lookup
of `parent` yields `d` and `d` has the entry `l` under the final name, the lookup of the whole sub-path is: `EXDEV` when
something is mounted on the entry, otherwise `open(2)` — with `O_NOFOLLOW` — of `l` itself. -/
theorem openSpec_split (bp sub parent trailing : Bytes) (hsub : SubOk sub parent trailing) (oflags : Nat) (d l : Fd)
    (hd : openSpec w bp parent (O_PATH ||| O_DIRECTORY) = .ok d) (hl : w.lookup d trailing = .ok l) :
    openSpec w bp sub oflags = if w.mnt l ≠ w.mnt d then .error EXDEV else openAs w l (oflags ||| O_NOFOLLOW) := by
  unfold openSpec at hd ⊢
  generalize resolveBeneath w (ecfgP (O_PATH ||| O_DIRECTORY)) bp = x at hd ⊢
  cases x with
  | error e => cases hd
  | ok b =>
    simp only [] at hd ⊢
    unfold resolveBeneath at hd ⊢
    rw [if_neg hsub.parent_ne] at hd
    by_cases habs : Path.isAbsolute parent = true
    · rw [if_pos habs] at hd; cases hd
    · rw [if_neg habs] at hd
      have habs' : Path.isAbsolute parent = false := by simpa using habs
      obtain ⟨hsabs, hshape⟩ := pathSplit_shape hsub.split hsub.parent_ne habs'
      rw [if_neg hsub.sub_ne, if_neg (by simp [hsabs])]
      have hmem : trailing ∈ Path.rawComponents sub := by
        rcases hshape with h | ⟨_, h⟩
        · rw [← h]; simp
        · rw [h]; simp
      have htd : trailing ≠ Path.dotdot := fun h0 => hsub.nodd (h0 ▸ hmem)
      have hl' : (rebase w b).lookup d trailing = .ok l := hl
      have hnf' : hasAll (ecfgP (oflags ||| O_NOFOLLOW)).oflags O_NOFOLLOW = true := by
        show hasAll (oflags ||| O_NOFOLLOW) O_NOFOLLOW = true
        rw [Nat.or_comm]; exact hasAll_or_left _ _
      have hlast := fun links => presolve_last (w := rebase w b) (ecfgP (oflags ||| O_NOFOLLOW)) hnf' d l trailing links
        htd hsub.trailing_ne hl'
      rcases hshape with hraw | ⟨hpd, hraw⟩
      · rw [← hraw]
        obtain ⟨l', hl2⟩ := presolve_snoc (w := rebase w b) (ecfgP (O_PATH ||| O_DIRECTORY ||| O_NOFOLLOW))
          (ecfgP (oflags ||| O_NOFOLLOW)) (by decide) (by decide) rfl rfl trailing _ (Path.rawComponents parent) 0 d
          (KPath.splitSlash_ne_nil parent) hd
        exact hl2.trans (hlast l')
      · rw [hraw]
        subst hpd
        have hd' : presolve (rebase w b) (ecfgP (O_PATH ||| O_DIRECTORY ||| O_NOFOLLOW)) b [Path.dot] 0 = .ok d := hd
        have hdb : d = b := by
          by_cases hkb : (rebase w b).kind b = .dir
          · rw [p_dot _ b Path.dot [] 0 hkb (Or.inr rfl), if_pos rfl] at hd'
            have hok : openKind .dir (ecfgP (O_PATH ||| O_DIRECTORY ||| O_NOFOLLOW)).oflags = .ok () := rfl
            rw [hok] at hd'
            cases hd'
            rfl
          · rw [p_notdir _ b Path.dot [] 0 hkb] at hd'
            cases hd'
        subst hdb
        exact hlast 0

/-! ## `open_follow` as a function of the world -/

/-- specification of `ProcfsHandle::open_follow(base, parent/trailing, fl)` (no trailing slash, no creation flags): the
`readlink` probe decides between the no-follow open of the whole sub-path and the following half -/
def openFollowSpec (w : PWorld) (bp sub parent trailing : Bytes) (fl : Nat) : Except Err Fd :=
  match probeSpec w bp sub with
  | .ok _ => toOutP (followSpec w bp parent trailing fl)
  | .error e =>
    if e = .os EINVAL ∨ e = .os ENOENT then toOutP (openSpec w bp sub fl)
    else if e = .os ENAMETOOLONG then toOutP (followSpec w bp parent trailing fl)
    else .error e

/-- `open_follow` on a world computes its specification -/
theorem prun_openFollowH (hw : PWF w) (env : Env) (base : Procfs.Base) (sub parent trailing : Bytes) (fl : Nat)
    (hprobe : Prog.prun w (Procfs.intoPath base w.base) = .ok (basePath base))
    (hsub : SubOk sub parent trailing)
    (hcf : (hasAny fl (O_CREAT ||| O_EXCL) || hasAll fl O_TMPFILE) = false) :
    Prog.prun w (Procfs.openFollowH env (handleOf w) base sub fl) =
      openFollowSpec w (basePath base) sub parent trailing fl := by
  have hfuel : Procfs.retryFuel = 63 + 1 := rfl
  have htail := prun_openFollowTail hw env base sub parent trailing fl hprobe hsub.split hsub.trailing_ne hsub.parent_ne
    hsub.nodd_parent
  have hopen := prun_openH hw env base sub fl 63 hprobe hsub.sub_ne hsub.nodd hcf
  unfold Procfs.openFollowH openFollowSpec
  simp only [hsub.strip, Bool.false_eq_true, ↓reduceIte, hcf, M.bind_def, prun_bind'_simp, prun_try_simp,
    prun_readlinkH hw env base sub hprobe hsub.sub_ne hsub.nodd]
  generalize hp : probeSpec w (basePath base) sub = x
  cases x with
  | ok body => exact htail
  | error e =>
    simp only [probeSpec_not_fatal _ _ _ hp, Bool.false_eq_true, ↓reduceIte]
    by_cases h1 : e = .os EINVAL ∨ e = .os ENOENT
    · simp only [h1, ↓reduceIte, hfuel]
      exact hopen
    · by_cases h2 : e = .os ENAMETOOLONG
      · simp only [h2, ↓reduceIte]
        exact htail
      · simp only [h1, h2, ↓reduceIte, prun_do_throw]

/-- what the kernel does with the one following `openat(d, name, fl)` when the entry is `l`, by the kind of `l` -/
def followTrailing (w : PWorld) (l : Fd) (fl : Nat) : Except Nat Fd :=
  match w.kind l with
  | .magic => (match w.target l with
      | some t => openAs w t (fl ||| O_CLOEXEC ||| O_NOCTTY)
      | none => .error ENOENT)
  | .lnk => (match w.follow l with
      | .ok t => openAs w t (fl ||| O_CLOEXEC ||| O_NOCTTY)
      | .error e => .error e)
  | .dir | .other => openAs w l (fl ||| O_NOFOLLOW)

theorem followOpen_link {d l : Fd} {t : Bytes} {fl : Nat} (hl : w.lookup d t = .ok l)
    (hnf : hasAll fl O_NOFOLLOW = false) (hk : isLink (w.kind l) = true) :
    followOpen w d t (fl ||| O_CLOEXEC ||| O_NOCTTY) = followTrailing w l fl := by
  have hnf' : hasAll (fl ||| O_CLOEXEC ||| O_NOCTTY) O_NOFOLLOW = false := by
    rw [hasAll_or_right_disj _ _ _ (by decide), hasAll_or_right_disj _ _ _ (by decide)]; exact hnf
  unfold followOpen followTrailing
  rw [hl]
  simp only [hnf', hk, Bool.not_true, Bool.or_self, Bool.false_eq_true, ↓reduceIte]
  rcases isLink_cases hk with h | h
  · rw [h]
    simp only [reduceCtorEq, ↓reduceIte]
    cases w.follow l <;> rfl
  · rw [h]
    simp only [↓reduceIte]
    cases w.target l <;> rfl

theorem followTrailing_nonlink {l : Fd} {fl : Nat} (hk : isLink (w.kind l) = false) :
    followTrailing w l fl = openAs w l (fl ||| O_NOFOLLOW) := by
  unfold followTrailing
  cases h : w.kind l with
  | dir => rfl
  | other => rfl
  | lnk => rw [h] at hk; cases hk
  | magic => rw [h] at hk; cases hk

end C07Table

open C07Table

/-! # C07 — the final-component table

`ProcfsHandle::open` and `readlink` never follow a trailing symlink of any kind; `open_follow` follows exactly the
trailing link.  Everywhere below: `w` is any procfs tree with any mounts (`PWF`), the handle is the unmasked handle on
its root with the emulated resolver, `sub = parent/trailing` (`SubOk`; `parent = "."` for a one-component `sub`),
`d` is the directory the confined no-follow lookup of `parent` below the base yields, and `l` is the entry of `d` under
the name `trailing`, on the mount of `d`.
-/

/-- **`open`, any final component**: the call is the `O_NOFOLLOW` `open(2)` of the entry `l` itself. -/
theorem C07_open_trailing {w : PWorld} (hw : PWF w) (env : Env) (base : Procfs.Base) (sub parent trailing : Bytes)
    (oflags fuel : Nat) (hprobe : Prog.prun w (Procfs.intoPath base w.base) = .ok (basePath base))
    (hsub : SubOk sub parent trailing)
    (hcf : (hasAny oflags (O_CREAT ||| O_EXCL) || hasAll oflags O_TMPFILE) = false) (d l : Fd)
    (hd : openSpec w (basePath base) parent (O_PATH ||| O_DIRECTORY) = .ok d)
    (hl : w.lookup d trailing = .ok l) (hm : w.mnt l = w.mnt d) :
    Prog.prun w (Procfs.openH env (fuel + 1) (handleOf w) base sub oflags) =
      toOutP (openAs w l (oflags ||| O_NOFOLLOW)) := by
  rw [prun_openH hw env base sub oflags fuel hprobe hsub.sub_ne hsub.nodd hcf,
    openSpec_split (basePath base) sub parent trailing hsub oflags d l hd hl, if_neg (by simp [hm])]

/-- **`open`, the final component is a link (ordinary or magic)**: with `O_PATH` (and without `O_DIRECTORY`) the call
returns the link object `l` itself — never what it leads to; without `O_PATH` it fails with `ELOOP`; with
`O_DIRECTORY` it fails with `ENOTDIR` (the kernel's table for `O_NOFOLLOW` on a symlink). -/
theorem C07_open_trailing_link {w : PWorld} (hw : PWF w) (env : Env) (base : Procfs.Base) (sub parent trailing : Bytes)
    (oflags fuel : Nat) (hprobe : Prog.prun w (Procfs.intoPath base w.base) = .ok (basePath base))
    (hsub : SubOk sub parent trailing)
    (hcf : (hasAny oflags (O_CREAT ||| O_EXCL) || hasAll oflags O_TMPFILE) = false) (d l : Fd)
    (hd : openSpec w (basePath base) parent (O_PATH ||| O_DIRECTORY) = .ok d)
    (hl : w.lookup d trailing = .ok l) (hm : w.mnt l = w.mnt d) (hk : isLink (w.kind l) = true) :
    Prog.prun w (Procfs.openH env (fuel + 1) (handleOf w) base sub oflags) =
      if hasAll oflags O_DIRECTORY then .error (.os ENOTDIR)
      else if hasAll oflags O_PATH then .ok l
      else .error (.os ELOOP) := by
  rw [C07_open_trailing hw env base sub parent trailing oflags fuel hprobe hsub hcf d l hd hl hm, openAs_link hk,
    hasAll_or_right_disj _ _ _ (by decide), hasAll_or_right_disj _ _ _ (by decide)]
  by_cases h1 : hasAll oflags O_DIRECTORY = true <;> by_cases h2 : hasAll oflags O_PATH = true <;> simp [h1, h2, toOutP]

/-- **`open`, the final component is not a link**: a success returns `l`. -/
theorem C07_open_trailing_nonlink {w : PWorld} (hw : PWF w) (env : Env) (base : Procfs.Base)
    (sub parent trailing : Bytes) (oflags fuel : Nat)
    (hprobe : Prog.prun w (Procfs.intoPath base w.base) = .ok (basePath base))
    (hsub : SubOk sub parent trailing)
    (hcf : (hasAny oflags (O_CREAT ||| O_EXCL) || hasAll oflags O_TMPFILE) = false) (d l : Fd)
    (hd : openSpec w (basePath base) parent (O_PATH ||| O_DIRECTORY) = .ok d)
    (hl : w.lookup d trailing = .ok l) (hm : w.mnt l = w.mnt d) (_hk : isLink (w.kind l) = false) (o : Fd)
    (h : Prog.prun w (Procfs.openH env (fuel + 1) (handleOf w) base sub oflags) = .ok o) : o = l := by
  rw [C07_open_trailing hw env base sub parent trailing oflags fuel hprobe hsub hcf d l hd hl hm] at h
  generalize hx : openAs w l (oflags ||| O_NOFOLLOW) = x at h
  cases x with
  | error e => cases h
  | ok r => cases h; exact openAs_ok hx

/-- **`readlink`**: the body of the entry `l` itself when `l` is a link (for a magic-link: the text the kernel prints
for it), `EINVAL` when it is not — never the body of anything `l` leads to, and nothing is followed. -/
theorem C07_readlink_trailing {w : PWorld} (hw : PWF w) (env : Env) (base : Procfs.Base) (sub parent trailing : Bytes)
    (hprobe : Prog.prun w (Procfs.intoPath base w.base) = .ok (basePath base))
    (hsub : SubOk sub parent trailing) (d l : Fd)
    (hd : openSpec w (basePath base) parent (O_PATH ||| O_DIRECTORY) = .ok d)
    (hl : w.lookup d trailing = .ok l) (hm : w.mnt l = w.mnt d) :
    Prog.prun w (Procfs.readlinkH env (handleOf w) base sub) =
      if isLink (w.kind l) = true then .ok (w.body l) else .error (.os EINVAL) := by
  rw [prun_readlinkH hw env base sub hprobe hsub.sub_ne hsub.nodd]
  unfold probeSpec
  rw [openSpec_split (basePath base) sub parent trailing hsub O_PATH d l hd hl, if_neg (by simp [hm]), openAs_opath]

/-- **`open_follow`, any final component** (flags without `O_NOFOLLOW`): when `l` is a link the call is the following
half (`followSpec`: the verified parent, then one `openat` that lets the kernel follow this one link), otherwise it is
the no-follow `open`; in both cases the result is `followTrailing`, the table by the kind of `l`. -/
theorem C07_open_follow_eq {w : PWorld} (hw : PWF w) (env : Env) (base : Procfs.Base) (sub parent trailing : Bytes)
    (fl : Nat) (hprobe : Prog.prun w (Procfs.intoPath base w.base) = .ok (basePath base))
    (hsub : SubOk sub parent trailing)
    (hcf : (hasAny fl (O_CREAT ||| O_EXCL) || hasAll fl O_TMPFILE) = false)
    (hnf : hasAll fl O_NOFOLLOW = false) (d l : Fd)
    (hd : openSpec w (basePath base) parent (O_PATH ||| O_DIRECTORY) = .ok d)
    (hl : w.lookup d trailing = .ok l) (hm : w.mnt l = w.mnt d) :
    Prog.prun w (Procfs.openFollowH env (handleOf w) base sub fl) =
        toOutP (if isLink (w.kind l) = true then followSpec w (basePath base) parent trailing fl
                else openSpec w (basePath base) sub fl) ∧
      Prog.prun w (Procfs.openFollowH env (handleOf w) base sub fl) = toOutP (followTrailing w l fl) := by
  have hprobeSpec : probeSpec w (basePath base) sub =
      if isLink (w.kind l) = true then .ok (w.body l) else .error (.os EINVAL) := by
    unfold probeSpec
    rw [openSpec_split (basePath base) sub parent trailing hsub O_PATH d l hd hl, if_neg (by simp [hm]), openAs_opath]
  have hfs : followSpec w (basePath base) parent trailing fl = followOpen w d trailing (fl ||| O_CLOEXEC ||| O_NOCTTY) := by
    unfold followSpec
    rw [hd]
    simp only []
    rw [hl]
    simp only []
    rw [if_neg (by simp [hm])]
  have hrun := prun_openFollowH hw env base sub parent trailing fl hprobe hsub hcf
  unfold openFollowSpec at hrun
  rw [hprobeSpec] at hrun
  by_cases hk : isLink (w.kind l) = true
  · rw [if_pos hk] at hrun
    simp only [] at hrun
    rw [if_pos hk]
    exact ⟨hrun, by rw [hrun, hfs, followOpen_link hl hnf hk]⟩
  · rw [if_neg hk] at hrun
    simp only [true_or, ↓reduceIte] at hrun
    rw [if_neg hk]
    have hk' : isLink (w.kind l) = false := by simpa using hk
    refine ⟨hrun, ?_⟩
    rw [hrun, openSpec_split (basePath base) sub parent trailing hsub fl d l hd hl, if_neg (by simp [hm]),
      followTrailing_nonlink hk']

/-- **`open_follow`, the rows of the table**: a success returns exactly the target of a magic-link, exactly what the
kernel's walk of an ordinary symlink's body yields (one link, followed by the kernel), and `l` itself when `l` is not a
link. -/
theorem C07_open_follow_trailing {w : PWorld} (hw : PWF w) (env : Env) (base : Procfs.Base) (sub parent trailing : Bytes)
    (fl : Nat) (hprobe : Prog.prun w (Procfs.intoPath base w.base) = .ok (basePath base))
    (hsub : SubOk sub parent trailing)
    (hcf : (hasAny fl (O_CREAT ||| O_EXCL) || hasAll fl O_TMPFILE) = false)
    (hnf : hasAll fl O_NOFOLLOW = false) (d l : Fd)
    (hd : openSpec w (basePath base) parent (O_PATH ||| O_DIRECTORY) = .ok d)
    (hl : w.lookup d trailing = .ok l) (hm : w.mnt l = w.mnt d) (o : Fd)
    (h : Prog.prun w (Procfs.openFollowH env (handleOf w) base sub fl) = .ok o) :
    (w.kind l = .magic → w.target l = some o) ∧
    (w.kind l = .lnk → w.follow l = .ok o) ∧
    (isLink (w.kind l) = false → o = l) := by
  rw [(C07_open_follow_eq hw env base sub parent trailing fl hprobe hsub hcf hnf d l hd hl hm).2] at h
  generalize hx : followTrailing w l fl = x at h
  cases x with
  | error e => cases h
  | ok r =>
    cases h
    refine ⟨fun hk => ?_, fun hk => ?_, fun hk => ?_⟩
    · unfold followTrailing at hx
      rw [hk] at hx
      simp only [] at hx
      cases ht : w.target l with
      | none => rw [ht] at hx; cases hx
      | some t => rw [ht] at hx; rw [openAs_ok hx]
    · unfold followTrailing at hx
      rw [hk] at hx
      simp only [] at hx
      cases ht : w.follow l with
      | error e => rw [ht] at hx; cases hx
      | ok t => rw [ht] at hx; rw [openAs_ok hx]
    · rw [followTrailing_nonlink hk] at hx
      exact openAs_ok hx

/-- **an entry that was mounted over**: `open`, `readlink` and `open_follow` all fail with `EXDEV`; neither the entry
nor what is mounted on it is returned or read. -/
theorem C07_trailing_overmounted {w : PWorld} (hw : PWF w) (env : Env) (base : Procfs.Base)
    (sub parent trailing : Bytes) (fl fuel : Nat)
    (hprobe : Prog.prun w (Procfs.intoPath base w.base) = .ok (basePath base))
    (hsub : SubOk sub parent trailing)
    (hcf : (hasAny fl (O_CREAT ||| O_EXCL) || hasAll fl O_TMPFILE) = false) (d l : Fd)
    (hd : openSpec w (basePath base) parent (O_PATH ||| O_DIRECTORY) = .ok d)
    (hl : w.lookup d trailing = .ok l) (hm : w.mnt l ≠ w.mnt d) :
    Prog.prun w (Procfs.openH env (fuel + 1) (handleOf w) base sub fl) = .error (.os EXDEV) ∧
    Prog.prun w (Procfs.readlinkH env (handleOf w) base sub) = .error (.os EXDEV) ∧
    Prog.prun w (Procfs.openFollowH env (handleOf w) base sub fl) = .error (.os EXDEV) := by
  have hs := fun oflags => openSpec_split (basePath base) sub parent trailing hsub oflags d l hd hl
  have hp : probeSpec w (basePath base) sub = .error (.os EXDEV) := by
    unfold probeSpec
    rw [hs, if_pos hm]
  refine ⟨?_, ?_, ?_⟩
  · rw [prun_openH hw env base sub fl fuel hprobe hsub.sub_ne hsub.nodd hcf, hs, if_pos hm]
    rfl
  · rw [prun_readlinkH hw env base sub hprobe hsub.sub_ne hsub.nodd, hp]
  · rw [prun_openFollowH hw env base sub parent trailing fl hprobe hsub hcf]
    unfold openFollowSpec
    rw [hp]
    simp only []
    rw [if_neg (by decide), if_neg (by decide)]

/-! ## Non-vacuity: one magic-link row, one symlink row, one non-link row, one over-mounted row -/

namespace C07Table

/-- `KProcReopen.exampleWorldR` — `/proc` with `self -> 100`, the magic-link `100/exe`, the file `100/status`, another
mount on `uptime` — in which the magic-link `100/exe` (object 18) leads to an object 52 outside the tree and the kernel's
walk of the body of `self` (object 12) arrives at the directory `100` (object 14) -/
def exampleWorldF : PWorld :=
  { exampleWorldR with
    target := fun d => if d = 18 then some 52 else exampleWorldR.target d
    follow := fun d => if d = 12 then .ok 14 else .error ELOOP }

theorem exampleWorldF_wf : PWF exampleWorldF :=
  ⟨exampleWorldR_wf.base_nonneg, exampleWorldR_wf.base_dir, exampleWorldR_wf.child_nonneg, exampleWorldR_wf.lnk_body,
    exampleWorldR_wf.magic_body⟩

theorem exF_probe : Prog.prun exampleWorldF (Procfs.intoPath .root exampleWorldF.base) = .ok (basePath .root) := rfl

theorem exF_base : resolveBeneath exampleWorldF (ecfgP (O_PATH ||| O_DIRECTORY)) b!"." = .ok 10 := by
  unfold resolveBeneath
  rw [if_neg (by decide), if_neg (by decide)]
  show presolve exampleWorldF _ 10 [b!"."] 0 = _
  rw [p_dot _ _ _ _ _ (by decide) (Or.inr (by decide)), if_pos rfl]
  rfl

/-- the parent `.` of a one-component sub-path: the base directory itself -/
theorem exF_parent_dot : openSpec exampleWorldF (basePath .root) b!"." (O_PATH ||| O_DIRECTORY) = .ok 10 := by
  unfold openSpec
  show (match resolveBeneath exampleWorldF (ecfgP (O_PATH ||| O_DIRECTORY)) b!"." with
    | .error e => Except.error e
    | .ok b => resolveBeneath (rebase exampleWorldF b) (ecfgP (O_PATH ||| O_DIRECTORY ||| O_NOFOLLOW)) b!".") = _
  rw [exF_base]
  simp only []
  unfold resolveBeneath
  rw [if_neg (by decide), if_neg (by decide)]
  show presolve (rebase exampleWorldF 10) _ 10 [b!"."] 0 = _
  rw [p_dot _ _ _ _ _ (by decide) (Or.inr (by decide)), if_pos rfl]
  rfl

/-- the parent `100`: the directory 14 -/
theorem exF_parent_100 : openSpec exampleWorldF (basePath .root) b!"100" (O_PATH ||| O_DIRECTORY) = .ok 14 := by
  unfold openSpec
  show (match resolveBeneath exampleWorldF (ecfgP (O_PATH ||| O_DIRECTORY)) b!"." with
    | .error e => Except.error e
    | .ok b => resolveBeneath (rebase exampleWorldF b) (ecfgP (O_PATH ||| O_DIRECTORY ||| O_NOFOLLOW)) b!"100") = _
  rw [exF_base]
  simp only []
  unfold resolveBeneath
  rw [if_neg (by decide), if_neg (by decide)]
  show presolve (rebase exampleWorldF 10) _ 10 [b!"100"] 0 = _
  rw [p_name _ _ _ _ _ (by decide) (by decide) (by decide) (by decide)]
  have hc : (rebase exampleWorldF 10).child 10 b!"100" = some 14 := by decide
  rw [hc]
  simp only []
  rw [if_neg (by decide), if_neg (by decide), if_pos trivial]
  rfl

theorem exF_exe : exampleWorldF.lookup 14 b!"exe" = .ok 18 := rfl
theorem exF_status : exampleWorldF.lookup 14 b!"status" = .ok 16 := rfl
theorem exF_self : exampleWorldF.lookup 10 b!"self" = .ok 12 := rfl
theorem exF_uptime : exampleWorldF.lookup 10 b!"uptime" = .ok 26 := rfl

theorem subOk_exe : SubOk b!"100/exe" b!"100" b!"exe" :=
  ⟨by decide, rfl, by decide, by decide, by decide, by decide, by decide⟩
theorem subOk_status : SubOk b!"100/status" b!"100" b!"status" :=
  ⟨by decide, rfl, by decide, by decide, by decide, by decide, by decide⟩
theorem subOk_self : SubOk b!"self" b!"." b!"self" :=
  ⟨by decide, rfl, by decide, by decide, by decide, by decide, by decide⟩
theorem subOk_uptime : SubOk b!"uptime" b!"." b!"uptime" :=
  ⟨by decide, rfl, by decide, by decide, by decide, by decide, by decide⟩

end C07Table

section examples
open C07Table

/-! ### the magic-link row: `100/exe` is the magic-link 18, which leads to 52 -/

example (env : Env) :
    Prog.prun exampleWorldF (Procfs.openH env 1 (handleOf exampleWorldF) .root b!"100/exe" O_PATH) = .ok 18 :=
  C07_open_trailing_link exampleWorldF_wf env .root _ _ _ O_PATH 0 exF_probe subOk_exe (by decide) 14 18 exF_parent_100 exF_exe (by decide) (by decide)

example (env : Env) :
    Prog.prun exampleWorldF (Procfs.openH env 1 (handleOf exampleWorldF) .root b!"100/exe" O_RDONLY) =
      .error (.os ELOOP) :=
  C07_open_trailing_link exampleWorldF_wf env .root _ _ _ O_RDONLY 0 exF_probe subOk_exe (by decide) 14 18 exF_parent_100 exF_exe (by decide) (by decide)

example (env : Env) :
    Prog.prun exampleWorldF (Procfs.readlinkH env (handleOf exampleWorldF) .root b!"100/exe") = .ok b!"/usr/bin/x" :=
  C07_readlink_trailing exampleWorldF_wf env .root _ _ _ exF_probe subOk_exe 14 18 exF_parent_100 exF_exe (by decide)

example (env : Env) :
    Prog.prun exampleWorldF (Procfs.openFollowH env (handleOf exampleWorldF) .root b!"100/exe" O_RDONLY) = .ok 52 :=
  (C07_open_follow_eq exampleWorldF_wf env .root _ _ _ O_RDONLY exF_probe subOk_exe (by decide) (by decide) 14 18
    exF_parent_100 exF_exe (by decide)).2

example (env : Env) : exampleWorldF.target 18 = some 52 :=
  (C07_open_follow_trailing exampleWorldF_wf env .root _ _ _ O_RDONLY exF_probe subOk_exe (by decide) (by decide) 14 18
    exF_parent_100 exF_exe (by decide) 52
    (C07_open_follow_eq exampleWorldF_wf env .root _ _ _ O_RDONLY exF_probe subOk_exe (by decide) (by decide) 14 18
      exF_parent_100 exF_exe (by decide)).2).1 (by decide)

/-! ### the symlink row: `self` is the ordinary symlink 12 with body `100`; the kernel's walk of it arrives at 14 -/

example (env : Env) :
    Prog.prun exampleWorldF (Procfs.openH env 1 (handleOf exampleWorldF) .root b!"self" O_PATH) = .ok 12 :=
  C07_open_trailing_link exampleWorldF_wf env .root _ _ _ O_PATH 0 exF_probe subOk_self (by decide) 10 12 exF_parent_dot exF_self (by decide) (by decide)

example (env : Env) :
    Prog.prun exampleWorldF (Procfs.openH env 1 (handleOf exampleWorldF) .root b!"self" (O_PATH ||| O_DIRECTORY)) =
      .error (.os ENOTDIR) :=
  C07_open_trailing_link exampleWorldF_wf env .root _ _ _ (O_PATH ||| O_DIRECTORY) 0 exF_probe subOk_self (by decide)
    10 12 exF_parent_dot exF_self (by decide) (by decide)

example (env : Env) :
    Prog.prun exampleWorldF (Procfs.readlinkH env (handleOf exampleWorldF) .root b!"self") = .ok b!"100" :=
  C07_readlink_trailing exampleWorldF_wf env .root _ _ _ exF_probe subOk_self 10 12 exF_parent_dot exF_self (by decide)

example (env : Env) :
    Prog.prun exampleWorldF (Procfs.openFollowH env (handleOf exampleWorldF) .root b!"self" O_RDONLY) = .ok 14 :=
  (C07_open_follow_eq exampleWorldF_wf env .root _ _ _ O_RDONLY exF_probe subOk_self (by decide) (by decide) 10 12
    exF_parent_dot exF_self (by decide)).2

example (env : Env) : exampleWorldF.follow 12 = .ok 14 :=
  (C07_open_follow_trailing exampleWorldF_wf env .root _ _ _ O_RDONLY exF_probe subOk_self (by decide) (by decide) 10 12
    exF_parent_dot exF_self (by decide) 14
    (C07_open_follow_eq exampleWorldF_wf env .root _ _ _ O_RDONLY exF_probe subOk_self (by decide) (by decide) 10 12
      exF_parent_dot exF_self (by decide)).2).2.1 (by decide)

/-! ### the non-link row: `100/status` is the file 16 -/

example (env : Env) :
    Prog.prun exampleWorldF (Procfs.openH env 1 (handleOf exampleWorldF) .root b!"100/status" O_RDONLY) = .ok 16 :=
  C07_open_trailing exampleWorldF_wf env .root _ _ _ O_RDONLY 0 exF_probe subOk_status (by decide) 14 16 exF_parent_100 exF_status (by decide)

example (env : Env) (o : Fd)
    (h : Prog.prun exampleWorldF (Procfs.openH env 1 (handleOf exampleWorldF) .root b!"100/status" O_RDONLY) = .ok o) :
    o = 16 :=
  C07_open_trailing_nonlink exampleWorldF_wf env .root _ _ _ O_RDONLY 0 exF_probe subOk_status (by decide) 14 16
    exF_parent_100 exF_status (by decide) (by decide) o h

example (env : Env) :
    Prog.prun exampleWorldF (Procfs.readlinkH env (handleOf exampleWorldF) .root b!"100/status") =
      .error (.os EINVAL) :=
  C07_readlink_trailing exampleWorldF_wf env .root _ _ _ exF_probe subOk_status 14 16 exF_parent_100 exF_status
    (by decide)

example (env : Env) :
    Prog.prun exampleWorldF (Procfs.openFollowH env (handleOf exampleWorldF) .root b!"100/status" O_RDONLY) = .ok 16 :=
  (C07_open_follow_eq exampleWorldF_wf env .root _ _ _ O_RDONLY exF_probe subOk_status (by decide) (by decide) 14 16
    exF_parent_100 exF_status (by decide)).2

/-! ### the over-mounted row: another mount lies on `uptime` (object 26) -/

example (env : Env) :
    Prog.prun exampleWorldF (Procfs.openFollowH env (handleOf exampleWorldF) .root b!"uptime" O_RDONLY) =
      .error (.os EXDEV) :=
  (C07_trailing_overmounted exampleWorldF_wf env .root _ _ _ O_RDONLY 0 exF_probe subOk_uptime (by decide) 10 26
    exF_parent_dot exF_uptime (by decide)).2.2

end examples
