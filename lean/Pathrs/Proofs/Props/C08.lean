import Pathrs.Procfs

/-!
# C08 — procfs lookups use bounded resources and report true errors

`ProcfsHandle::open` retries an `ENOENT` obtained on a masked handle once, on a
freshly created unmasked handle, by calling itself on that handle.  The model
(`Procfs.openH`) has the same recursion and therefore takes fuel.  The theorems
show that the fuel is irrelevant: the recursion has depth at most one for every
environment, so a lookup creates at most one additional handle.
(Before the repair of finding F3 this was false: the unmasked handle could
itself be masked and the code recursed for as long as descriptors lasted.)
-/

open K Procfs

theorem bind'_congr {α β : Type} (p : M α) (f g : α → M β) (h : ∀ a, f a = g a) :
    M.bind' p f = M.bind' p g := by
  have : f = g := funext h
  rw [this]

/-- the retry does not consult the recursive call on masked handles -/
theorem retryUnmasked_congr (env : Env) (a1 a2 : ProcH → M Fd) (basedir : Fd) (e : Err)
    (hagree : ∀ h2, h2.isSubset = false → a1 h2 = a2 h2) :
    retryUnmasked env a1 basedir e = retryUnmasked env a2 basedir e := by
  unfold retryUnmasked
  refine bind'_congr _ _ _ (fun r => ?_)
  cases r with
  | error e => rfl
  | ok h2 =>
    dsimp only
    by_cases hs : h2.isSubset = true
    · simp [hs]
    · have hs' : h2.isSubset = false := by simpa using hs
      simp only [hs', Bool.false_eq_true, ↓reduceIte, hagree h2 hs']

/-- a handle that is not masked never retries: the recursive call is irrelevant -/
theorem openStep_unmasked (env : Env) (a1 a2 : ProcH → Nat → M Fd) (h : ProcH) (base : Base)
    (subpath : Bytes) (oflags : Nat) (hns : h.isSubset = false) :
    openStep env a1 h base subpath oflags = openStep env a2 h base subpath oflags := by
  unfold openStep
  simp [hns]

/-- one level depends on the recursive call only through unmasked handles -/
theorem openStep_congr (env : Env) (a1 a2 : ProcH → Nat → M Fd) (h : ProcH) (base : Base)
    (subpath : Bytes) (oflags : Nat)
    (hagree : ∀ h2 fl, h2.isSubset = false → a1 h2 fl = a2 h2 fl) :
    openStep env a1 h base subpath oflags = openStep env a2 h base subpath oflags := by
  unfold openStep
  dsimp only
  refine bind'_congr _ _ _ (fun basedir => ?_)
  refine bind'_congr _ _ _ (fun first => ?_)
  cases first with
  | ok fd => rfl
  | error e =>
    dsimp only
    split
    · exact retryUnmasked_congr env _ _ basedir e (fun h2 hs => hagree h2 _ hs)
    · rfl

/-- a handle that is not masked never retries: its lookup does not depend on the fuel -/
theorem C08_unmasked_never_retries (env : Env) (k : Nat) (h : ProcH) (base : Base) (subpath : Bytes)
    (oflags : Nat) (hns : h.isSubset = false) :
    openH env (k + 1) h base subpath oflags = openH env 1 h base subpath oflags := by
  rw [openH, openH]
  exact openStep_unmasked env _ _ h base subpath oflags hns

/-- the retry recursion has depth at most one, whatever the environment answers -/
theorem C08_retry_depth_one (env : Env) (n : Nat) (h : ProcH) (base : Base) (subpath : Bytes)
    (oflags : Nat) :
    openH env (n + 2) h base subpath oflags = openH env 2 h base subpath oflags := by
  rw [openH, openH]
  apply openStep_congr
  intro h2 fl hs
  exact C08_unmasked_never_retries env n h2 base subpath fl hs

/-- the standard fuel (64) is as good as 2 -/
theorem C08_standard_fuel (env : Env) (h : ProcH) (base : Base) (subpath : Bytes) (oflags : Nat) :
    openH env retryFuel h base subpath oflags = openH env 2 h base subpath oflags :=
  C08_retry_depth_one env 62 h base subpath oflags

/-- a lookup on a handle that is not masked performs exactly the steps of one level with no
retry branch at all (so it creates no further handle) -/
theorem C08_unmasked_is_one_level (env : Env) (h : ProcH) (base : Base) (subpath : Bytes) (oflags : Nat)
    (hns : h.isSubset = false) (n : Nat) :
    openH env (n + 1) h base subpath oflags
      = openStep env (fun _ _ => throw (.outOfFuel "unreachable")) h base subpath oflags := by
  rw [openH]
  exact openStep_unmasked env _ _ h base subpath oflags hns

/-! ## The other entry points: `readlink` and `open_follow`

They reach the retry only through `openH`, with the standard fuel.  Written with
an explicit fuel they are the same programs for every fuel from 2 upwards: no
lookup of any kind can use more than one additional handle. -/

/-- `readlinkH` with the fuel of its `openH` made explicit -/
def readlinkFuel (env : Env) (n : Nat) (h : ProcH) (base : Base) (subpath : Bytes) : M Bytes := do
  let link ← openH env n h base subpath O_PATH
  let r ← M.try' (Sys.readlinkat link [])
  (Sys.close link : Prog Unit)
  M.ofExcept r

/-- `openFollowTail` with explicit fuel -/
def openFollowTailFuel (env : Env) (n : Nat) (h : ProcH) (base : Base) (subpath : Bytes) (oflags : Nat) : M Fd := do
  let (parent, trailing) ← (Path.pathSplit subpath : Except Err _)
  match trailing with
  | none => throw .invalidArgument
  | some trailing =>
    let parent ← openH env n h base parent (O_PATH ||| O_DIRECTORY)
    let parentMnt ← (fetchMntId parent []).onErr (Sys.close parent)
    (verifySameMnt parentMnt parent trailing).onErr (Sys.close parent)
    let r ← M.try' (Sys.openatFollow parent trailing oflags 0)
    (Sys.close parent : Prog Unit)
    M.ofExcept r

/-- `openFollowH` with explicit fuel -/
def openFollowFuel (env : Env) (n : Nat) (h : ProcH) (base : Base) (subpath : Bytes) (oflags : Nat) : M Fd :=
  let oflags := if (Path.stripTrailingSlash subpath).2 then oflags ||| O_DIRECTORY else oflags
  let subpath := (Path.stripTrailingSlash subpath).1
  if hasAny oflags (O_CREAT ||| O_EXCL) || hasAll oflags O_TMPFILE then throw .invalidArgument else do
  match ← M.try' (readlinkFuel env n h base subpath) with
  | .error e =>
    if e = .os EINVAL ∨ e = .os ENOENT then openH env n h base subpath oflags
    else if e = .os ENAMETOOLONG then openFollowTailFuel env n h base subpath oflags
    else throw e
  | .ok _ => openFollowTailFuel env n h base subpath oflags

theorem openH_fuel (env : Env) (n : Nat) :
    openH env (n + 2) = openH env retryFuel := by
  funext h base subpath oflags
  rw [C08_retry_depth_one, C08_standard_fuel]

/-- the model's `readlinkH` is the explicit-fuel program at the standard fuel (definitional) -/
theorem readlinkFuel_std (env : Env) : readlinkFuel env retryFuel = readlinkH env := rfl
theorem openFollowTailFuel_std (env : Env) : openFollowTailFuel env retryFuel = openFollowTail env := rfl
theorem openFollowFuel_std (env : Env) : openFollowFuel env retryFuel = openFollowH env := rfl

/-- `ProcfsHandle::readlink` uses at most one additional handle: any fuel ≥ 2 gives the same program -/
theorem C08_readlink_depth_one (env : Env) (n : Nat) (h : ProcH) (base : Base) (subpath : Bytes) :
    readlinkFuel env (n + 2) h base subpath = readlinkH env h base subpath := by
  rw [← readlinkFuel_std]
  unfold readlinkFuel
  rw [openH_fuel]

/-- `ProcfsHandle::open_follow` likewise — through its probe, its direct lookup and its parent lookup -/
theorem C08_open_follow_depth_one (env : Env) (n : Nat) (h : ProcH) (base : Base) (subpath : Bytes) (oflags : Nat) :
    openFollowFuel env (n + 2) h base subpath oflags = openFollowH env h base subpath oflags := by
  have hr : readlinkFuel env (n + 2) = readlinkFuel env retryFuel := by
    funext h base subpath
    rw [C08_readlink_depth_one, readlinkFuel_std]
  have ht : openFollowTailFuel env (n + 2) = openFollowTailFuel env retryFuel := by
    funext h base subpath oflags
    unfold openFollowTailFuel
    rw [openH_fuel]
  rw [← openFollowFuel_std]
  unfold openFollowFuel
  rw [hr, ht, openH_fuel]
