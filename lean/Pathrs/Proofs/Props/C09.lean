import Pathrs.Proofs.Runs
import Pathrs.Proofs.FollowVerified
import Pathrs.Proofs.KProcReopen

/-!
# C09 — reopen yields the same inode for any descriptor number

The model-level content: `reopen` never touches the filesystem by a name of the
file — it goes through `thread-self/fd/<n>` of libpathrs' own procfs handle, for
every descriptor number including 0; creation flags are refused before any
system call; a handle that refers to a symlink is refused with `ELOOP` right
after the `fstat`, before procfs is touched; `O_NOFOLLOW` is stripped.
That the magic-link `fd/<n>` leads to the inode the descriptor refers to is the
kernel's contract (hypothesis `MagicLinkSameInode`, DESIGN.md §10), exercised by the
tie after rename/replace/unlink histories.
-/

open K

/-! ## `proc_subpath`: total on all descriptor numbers ≥ 0, injective -/

/-- read a decimal number back -/
def parseDigits (b : Bytes) : Nat := b.foldl (fun acc c => acc * 10 + (c.toNat - 48)) 0

theorem parseDigits_append (xs : Bytes) (d : UInt8) :
    parseDigits (xs ++ [d]) = parseDigits xs * 10 + (d.toNat - 48) := by
  simp [parseDigits, List.foldl_append]

theorem digit_roundtrip : ∀ d, d < 10 → (48 + d) % 256 - 48 = d := by decide

theorem parse_natToDigits (fuel n : Nat) (h : n < 10 ^ fuel) :
    parseDigits (Path.natToDigits fuel n) = n := by
  induction fuel generalizing n with
  | zero => simp at h; subst h; simp [Path.natToDigits, parseDigits]
  | succ f ih =>
    unfold Path.natToDigits
    split
    · rename_i hlt
      simp [parseDigits]
      exact digit_roundtrip n hlt
    · rename_i hge
      rw [parseDigits_append]
      have h10 : n / 10 < 10 ^ f := by
        rw [Nat.pow_succ] at h
        exact Nat.div_lt_of_lt_mul (by omega)
      rw [ih _ h10]
      have hd : ((48 + n % 10).toUInt8).toNat - 48 = n % 10 := by
        simp
        exact digit_roundtrip _ (Nat.mod_lt _ (by decide))
      rw [hd]
      omega

theorem parse_decimal (n : Nat) : parseDigits (Path.decimal n) = n := by
  unfold Path.decimal
  apply parse_natToDigits
  calc n < 10 ^ n := Nat.lt_pow_self (by decide)
    _ ≤ 10 ^ (n + 1) := Nat.pow_le_pow_right (by decide) (by omega)

theorem decimal_injective {a b : Nat} (h : Path.decimal a = Path.decimal b) : a = b := by
  have := congrArg parseDigits h
  simpa [parse_decimal] using this

/-- every descriptor number from 0 upwards has a procfs sub-path (0 included: finding F2) -/
theorem C09_proc_subpath_total (fd : Fd) (h : 0 ≤ fd) :
    Sys.procSubpath fd = .ok (b!"fd/" ++ Path.decimal fd.toNat) := by
  unfold Sys.procSubpath
  have h1 : fd ≠ AT_FDCWD := by
    intro he; rw [he] at h; exact absurd h (by decide)
  simp [h1, h]

theorem C09_proc_subpath_zero : Sys.procSubpath 0 = .ok b!"fd/0" := by
  rw [C09_proc_subpath_total 0 (by decide)]; rfl

/-- different descriptor numbers name different magic-links -/
theorem C09_proc_subpath_injective (a b : Fd) (ha : 0 ≤ a) (hb : 0 ≤ b)
    (h : Sys.procSubpath a = Sys.procSubpath b) : a = b := by
  rw [C09_proc_subpath_total a ha, C09_proc_subpath_total b hb] at h
  have h2 : Path.decimal a.toNat = Path.decimal b.toNat := by
    have := Except.ok.inj h
    exact List.append_cancel_left this
  have h3 := decimal_injective h2
  have ha' : (a.toNat : Int) = a := Int.toNat_of_nonneg ha
  have hb' : (b.toNat : Int) = b := Int.toNat_of_nonneg hb
  rw [← ha', ← hb', h3]

/-! ## `reopen` -/

/-- creation flags are refused before any system call -/
theorem C09_creation_flags_refused (env : Env) (fd : Fd) (flags : Nat)
    (h : hasAny flags (O_CREAT ||| O_EXCL) = true ∨ hasAll flags O_TMPFILE = true) :
    Procfs.reopen env fd flags = Prog.ret (.error .invalidArgument) := by
  unfold Procfs.reopen
  have : (hasAny flags (O_CREAT ||| O_EXCL) || hasAll flags O_TMPFILE) = true := by
    rcases h with h | h <;> simp [h]
  simp only [this, ↓reduceIte]
  rfl

/-- otherwise `reopen` is: `fstat` the descriptor; a symlink ⇒ `ELOOP`; else
`open_follow(thread-self, "fd/<n>", flags without O_NOFOLLOW)` on the global procfs handle -/
theorem C09_reopen_shape (env : Env) (fd : Fd) (flags : Nat) (hfd : 0 ≤ fd)
    (h : (hasAny flags (O_CREAT ||| O_EXCL) || hasAll flags O_TMPFILE) = false) :
    Procfs.reopen env fd flags =
      M.bind' (Sys.fstatat fd []) fun st =>
        if st.isSymlink then throw (.os ELOOP)
        else Procfs.openFollowH env env.proc .threadSelf (b!"fd/" ++ Path.decimal fd.toNat)
              (clearBits flags O_NOFOLLOW) := by
  unfold Procfs.reopen
  simp only [h, Bool.false_eq_true, ↓reduceIte]
  congr 1
  funext st
  split
  · rfl
  · rw [C09_proc_subpath_total fd hfd]
    rfl

/-- `O_NOFOLLOW` never reaches the final open: it is cleared, everything else is kept -/
theorem C09_nofollow_stripped (flags : Nat) :
    hasAny (clearBits flags O_NOFOLLOW) O_NOFOLLOW = false ∧
    ∀ m, m &&& O_NOFOLLOW = 0 → (clearBits flags O_NOFOLLOW) &&& m = flags &&& m := by
  constructor
  · have : clearBits flags O_NOFOLLOW &&& O_NOFOLLOW = 0 := by
      unfold clearBits
      apply Nat.eq_of_testBit_eq
      intro i
      simp [Nat.testBit_and, Nat.testBit_xor]
      cases flags.testBit i <;> cases O_NOFOLLOW.testBit i <;> simp
    simp [hasAny, this]
  · intro m hm
    unfold clearBits
    apply Nat.eq_of_testBit_eq
    intro i
    have := congrArg (fun x => x.testBit i) hm
    simp [Nat.testBit_and, Nat.testBit_xor] at this ⊢
    cases hf : flags.testBit i <;> cases hn : O_NOFOLLOW.testBit i <;> cases hmi : m.testBit i <;> simp_all
/-- a handle that refers to a symlink: for every environment, if the `fstat` says so the
result is `ELOOP` and nothing else was done -/
theorem C09_symlink_refused (env : Env) (fd : Fd) (flags : Nat) (hfd : 0 ≤ fd)
    (hf : (hasAny flags (O_CREAT ||| O_EXCL) || hasAll flags O_TMPFILE) = false)
    (h h' : Hist) (r : Except Err Fd) (mode uid ino : Nat) (rest : List Nat)
    (hlnk : mode &&& S_IFMT = S_IFLNK)
    (hr : Runs (Procfs.reopen env fd flags) h h' r)
    (hans : (h ++ [(.fstatat fd [] STAT_FLAGS, .nums (mode :: uid :: ino :: rest))]) <+: h') :
    r = .error (.os ELOOP) ∧ h' = h ++ [(.fstatat fd [] STAT_FLAGS, .nums (mode :: uid :: ino :: rest))] := by
  rw [C09_reopen_shape env fd flags hfd hf] at hr
  -- the fstat wrapper
  rcases Runs.mbind_inv hr with ⟨hm, st, h1, h2⟩ | ⟨e, h1, _⟩
  · unfold Sys.fstatat at h1
    obtain ⟨ha, _, hh1, hh2⟩ := Runs.mbind_ok h1
    obtain ⟨hha, _⟩ := Runs.ofExcept_inv hh1
    subst hha
    obtain ⟨hb, resp, hc1, hc2⟩ := Runs.mbind_ok hh2
    obtain ⟨y, hhb, hy⟩ := Runs.call_ok_inv hc1
    cases hy
    subst hhb
    -- the recorded answer is the one in the history
    have hpre : (ha ++ [(Call.fstatat fd [] STAT_FLAGS, resp)]) <+: h' :=
      List.IsPrefix.trans (Runs.isPrefix hc2) (Runs.isPrefix h2)
    have hsame : resp = .nums (mode :: uid :: ino :: rest) := by
      have := List.prefix_of_prefix_length_le hpre hans (by simp)
      have h3 := List.IsPrefix.eq_of_length this (by simp)
      have := List.append_cancel_left h3
      simpa using (congrArg Prod.snd (List.cons.inj this).1)
    subst hsame
    dsimp only at hc2
    obtain ⟨hhm, hst⟩ := Runs.ret_inv hc2
    cases hst
    subst hhm
    have : ({ mode := mode, uid := uid, ino := ino } : Sys.Stat).isSymlink = true := by
      simp [Sys.Stat.isSymlink, hlnk]
    simp only [this, ↓reduceIte] at h2
    obtain ⟨hh, hrr⟩ := Runs.ret_inv h2
    exact ⟨hrr, hh⟩
  · -- the fstat wrapper failed: then the history does not contain a successful answer first
    exfalso
    unfold Sys.fstatat at h1
    rcases Runs.mbind_inv h1 with ⟨ha, _, hh1, hh2⟩ | ⟨e', hh1, _⟩
    · obtain ⟨hha, _⟩ := Runs.ofExcept_inv hh1
      subst hha
      rcases Runs.mbind_inv hh2 with ⟨hb, resp, hc1, hc2⟩ | ⟨e', hc1, _⟩
      · obtain ⟨y, hhb, hy⟩ := Runs.call_ok_inv hc1
        cases hy
        subst hhb
        have hpre : (ha ++ [(Call.fstatat fd [] STAT_FLAGS, resp)]) <+: h' := Runs.isPrefix hc2
        have hsame : resp = .nums (mode :: uid :: ino :: rest) := by
          have := List.prefix_of_prefix_length_le hpre hans (by simp)
          have h3 := List.IsPrefix.eq_of_length this (by simp)
          have := List.append_cancel_left h3
          simpa using (congrArg Prod.snd (List.cons.inj this).1)
        subst hsame
        dsimp only at hc2
        obtain ⟨_, hst⟩ := Runs.ret_inv hc2
        cases hst
      · obtain ⟨y, _, hy⟩ := Runs.call_ok_inv hc1
        cases hy
    · have hh := (Runs.ofExcept_inv hh1).1
      have hp := Runs.isPrefix hr
      have := hans.length_le
      have h2 := hp.length_le
      rw [hh] at this
      simp [List.length_append] at this
      exact absurd this (by omega)

/-- **No fall-back on an unrelated failure (findings F22 and F25, repaired).**  For every environment: when
`open_follow` (the heart of `reopen`) succeeds, its readlink probe either succeeded or failed with
`ENAMETOOLONG` (a link whose target the kernel cannot print: the file was moved below a path longer than
`PATH_MAX`) — then the target is a link and the result is that of the *following* half: the final open follows
it inside the verified parent directory — or it failed with exactly `EINVAL`/`ENOENT` ("not a symlink" /
"no such file") and the result is that of the no-follow open.  A probe that fails for any other reason
(`EMFILE`, `ENOMEM`, `EINTR`, `EIO`, …) is the result of the call: it can no longer turn into an
`O_NOFOLLOW` open that returns the magic-link itself instead of the handle's inode. -/
theorem C09_no_fallback_on_unrelated_failure (env : Env) (hd : ProcH) (base : Procfs.Base) (sub : Bytes) (fl : Nat)
    {h h' : Hist} {fd : Fd}
    (hr : Runs (Procfs.openFollowH env hd base sub fl) h h' (.ok fd)) :
    ∃ hm x fl', Runs (Procfs.readlinkH env hd base (Path.stripTrailingSlash sub).1) h hm x ∧
      ((((∃ b, x = .ok b) ∨ x = .error (.os ENAMETOOLONG)) ∧
          Runs (Procfs.openFollowTail env hd base (Path.stripTrailingSlash sub).1 fl') hm h' (.ok fd)) ∨
       ((x = .error (.os EINVAL) ∨ x = .error (.os ENOENT)) ∧
          Runs (Procfs.openH env Procfs.retryFuel hd base (Path.stripTrailingSlash sub).1 fl') hm h' (.ok fd))) := by
  unfold Procfs.openFollowH at hr
  dsimp only at hr
  generalize (if (Path.stripTrailingSlash sub).2 = true then fl ||| O_DIRECTORY else fl) = fl' at hr
  split at hr
  · obtain ⟨_, he⟩ := Runs.ret_inv hr; cases he
  · simp only [M.bind_def] at hr
    obtain ⟨hm, probe, h1, h2⟩ := Runs.mbind_ok hr
    obtain ⟨x, hx, hcase⟩ := Runs.try_inv h1
    refine ⟨hm, x, fl', hx, ?_⟩
    rcases hcase with ⟨b, hxb, hp⟩ | ⟨e, hxe, hfe⟩
    · cases hp
      exact Or.inl ⟨Or.inl ⟨b, hxb⟩, h2⟩
    · rcases hfe with ⟨_, hp⟩ | ⟨_, hp⟩
      · cases hp
      · cases hp
        dsimp only at h2
        split at h2
        · rename_i hor
          refine Or.inr ⟨?_, h2⟩
          rcases hor with he | he
          · left; rw [hxe, he]
          · right; rw [hxe, he]
        · split at h2
          · rename_i he
            exact Or.inl ⟨Or.inr (by rw [hxe, he]), h2⟩
          · obtain ⟨_, he⟩ := Runs.ret_inv h2; cases he

/-- **The one followed open is made only after its link was seen on its directory's own mount.**  For every
environment: a successful following half of `open_follow` (hence every successful `reopen`) consists of a successful
`ProcfsHandle::open(parent, O_PATH|O_DIRECTORY)` — whose result was verified on the descriptor itself to be on the
handle's procfs mount (`C06_lookup_verified`) —, then `statx` of that directory and `statx` of the final component in
it, whose answers stand for the same mount (nothing is mounted on the link), then the library's only `openat` without
`O_NOFOLLOW`, on (that directory, that single component), whose answer is the returned descriptor, then the close of
the directory.  What the link leads to is then the kernel's business (`MagicLinkSameInode`); on a procfs tree with
mounts that is `C09_reopen_on_mounts`. -/
theorem C09_follow_verified (env : Env) (hd : ProcH) (base : Procfs.Base) (sub : Bytes) (fl : Nat) {h h' : Hist} {fd : Fd}
    (hr : Runs (Procfs.openFollowTail env hd base sub fl) h h' (.ok fd)) :
    ∃ parent trailing pfd h1 h2 h3 rdir rlink rc,
      Path.pathSplit sub = .ok (parent, some trailing) ∧
      Runs (Procfs.openH env Procfs.retryFuel hd base parent (O_PATH ||| O_DIRECTORY)) h h1 (.ok pfd) ∧
      (h1 ++ [(.statx pfd [] STAT_FLAGS STATX_WANT, rdir)]) <+: h2 ∧
      (h2 ++ [(.statx pfd trailing STAT_FLAGS STATX_WANT, rlink)]) <+: h3 ∧
      mntOf rdir = mntOf rlink ∧
      h' = h3 ++ [(Call.openat pfd trailing (fl ||| O_CLOEXEC ||| O_NOCTTY) 0, Resp.fd fd), (Call.close pfd, rc)] :=
  follow_verified env hd base sub fl hr

open KProc KProcOpen KProcReopen in
/-- **`reopen` on any procfs tree with any mount layout** (`Proofs/KProcOpen.lean`, `KProcReopen.lean`; the procfs
handle is the one on the tree's base directory, not masked, emulated resolver; `hprobe`: `thread-self` exists).  The
descriptor `reopen(fd)` returns is what the entry `fd/<fd>` leads to (`PWorld.target`), and that entry is an entry, on the
handle's own mount, of a directory on the handle's own mount: an object that was mounted over `thread-self`, over its
`fd` directory or over the magic-link itself is never returned — the call fails instead (`EXDEV`).  (First disjunct of
`OnOwnMount`: an object of the procfs mount itself, the no-follow open of a path that is not a link — impossible for a
real `fd/<n>` entry.) -/
theorem C09_reopen_on_mounts {w : PWorld} (hw : PWF w) (env : Env) (fd : Fd) (hfd : 0 ≤ fd) (flags : Nat)
    (hproc : env.proc = handleOf w)
    (hprobe : Prog.prun w (Procfs.intoPath .threadSelf w.base) = .ok b!"thread-self") (o : Fd)
    (h : Prog.prun w (Procfs.reopen env fd flags) = .ok o) :
    OnOwnMount w (Path.decimal fd.toNat) (clearBits flags O_NOFOLLOW) o :=
  reopen_on_own_mount hw env fd hfd flags hproc hprobe o h

open KProc KProcOpen KProcReopen in
/-- the same for `open_follow` with any base and any sub-path `parent/trailing` -/
theorem C09_open_follow_on_mounts {w : PWorld} (hw : PWF w) (env : Env) (base : Procfs.Base) (sub parent trailing : Bytes)
    (fl : Nat) (hprobe : Prog.prun w (Procfs.intoPath base w.base) = .ok (basePath base))
    (hsub : SubOk sub parent trailing) (o : Fd)
    (h : Prog.prun w (Procfs.openFollowH env (handleOf w) base sub fl) = .ok o) :
    OnOwnMount w trailing fl o :=
  open_follow_on_own_mount hw env base sub parent trailing fl hprobe hsub o h

/-! ## Non-vacuity -/

open KProcReopen in
example : Prog.prun exampleWorldR (Procfs.reopen envR 3 O_RDONLY) = .ok 50 := exR_reopen

example : Sys.procSubpath 1023 = .ok (b!"fd/" ++ Path.decimal 1023) := C09_proc_subpath_total 1023 (by decide)
example : parseDigits (Path.decimal 40960) = 40960 := parse_decimal _

/-! ## `path_strip_trailing_slash` (the first thing `open_follow` does to its sub-path)

The trailing slashes of the caller's sub-path become `O_DIRECTORY`; the function is
specified here for every byte string. -/

section Strip
open Path


theorem dropWhile_decomp (l : Bytes) :
    ∃ k, l = List.replicate k slash ++ l.dropWhile (· = slash) ∧
      (l.dropWhile (· = slash)).head? ≠ some slash := by
  induction l with
  | nil => exact ⟨0, rfl, by simp⟩
  | cons a t ih =>
    by_cases h : a = slash
    · obtain ⟨k, hk, hh⟩ := ih
      refine ⟨k + 1, ?_, ?_⟩
      · subst h
        simp only [List.dropWhile_cons, decide_true, ↓reduceIte, List.replicate_succ, List.cons_append]
        exact congrArg _ hk
      · subst h; simpa [List.dropWhile_cons] using hh
    · refine ⟨0, ?_, ?_⟩
      · simp [h]
      · simp [h]

/-- the stripped form: a prefix of `p` followed only by slashes, not itself ending in a slash -/
theorem stripped_decomp (p : Bytes) :
    ∃ k, p = (p.reverse.dropWhile (· = slash)).reverse ++ List.replicate k slash ∧
      (p.reverse.dropWhile (· = slash)).reverse.getLast? ≠ some slash := by
  obtain ⟨k, hk, hh⟩ := dropWhile_decomp p.reverse
  refine ⟨k, ?_, ?_⟩
  · have := congrArg List.reverse hk
    simpa using this
  · simpa [List.getLast?_reverse] using hh

/-- `path_strip_trailing_slash`, specified: the result is the input with `k` trailing slashes
removed, the flag says whether any were (`k > 0`), and the result ends in a slash only when it
is the lone `/` that stands for an all-slash input -/
theorem C09_strip_spec (p : Bytes) :
    ∃ k, p = (stripTrailingSlash p).1 ++ List.replicate k slash ∧
      ((stripTrailingSlash p).2 = true ↔ 0 < k) ∧
      ((stripTrailingSlash p).1.getLast? = some slash → (stripTrailingSlash p).1 = [slash]) := by
  obtain ⟨k, hk, hl⟩ := stripped_decomp p
  unfold stripTrailingSlash
  dsimp only
  generalize (p.reverse.dropWhile (· = slash)).reverse = s at hk hl
  have hlen : p.length = s.length + k := by
    have := congrArg List.length hk
    simpa using this
  by_cases hs : s = []
  · subst hs
    simp only [List.nil_append] at hk
    simp only [↓reduceIte]
    by_cases h1 : p.length > 1
    · simp only [h1, ↓reduceIte]
      refine ⟨k - 1, ?_, by simp at hlen; simp; omega, fun _ => trivial⟩
      have hk1 : k = (k - 1) + 1 := by simp at hlen; omega
      rw [hk, hk1, List.replicate_succ]
      simp
    · simp only [h1, ↓reduceIte]
      refine ⟨0, by simp, by simp, ?_⟩
      intro hg
      have hk1 : k ≤ 1 := by simp at hlen; omega
      match k, hk1 with
      | 0, _ => subst hk; simp at hg
      | 1, _ => rw [hk]; rfl
  · simp only [hs, ↓reduceIte]
    by_cases h2 : s.length = p.length
    · simp only [h2, ↓reduceIte]
      have hk0 : k = 0 := by omega
      subst hk0
      simp only [List.replicate_zero, List.append_nil] at hk
      refine ⟨0, by simp, by simp, ?_⟩
      intro hg; rw [hk] at hg; exact absurd hg hl
    · simp only [h2, ↓reduceIte]
      exact ⟨k, hk, by simp; omega, fun hg => absurd hg hl⟩

/-- the flag (which makes `open_follow` add `O_DIRECTORY`) is set exactly when the path was changed -/
theorem C09_strip_flag_iff_changed (p : Bytes) :
    (stripTrailingSlash p).2 = true ↔ (stripTrailingSlash p).1 ≠ p := by
  obtain ⟨k, hk, hf, _⟩ := C09_strip_spec p
  rw [hf]
  have hlen := congrArg List.length hk
  simp only [List.length_append, List.length_replicate] at hlen
  constructor
  · intro h0 he
    rw [he] at hlen; omega
  · intro hne
    cases k with
    | zero => simp at hk; exact absurd hk.symm hne
    | succ n => omega

/-- a path without a trailing slash is left alone -/
theorem C09_strip_fixed (p : Bytes) (h : p.getLast? ≠ some slash) : stripTrailingSlash p = (p, false) := by
  obtain ⟨k, hk, hf, _⟩ := C09_strip_spec p
  have hk0 : k = 0 := by
    cases k with
    | zero => rfl
    | succ n =>
      exfalso; apply h; rw [hk, List.replicate_succ']; simp
  subst hk0
  have h1 : (stripTrailingSlash p).1 = p := by simpa using hk.symm
  have h2 : (stripTrailingSlash p).2 = false := by
    cases hb : (stripTrailingSlash p).2 with
    | false => rfl
    | true => exact absurd (hf.mp hb) (by omega)
  exact Prod.ext h1 h2

example : stripTrailingSlash b!"fd/3//" = (b!"fd/3", true) := by decide
example : stripTrailingSlash b!"///" = (b!"/", true) := by decide
example : stripTrailingSlash b!"/" = (b!"/", false) := by decide

/-- stripping is idempotent: what `open_follow` works with needs no second pass -/
theorem C09_strip_idempotent (p : Bytes) :
    stripTrailingSlash (stripTrailingSlash p).1 = ((stripTrailingSlash p).1, false) := by
  obtain ⟨_, _, _, hg⟩ := C09_strip_spec p
  by_cases h : (stripTrailingSlash p).1.getLast? = some slash
  · rw [hg h]; decide
  · exact C09_strip_fixed _ h

end Strip
