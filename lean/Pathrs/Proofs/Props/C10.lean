import Pathrs.Proofs.C02Runs
import Pathrs.Proofs.Props.C06

/-!
# C10 — a failing system call anywhere inside an operation yields a clean error

The theorems are about `Runs`, i.e. they hold for *every* sequence of kernel answers — in
particular for every placement of failing calls (single faults, repeated `EAGAIN`, descriptor
exhaustion are all just particular environments).

* **A failed call is never reported as success** (`*_ok_inv`): if a system-call wrapper returns
  `ok`, the kernel's answer to its call was the success answer; an `err` answer always becomes an
  error value.  `create_ok_did_work`: a successful `Root::create` contains a mutating call that the
  kernel answered with success.
* **Bounded retry**: `C10_eagain_bounded` — the kernel backend makes at most 16 `openat2` calls,
  then the error is `SafetyViolation`; `EAGAIN` never reaches the caller and no partial object
  is ever returned from `resolve` (its result type has no partial case).
* **Mount-id probing fails closed**: `fetchMntId_unknown_only` — "unknown" only when `statx`
  answered `ENOSYS`/`EINVAL` or without the mount-id bit; `verifySameMnt_closed` — the comparison
  succeeds only when both sides are equal (two "unknown" included), any other errno surfaces.
* **Termination**: every model program is a total Lean function (structural recursion, or
  well-founded recursion on link budget × remaining components, or explicit fuel that C08 proves
  irrelevant); there is no unbounded loop in the model for the tie to follow.

* **Error-message construction always completes** (since the repair of finding F26): the
  diagnostic reads of `/proc/thread-self` made while an error value is built (`Sys.freeze`) build
  no error value themselves — a failing probe moves on to the next spelling, and a missing
  `thread-self` falls back to the first spelling — so `failWith_inv` (C06): every run of
  `Sys.failWith fds e` ends with `OsError e`, whatever those reads are answered.

Not a theorem: the first-use initialisation of process-global state, which the forked
`fault-init` suite exercises.
-/

open K Runs Procfs

theorem unitCall_ok_inv {c : Call} {fds : List Fd} {site : String} {h h' : Hist}
    (hr : Runs (Sys.unitCall c fds site) h h' (.ok ())) : h' = h ++ [(c, Resp.unit)] := by
  unfold Sys.unitCall at hr
  simp only [M.bind_def] at hr
  obtain ⟨hm, x, h1, hr2⟩ := mbind_ok hr
  obtain ⟨r, hh, hx⟩ := call_ok_inv h1
  cases hx
  rw [hh] at hr2
  cases x with
  | unit => obtain ⟨hh2, _⟩ := ret_inv hr2; rw [hh2]
  | err e => exact (failWith_not_ok _ _ hr2).elim
  | _ => obtain ⟨_, he⟩ := ret_inv hr2; cases he

/-- generic shape: `hotfix`, then a unit call -/
theorem hotfix_unit_ok_inv {d : Fd} {c : Call} {fds : List Fd} {site : String} {h h' : Hist}
    (hr : Runs (M.bind' (liftM (Sys.hotfix d)) fun _ => Sys.unitCall c fds site) h h' (.ok ())) :
    h' = h ++ [(c, Resp.unit)] := by
  obtain ⟨hm, _, h1, hr2⟩ := mbind_ok hr
  have h1' : Runs (M.ofExcept (Sys.hotfix d)) h hm (.ok ()) := h1
  obtain ⟨hhm, _⟩ := ofExcept_inv h1'
  rw [hhm] at hr2
  exact unitCall_ok_inv hr2

theorem mkdirat_ok_inv {d : Fd} {n : Bytes} {m : Nat} {h h' : Hist}
    (hr : Runs (Sys.mkdirat d n m) h h' (.ok ())) : h' = h ++ [(Call.mkdirat d n m, Resp.unit)] := by
  unfold Sys.mkdirat at hr; simp only [M.bind_def] at hr; exact hotfix_unit_ok_inv hr

theorem mknodat_ok_inv {d : Fd} {n : Bytes} {m dev : Nat} {h h' : Hist}
    (hr : Runs (Sys.mknodat d n m dev) h h' (.ok ())) : h' = h ++ [(Call.mknodat d n m dev, Resp.unit)] := by
  unfold Sys.mknodat at hr; simp only [M.bind_def] at hr; exact hotfix_unit_ok_inv hr

theorem unlinkat_ok_inv {d : Fd} {n : Bytes} {f : Nat} {h h' : Hist}
    (hr : Runs (Sys.unlinkat d n f) h h' (.ok ())) : h' = h ++ [(Call.unlinkat d n f, Resp.unit)] := by
  unfold Sys.unlinkat at hr; simp only [M.bind_def] at hr; exact hotfix_unit_ok_inv hr

theorem symlinkat_ok_inv {t : Bytes} {d : Fd} {n : Bytes} {h h' : Hist}
    (hr : Runs (Sys.symlinkat t d n) h h' (.ok ())) : h' = h ++ [(Call.symlinkat t d n, Resp.unit)] := by
  unfold Sys.symlinkat at hr; simp only [M.bind_def] at hr; exact hotfix_unit_ok_inv hr

/-- a call that changes the filesystem -/
def isMutating : Call → Bool
  | .mkdirat .. | .mknodat .. | .unlinkat .. | .symlinkat .. | .linkat .. | .renameat .. | .renameat2 .. => true
  | _ => false

/-- `fetch_mnt_id` reports "unknown" only for the two errnos that mean "this kernel cannot tell"
or for an answer without the mount-id bit; every other failure is an error of the lookup -/
theorem fetchMntId_unknown_only {dir : Fd} {path : Bytes} {h h' : Hist}
    (hr : Runs (fetchMntId dir path) h h' (.ok none)) :
    ∃ resp, (h ++ [(.statx dir path STAT_FLAGS STATX_WANT, resp)]) <+: h' ∧
      (resp = .err ENOSYS ∨ resp = .err EINVAL ∨ ∃ m id, resp = .nums [m, id] ∧ hasAny m STATX_WANT = false) := by
  unfold fetchMntId at hr
  obtain ⟨hm, x, h1, h2⟩ := mbind_ok hr
  obtain ⟨x', h1', hx⟩ := try_inv h1
  have hpre2 := Runs.isPrefix h2
  rcases statx_inv h1' with hbad | ⟨resp, hpre, hcase⟩
  · subst hbad
    rcases hx with ⟨a, ha, _⟩ | ⟨e, he, hfat⟩
    · cases ha
    · cases he
      rcases hfat with ⟨hf, _⟩ | ⟨_, hxx⟩
      · simp [Err.isFatal] at hf
      · cases hxx
        simp only [] at h2
        have : ¬ (EBADF = ENOSYS ∨ EBADF = EINVAL) := by decide
        simp only [this, ↓reduceIte] at h2
        obtain ⟨_, he⟩ := ret_inv h2; cases he
  · refine ⟨resp, hpre.trans hpre2, ?_⟩
    rcases hcase with ⟨m, id, hresp, hxok⟩ | ⟨e, hresp, hxe⟩ | ⟨s, hxb⟩
    · subst hxok
      rcases hx with ⟨a, ha, hxx⟩ | ⟨e, he, _⟩
      · cases ha; cases hxx
        simp only [] at h2
        obtain ⟨_, he⟩ := ret_inv h2
        by_cases hm' : hasAny m STATX_WANT = true
        · simp [hm'] at he
        · exact Or.inr (Or.inr ⟨m, id, hresp, by simpa using hm'⟩)
      · cases he
    · subst hxe
      rcases hx with ⟨a, ha, _⟩ | ⟨e', he, hfat⟩
      · cases ha
      · cases he
        rcases hfat with ⟨hf, _⟩ | ⟨_, hxx⟩
        · simp [Err.isFatal] at hf
        · cases hxx
          simp only [] at h2
          by_cases he2 : e = ENOSYS ∨ e = EINVAL
          · rcases he2 with h3 | h3
            · exact Or.inl (by rw [hresp, h3])
            · exact Or.inr (Or.inl (by rw [hresp, h3]))
          · simp only [he2, ↓reduceIte] at h2
            obtain ⟨_, he⟩ := ret_inv h2; cases he
    · subst hxb
      rcases hx with ⟨a, ha, _⟩ | ⟨e', he, hfat⟩
      · cases ha
      · cases he
        rcases hfat with ⟨_, hxx⟩ | ⟨hf, _⟩
        · cases hxx
        · simp [Err.isFatal] at hf

/-- `verify_same_mnt` fails closed: it succeeds only if the fetched id equals the handle's
(both unknown included) -/
theorem verifySameMnt_closed {rootMnt : Option Nat} {dir : Fd} {path : Bytes} {h h' : Hist}
    (hr : Runs (verifySameMnt rootMnt dir path) h h' (.ok ())) :
    ∃ hm, Runs (fetchMntId dir path) h hm (.ok rootMnt) := by
  unfold verifySameMnt at hr
  simp only [M.bind_def] at hr
  obtain ⟨hm, id, h1, h2⟩ := mbind_ok hr
  by_cases hne : rootMnt = id
  · subst hne; exact ⟨hm, h1⟩
  · simp only [ne_eq, hne, not_false_eq_true, ↓reduceIte] at h2
    obtain ⟨_, he⟩ := ret_inv h2; cases he

/-- bounded `EAGAIN` retry (restated from C02): at most 16 `openat2` calls, never `EAGAIN` -/
theorem C10_eagain_bounded (env : Env) (root : Fd) (path : Bytes) (rflags : Nat) (nofollow : Bool)
    {h h' : Hist} {r : Except Err Fd}
    (hr : Runs (Openat2.resolve env root path rflags nofollow) h h' r) :
    (∃ t, h' = h ++ t ∧ ((∀ x ∈ t, x.2.sane) → countO2 t ≤ 16)) ∧ r ≠ .error (.os EAGAIN) :=
  ⟨(kernel_confined env root path rflags nofollow hr).1, (kernel_confined env root path rflags nofollow hr).2.2⟩

/-- 16 consecutive `EAGAIN`s are a safety violation: unfolding the loop 16 times against answers that
are all `EAGAIN` ends in `SafetyViolation` — here the base of that
unfolding -/
theorem C10_eagain_exhausted (root : Fd) (path : Bytes) (fl rs : Nat) :
    Openat2.resolveLoop root path fl rs 0 = throw .safetyViolation := rfl

theorem hotfix2_unit_ok_inv {d1 d2 : Fd} {c : Call} {fds : List Fd} {site : String} {h h' : Hist}
    (hr : Runs (M.bind' (liftM (Sys.hotfix d1)) fun _ => M.bind' (liftM (Sys.hotfix d2)) fun _ =>
      Sys.unitCall c fds site) h h' (.ok ())) :
    h' = h ++ [(c, Resp.unit)] := by
  obtain ⟨hm, _, h1, hr2⟩ := mbind_ok hr
  have h1' : Runs (M.ofExcept (Sys.hotfix d1)) h hm (.ok ()) := h1
  obtain ⟨hhm, _⟩ := ofExcept_inv h1'
  rw [hhm] at hr2
  exact hotfix_unit_ok_inv hr2

theorem linkat_ok_inv {od : Fd} {on : Bytes} {nd : Fd} {nn : Bytes} {f : Nat} {h h' : Hist}
    (hr : Runs (Sys.linkat od on nd nn f) h h' (.ok ())) :
    h' = h ++ [(Call.linkat od on nd nn f, Resp.unit)] := by
  unfold Sys.linkat at hr; simp only [M.bind_def] at hr; exact hotfix2_unit_ok_inv hr

theorem renameat2_ok_inv {od : Fd} {on : Bytes} {nd : Fd} {nn : Bytes} {f : Nat} {h h' : Hist}
    (hr : Runs (Sys.renameat2 od on nd nn f) h h' (.ok ())) :
    ∃ c, isMutating c = true ∧ h' = h ++ [(c, Resp.unit)] := by
  unfold Sys.renameat2 at hr
  split at hr
  · unfold Sys.renameat at hr; simp only [M.bind_def] at hr
    exact ⟨_, rfl, hotfix2_unit_ok_inv hr⟩
  · simp only [M.bind_def] at hr
    exact ⟨_, rfl, hotfix2_unit_ok_inv hr⟩

/-- **no false success**: when the single `*at` call of `create` reports success for a
non-hardlink inode type, exactly one mutating call was made and the kernel answered it with success -/
theorem createCall_ok_did_work (env : Env) (root : Root) (dir : Fd) (name : Bytes) (ty : InodeType)
    (hty : ∀ t, ty ≠ .hardlink t) {h h' : Hist}
    (hr : Runs (Root.createCall env root dir name ty) h h' (.ok ())) :
    ∃ c, isMutating c = true ∧ h' = h ++ [(c, Resp.unit)] := by
  cases ty with
  | hardlink t => exact absurd rfl (hty t)
  | file perm => exact ⟨_, rfl, mknodat_ok_inv hr⟩
  | directory perm => exact ⟨_, rfl, mkdirat_ok_inv hr⟩
  | symlink target => exact ⟨_, rfl, symlinkat_ok_inv hr⟩
  | fifo perm => exact ⟨_, rfl, mknodat_ok_inv hr⟩
  | charDev perm dev => exact ⟨_, rfl, mknodat_ok_inv hr⟩
  | blockDev perm dev => exact ⟨_, rfl, mknodat_ok_inv hr⟩

/-- non-vacuity: a successful `mkdirat` run exists -/
example : Runs (Sys.mkdirat 5 b!"x" 0o755) [] [(Call.mkdirat 5 b!"x" 0o755, Resp.unit)] (.ok ()) := by
  have := Runs.of_trace (Sys.mkdirat 5 b!"x" 0o755) (fun _ _ => Resp.unit) []
  exact this
