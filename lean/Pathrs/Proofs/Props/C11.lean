import Pathrs.Proofs.SafeRoot

/-!
# C11 — calls leave the descriptor table unchanged except for the returned fd

What is proved here (for every environment): every call by which any operation can
obtain a descriptor asks the kernel for close-on-exec — so in particular the one
descriptor that is returned is close-on-exec.  The bookkeeping half ("opened minus
closed = the returned descriptor") is carried by the explicit `close` calls of the
model, which mirror Rust's drops by hand; the tie checks on every replayed case that
the multiset of descriptors the model closes equals the multiset the implementation
closed, and the harness compares the process's descriptor table before and after
every call (`C11_no_leak` is therefore named `_partial` in DESIGN.md).
-/

open K

/-- every way of obtaining a descriptor is close-on-exec -/
def Cloexec : Call → Prop
  | .openat _ _ flags _ => hasAll flags O_CLOEXEC = true
  | .openat2 _ _ flags _ _ _ => hasAll flags O_CLOEXEC = true
  | .fsopen _ flags => hasAll flags FSOPEN_CLOEXEC = true
  | .fsmount _ flags _ => hasAll flags FSMOUNT_CLOEXEC = true
  | .openTree _ _ flags => hasAll flags OPEN_TREE_CLOEXEC = true
  | .dup _ min => min = 3          -- `fcntl(F_DUPFD_CLOEXEC, 3)`; the recorder sees no other dup
  | _ => True

instance (c : Call) : Decidable (Cloexec c) := by
  cases c <;> simp only [Cloexec] <;> infer_instance

theorem Safe.monoD {α : Type} {D D' : Call → Prop} {p : Prog α} {Q : α → Prop}
    (h : ∀ c, D c → D' c) (hp : Safe D p Q) : Safe D' p Q := by
  induction p with
  | ret a => exact hp
  | call c k ih => exact ⟨h c hp.1, fun r hr => ih r (hp.2 r hr)⟩

theorem forced_has_cloexec (flags : Nat) (h : hasAll flags OPEN_FORCED = true) :
    hasAll flags O_CLOEXEC = true :=
  hasAll_sub flags OPEN_FORCED O_CLOEXEC h (by decide)

theorem nocloexec_sub (flags : Nat) (h : hasAll flags (O_CLOEXEC ||| O_NOCTTY) = true) :
    hasAll flags O_CLOEXEC = true :=
  hasAll_sub flags _ O_CLOEXEC h (by decide)

/-- the discipline implies close-on-exec for every descriptor-producing call -/
theorem Disc.cloexec {b : Bool} {c : Call} (h : Disc b c) : Cloexec c := by
  cases c <;> simp only [Disc, Cloexec] at *
  · rcases h with h | h | h
    · exact forced_has_cloexec _ h.2.2
    · exact nocloexec_sub _ h.2.2.2
    · exact forced_has_cloexec _ h.2.2
  · exact h.2.1
  · exact h
  · exact h.2
  · exact h.2
  · exact h.2.2

variable (env : Env) (root : Root)

/-- every descriptor `resolve` can obtain — in particular the one it returns — is close-on-exec -/
theorem C11_resolve_cloexec (path : Bytes) (nofollow : Bool) (hr : 0 ≤ root.fd) (hp : 0 ≤ env.proc.fd) :
    Safe Cloexec (Root.resolve env root path nofollow) FdOk :=
  Safe.monoD (fun _ => Disc.cloexec) (root_resolve_safe (b := false) env root path nofollow hr hp)

theorem C11_open_subpath_cloexec (path : Bytes) (flags : Nat) (hr : 0 ≤ root.fd) (hp : 0 ≤ env.proc.fd) :
    Safe Cloexec (Root.openSubpath env root path flags) FdOk :=
  Safe.monoD (fun _ => Disc.cloexec) (root_openSubpath_safe env root path flags hr hp)

theorem C11_create_file_cloexec (path : Bytes) (flags perm : Nat) (hr : 0 ≤ root.fd) (hp : 0 ≤ env.proc.fd) :
    Safe Cloexec (Root.createFile env root path flags perm) FdOk :=
  Safe.monoD (fun _ => Disc.cloexec) (root_createFile_safe (b := false) env root path flags perm hr hp)

theorem C11_mkdir_all_cloexec (path : Bytes) (perm : Nat) (hr : 0 ≤ root.fd) (hp : 0 ≤ env.proc.fd) :
    Safe Cloexec (Root.mkdirAll env root path perm) FdOk :=
  Safe.monoD (fun _ => Disc.cloexec) (root_mkdirAll_safe env root path perm hr hp)

theorem C11_reopen_cloexec (fd : Fd) (flags : Nat) (hf : 0 ≤ fd) (hp : 0 ≤ env.proc.fd) :
    Safe Cloexec (Procfs.reopen env fd flags) FdOk :=
  Safe.monoD (fun _ => Disc.cloexec) (reopen_safe env fd flags hf hp)

theorem C11_proc_open_cloexec (h : ProcH) (base : Procfs.Base) (sub : Bytes) (fl fuel : Nat) (hh : 0 ≤ h.fd) :
    Safe Cloexec (Procfs.openH env fuel h base sub fl) FdOk :=
  Safe.monoD (fun _ => Disc.cloexec) (openH_safe (b := false) env fuel h base sub fl hh)

theorem C11_proc_open_follow_cloexec (h : ProcH) (base : Procfs.Base) (sub : Bytes) (fl : Nat) (hh : 0 ≤ h.fd) :
    Safe Cloexec (Procfs.openFollowH env h base sub fl) FdOk :=
  Safe.monoD (fun _ => Disc.cloexec) (openFollowH_safe env h base sub fl hh)

/-- the procfs handles themselves (finding F16: the `open_tree` handle was not) -/
theorem C11_procfs_handles_cloexec : Safe Cloexec (Procfs.new env) ProcHOk ∧
    Safe Cloexec (Procfs.newUnmasked env) ProcHOk :=
  ⟨Safe.monoD (fun _ => Disc.cloexec) (new_safe (b := false) env),
   Safe.monoD (fun _ => Disc.cloexec) (newUnmasked_safe (b := false) env)⟩

/-- operations that return no descriptor still only ever hold close-on-exec descriptors -/
theorem C11_remove_all_cloexec (path : Bytes) (hr : 0 ≤ root.fd) (hp : 0 ≤ env.proc.fd) :
    Safe Cloexec (Root.removeAll env root path) (fun _ => True) :=
  Safe.monoD (fun _ => Disc.cloexec) (root_removeAll_safe (b := false) env root path hr hp)

theorem C11_rename_cloexec (src dst : Bytes) (fl : Nat) (hr : 0 ≤ root.fd) (hp : 0 ≤ env.proc.fd) :
    Safe Cloexec (Root.rename env root src dst fl) (fun _ => True) :=
  Safe.monoD (fun _ => Disc.cloexec) (root_rename_safe (b := false) env root src dst fl hr hp)

/-! ## Non-vacuity -/

example : ¬ Cloexec (.openat 3 b!"a" O_PATH 0) := by decide
example : ¬ Cloexec (.openTree AT_FDCWD b!"/proc" OPEN_TREE_CLONE) := by decide
example : Cloexec (.openTree AT_FDCWD b!"/proc" (OPEN_TREE_CLONE ||| OPEN_TREE_CLOEXEC)) := by decide
