import Pathrs.Proofs.SafeRoot
import Pathrs.Proofs.LedgerProofs
import Pathrs.Proofs.SessionLedger

/-!
# C11 — calls leave the descriptor table unchanged except for the returned fd

What is proved here, for every environment (every sequence of kernel answers, hence every placement of failing
calls, every attacker schedule, every racing caller):

* every call by which any operation can obtain a descriptor asks the kernel for close-on-exec — so in particular
  the one descriptor that is returned is close-on-exec (`C11_*_cloexec`);
* **descriptor balance** (`C11_balance_*`, from `Proofs/Ledger*.lean`, 2 500 lines): walk through the calls of a run
  with a ledger (`Pathrs/Ledger.lean`: a call whose answer hands out a descriptor adds it, a `close` removes it, and
  the ledger is undefined if the program closes a number it was not handed in that run — in particular one of the
  caller's).  If the kernel hands out only numbers that are not open (`Fresh`), then for `resolve`/`resolve_nofollow`,
  `open_subpath`, `reopen`, `readlink`, `create`, `create_file`, `remove_file`/`remove_dir`, `rename`, `mkdir_all`,
  `remove_all`, the partial lookup and the unmasked-handle constructor the ledger is defined and what is left open at
  the end is exactly the descriptor being returned — nothing on an error — unless the run ended in a fatal model
  error (an answer of an impossible shape, exhausted model fuel).  Shared ownership (`Rc<OwnedFd>`) is modelled by
  descriptor numbers; freshness is what makes number identity ownership identity.

The model's explicit `close` calls mirror Rust's drops by hand; the tie checks on every replayed case that the
multiset of descriptors the model closes equals the multiset the implementation closed, the model driver evaluates
the same ledger on the recorded calls of the implementation, and the harness compares the process's descriptor
table before and after every call.
-/

open K

/-- every way of obtaining a descriptor is close-on-exec -/
def Cloexec : Call → Prop
  | .openat _ _ flags _ => hasAll flags O_CLOEXEC = true
  | .openat2 _ _ flags _ _ _ => hasAll flags O_CLOEXEC = true
  | .fsopen _ flags => hasAll flags FSOPEN_CLOEXEC = true
  | .fsmount _ flags _ => hasAll flags FSMOUNT_CLOEXEC = true
  | .openTree _ _ flags => hasAll flags OPEN_TREE_CLOEXEC = true
  | .dup _ min => min = 3          -- `fcntl(F_DUPFD_CLOEXEC, 3)`; the recorder sees no other dup
  | _ => True

instance (c : Call) : Decidable (Cloexec c) := by
  cases c <;> simp only [Cloexec] <;> infer_instance

theorem Safe.monoD {α : Type} {D D' : Call → Prop} {p : Prog α} {Q : α → Prop}
    (h : ∀ c, D c → D' c) (hp : Safe D p Q) : Safe D' p Q := by
  induction p with
  | ret a => exact hp
  | call c k ih => exact ⟨h c hp.1, fun r hr => ih r (hp.2 r hr)⟩

theorem forced_has_cloexec (flags : Nat) (h : hasAll flags OPEN_FORCED = true) :
    hasAll flags O_CLOEXEC = true :=
  hasAll_sub flags OPEN_FORCED O_CLOEXEC h (by decide)

theorem nocloexec_sub (flags : Nat) (h : hasAll flags (O_CLOEXEC ||| O_NOCTTY) = true) :
    hasAll flags O_CLOEXEC = true :=
  hasAll_sub flags _ O_CLOEXEC h (by decide)

/-- the discipline implies close-on-exec for every descriptor-producing call -/
theorem Disc.cloexec {b : Bool} {c : Call} (h : Disc b c) : Cloexec c := by
  cases c <;> simp only [Disc, Cloexec] at *
  · rcases h with h | h | h
    · exact forced_has_cloexec _ h.2.2
    · exact nocloexec_sub _ h.2.2.2
    · exact forced_has_cloexec _ h.2.2
  · exact h.2.1
  · exact h
  · exact h.2
  · exact h.2
  · exact h.2.2

variable (env : Env) (root : Root)

/-- every descriptor `resolve` can obtain — in particular the one it returns — is close-on-exec -/
theorem C11_resolve_cloexec (path : Bytes) (nofollow : Bool) (hr : 0 ≤ root.fd) (hp : 0 ≤ env.proc.fd) :
    Safe Cloexec (Root.resolve env root path nofollow) FdOk :=
  Safe.monoD (fun _ => Disc.cloexec) (root_resolve_safe (b := false) env root path nofollow hr hp)

theorem C11_open_subpath_cloexec (path : Bytes) (flags : Nat) (hr : 0 ≤ root.fd) (hp : 0 ≤ env.proc.fd) :
    Safe Cloexec (Root.openSubpath env root path flags) FdOk :=
  Safe.monoD (fun _ => Disc.cloexec) (root_openSubpath_safe env root path flags hr hp)

theorem C11_create_file_cloexec (path : Bytes) (flags perm : Nat) (hr : 0 ≤ root.fd) (hp : 0 ≤ env.proc.fd) :
    Safe Cloexec (Root.createFile env root path flags perm) FdOk :=
  Safe.monoD (fun _ => Disc.cloexec) (root_createFile_safe (b := false) env root path flags perm hr hp)

theorem C11_mkdir_all_cloexec (path : Bytes) (perm : Nat) (hr : 0 ≤ root.fd) (hp : 0 ≤ env.proc.fd) :
    Safe Cloexec (Root.mkdirAll env root path perm) FdOk :=
  Safe.monoD (fun _ => Disc.cloexec) (root_mkdirAll_safe env root path perm hr hp)

theorem C11_reopen_cloexec (fd : Fd) (flags : Nat) (hf : 0 ≤ fd) (hp : 0 ≤ env.proc.fd) :
    Safe Cloexec (Procfs.reopen env fd flags) FdOk :=
  Safe.monoD (fun _ => Disc.cloexec) (reopen_safe env fd flags hf hp)

theorem C11_proc_open_cloexec (h : ProcH) (base : Procfs.Base) (sub : Bytes) (fl fuel : Nat) (hh : 0 ≤ h.fd) :
    Safe Cloexec (Procfs.openH env fuel h base sub fl) FdOk :=
  Safe.monoD (fun _ => Disc.cloexec) (openH_safe (b := false) env fuel h base sub fl hh)

theorem C11_proc_open_follow_cloexec (h : ProcH) (base : Procfs.Base) (sub : Bytes) (fl : Nat) (hh : 0 ≤ h.fd) :
    Safe Cloexec (Procfs.openFollowH env h base sub fl) FdOk :=
  Safe.monoD (fun _ => Disc.cloexec) (openFollowH_safe env h base sub fl hh)

/-- the procfs handles themselves (finding F16: the `open_tree` handle was not) -/
theorem C11_procfs_handles_cloexec : Safe Cloexec (Procfs.new env) ProcHOk ∧
    Safe Cloexec (Procfs.newUnmasked env) ProcHOk :=
  ⟨Safe.monoD (fun _ => Disc.cloexec) (new_safe (b := false) env),
   Safe.monoD (fun _ => Disc.cloexec) (newUnmasked_safe (b := false) env)⟩

/-- operations that return no descriptor still only ever hold close-on-exec descriptors -/
theorem C11_remove_all_cloexec (path : Bytes) (hr : 0 ≤ root.fd) (hp : 0 ≤ env.proc.fd) :
    Safe Cloexec (Root.removeAll env root path) (fun _ => True) :=
  Safe.monoD (fun _ => Disc.cloexec) (root_removeAll_safe (b := false) env root path hr hp)

theorem C11_rename_cloexec (src dst : Bytes) (fl : Nat) (hr : 0 ≤ root.fd) (hp : 0 ≤ env.proc.fd) :
    Safe Cloexec (Root.rename env root src dst fl) (fun _ => True) :=
  Safe.monoD (fun _ => Disc.cloexec) (root_rename_safe (b := false) env root src dst fl hr hp)

/-! ## Non-vacuity -/

example : ¬ Cloexec (.openat 3 b!"a" O_PATH 0) := by decide
example : ¬ Cloexec (.openTree AT_FDCWD b!"/proc" OPEN_TREE_CLONE) := by decide
example : Cloexec (.openTree AT_FDCWD b!"/proc" (OPEN_TREE_CLONE ||| OPEN_TREE_CLOEXEC)) := by decide

/-! ### descriptor balance -/

open LedgerProofs in
theorem C11_balance_resolve (env : Env) (r : Resolver) (root : Fd) (path : Bytes) (nofollow : Bool) (ext : List Fd)
    (hroot : root ∈ ext) (hproc : env.proc.fd ∈ ext) (hr0 : 0 ≤ root) (hp0 : 0 ≤ env.proc.fd) :
    BalancedFd ext (Resolver.resolve env r root path nofollow) :=
  resolve_balanced env r root path nofollow ext hroot hproc hr0 hp0

open LedgerProofs in
theorem C11_balance_open_subpath (env : Env) (r : Resolver) (root : Fd) (path : Bytes) (flags : Nat) (ext : List Fd)
    (hroot : root ∈ ext) (hproc : env.proc.fd ∈ ext) (hr0 : 0 ≤ root) (hp0 : 0 ≤ env.proc.fd) :
    BalancedFd ext (Resolver.openOnce env r root path flags) :=
  openOnce_balanced env r root path flags ext hroot hproc hr0 hp0

open LedgerProofs in
theorem C11_balance_reopen (env : Env) (fd : Fd) (flags : Nat) (ext : List Fd)
    (hfd : fd ∈ ext) (hproc : env.proc.fd ∈ ext) (hf0 : 0 ≤ fd) (hp0 : 0 ≤ env.proc.fd) :
    BalancedFd ext (Procfs.reopen env fd flags) :=
  reopen_balanced env fd flags ext hfd hproc hf0 hp0

open LedgerProofs in
theorem C11_balance_remove (env : Env) (root : Root) (path : Bytes) (isDir : Bool) (ext : List Fd)
    (hroot : root.fd ∈ ext) (hproc : env.proc.fd ∈ ext) (hr0 : 0 ≤ root.fd) (hp0 : 0 ≤ env.proc.fd) :
    BalancedNone ext (Root.removeInode env root path isDir) :=
  removeInode_balanced env root path isDir ext hroot hproc hr0 hp0

open LedgerProofs in
theorem C11_balance_create (env : Env) (root : Root) (path : Bytes) (ty : InodeType) (ext : List Fd)
    (hroot : root.fd ∈ ext) (hproc : env.proc.fd ∈ ext) (hr0 : 0 ≤ root.fd) (hp0 : 0 ≤ env.proc.fd) :
    BalancedNone ext (Root.create env root path ty) :=
  create_balanced env root path ty ext hroot hproc hr0 hp0

open LedgerProofs in
theorem C11_balance_create_file (env : Env) (root : Root) (path : Bytes) (flags perm : Nat) (ext : List Fd)
    (hroot : root.fd ∈ ext) (hproc : env.proc.fd ∈ ext) (hr0 : 0 ≤ root.fd) (hp0 : 0 ≤ env.proc.fd) :
    BalancedFd ext (Root.createFile env root path flags perm) :=
  createFile_balanced env root path flags perm ext hroot hproc hr0 hp0

open LedgerProofs in
theorem C11_balance_rename (env : Env) (root : Root) (src dst : Bytes) (rflags : Nat) (ext : List Fd)
    (hroot : root.fd ∈ ext) (hproc : env.proc.fd ∈ ext) (hr0 : 0 ≤ root.fd) (hp0 : 0 ≤ env.proc.fd) :
    BalancedNone ext (Root.rename env root src dst rflags) :=
  rename_balanced env root src dst rflags ext hroot hproc hr0 hp0

open LedgerProofs in
theorem C11_balance_readlink (env : Env) (root : Root) (path : Bytes) (ext : List Fd)
    (hroot : root.fd ∈ ext) (hproc : env.proc.fd ∈ ext) (hr0 : 0 ≤ root.fd) (hp0 : 0 ≤ env.proc.fd) :
    BalancedNone ext (Root.readlink env root path) :=
  readlink_balanced env root path ext hroot hproc hr0 hp0

open LedgerProofs in
theorem C11_balance_mkdir_all (env : Env) (root : Root) (path : Bytes) (perm : Nat) (ext : List Fd)
    (hroot : root.fd ∈ ext) (hproc : env.proc.fd ∈ ext) (hr0 : 0 ≤ root.fd) (hp0 : 0 ≤ env.proc.fd) :
    BalancedFd ext (Root.mkdirAll env root path perm) :=
  mkdirAll_balanced env root path perm ext hroot hproc hr0 hp0

open LedgerProofs in
theorem C11_balance_remove_all (env : Env) (root : Root) (path : Bytes) (ext : List Fd)
    (hroot : root.fd ∈ ext) (hproc : env.proc.fd ∈ ext) (hr0 : 0 ≤ root.fd) (hp0 : 0 ≤ env.proc.fd) :
    BalancedNone ext (Root.removeAll env root path) :=
  removeAll_balanced env root path ext hroot hproc hr0 hp0


/-! ### a whole session: at most one long-lived descriptor -/

open Ledger LedgerProofs Session SessionLedger in
/-- **After any sequence of library calls of one process** — each balanced on its own, as the `C11_balance_*` theorems
say of every operation — started with the process-global procfs cell (`GLOBAL_PROCFS_CELL`) empty: the descriptors the
process holds are exactly those handed back to the caller by the successful calls, plus at most one more, the
process-global procfs handle created by the first call that needed it (`cellFds cell` is `[]` or `[h.fd]`).  Nothing
else is left behind by the first use or by any later one; a failed creation leaves the cell empty and nothing open. -/
theorem C11_session_at_most_one_long_lived (env : Env) (ext : List Fd) (steps : List Step)
    (hs : ∀ s ∈ steps, StepOk ext s) (h0 l : Hist) (rs : List (Except Err Fd)) (cell : Option ProcH)
    (hr : Runs (session env none steps) h0 (h0 ++ l) (rs, cell)) (hf : Fresh ext [] l) :
    anyFatal rs ∨ ∃ o, ledger [] l = some o ∧ o.Perm (returned rs ++ cellFds cell) :=
  session_balanced env ext steps hs h0 l rs cell hr hf

open Ledger LedgerProofs Session SessionLedger in
/-- once the cell is filled it never changes and no call creates another handle -/
theorem C11_session_filled (env : Env) (ext : List Fd) (hcell : ProcH) (hc : hcell.fd ∈ ext) (hc0 : 0 ≤ hcell.fd)
    (steps : List Step) (hs : ∀ s ∈ steps, StepOk ext s) (h0 l : Hist) (rs : List (Except Err Fd)) (cell : Option ProcH)
    (hr : Runs (session env (some hcell) steps) h0 (h0 ++ l) (rs, cell)) (hf : Fresh ext [] l) :
    cell = some hcell ∧ (anyFatal rs ∨ ∃ o, ledger [] l = some o ∧ o.Perm (returned rs)) :=
  session_balanced_filled env ext hcell hc hc0 steps hs h0 l rs cell hr hf

open Session SessionLedger in
/-- the hypotheses are satisfiable: a plain `openat` followed by a `reopen` (which needs the global handle) -/
example (env : Env) (ext : List Fd) : ∀ s ∈ exampleSteps env, StepOk ext s := exampleSteps_ok env ext
