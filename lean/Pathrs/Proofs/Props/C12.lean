import Pathrs.Proofs.Props.C13
import Pathrs.Proofs.Rely
import Pathrs.Proofs.KProbe
import Pathrs.Proofs.RunsWorld
import Pathrs.Proofs.MkExact

/-!
# C12 — `mkdir_all` creates exactly the missing directories and converges under races

* `C12_mode_refused`: a mode with bits outside `0o1777` (file-type, setuid, setgid bits) is
  refused before any call.
* `C12_empty_refused`: the empty path is `ENOENT` before any call (finding F20, repaired).
* `C03_mkdir_all_targets` (Props/C03.lean): for every environment, every `mkdirat`/`openat` of the
  creating loop names one proper component (never `..`, `.` or a slash) below the directory
  it just opened with `O_NOFOLLOW|O_DIRECTORY`; a `..` among the missing components is refused.
* `C12_loop_chain`: for every environment (racing callers included), a successful creating loop
  is, component by component: `mkdirat(cur, part, perm)` answered with success *or* `EEXIST`
  (somebody else created it — the race is tolerated), then `openat(cur, part,
  O_NOFOLLOW|O_DIRECTORY|O_CLOEXEC|O_NOCTTY)` answered with the next directory, then `close(cur)`;
  the returned handle is the last directory opened that way.  So the handle is the directory
  reached by walking the missing components one `O_NOFOLLOW|O_DIRECTORY` step at a time from the
  partial-lookup handle, whoever created them — which is why racing callers end at the same
  directories.

* `C12_converges` (rely/guarantee, `Proofs/Rely.lean`): run against a mutable kernel state
  (`KS`: directory entries, kinds, id allocator) with *environment steps interleaved before every
  system call* that are only required to add directories (`AddsDirs` — what any number of other
  `mkdir_all` callers do), the creating loop of the model **succeeds**, returns the directory
  reached by walking the components in the final state (`kwalk`), and the whole history — its
  own steps included — only added directories (the guarantee, so N callers compose).  The
  precondition is that whatever already exists of the chain consists of directories (`Pre`),
  which is what the partial lookup establishes.

* `C12_target_is_spec` (refinement against the kernel specification, `Proofs/KSimStack.lean`,
  `Proofs/KProbe.lean`): on an unmodified well-formed tree the partial lookup of `mkdir_all` — on
  either backend — hands the creating loop the object after the *longest resolvable prefix* of the
  path (`pfx … j = ok handle`, `pfx … (j+1) = ENOENT`) and exactly the remaining components that are
  not `""`/`"."` (`remainingParts rem = (comps.drop j).filter nd`); or, when the whole path resolves,
  that object and nothing to create.

* `C12_exact` (sequential refinement against the mutable kernel state `KS`, `Proofs/MkExact.lean`): alone on the
  tree, the creating loop succeeds, returns the directory at the end of the chain, and the final state *is* the
  initial one with one `mkdirat` for every component that was missing, in order (`chainAdd`) — nothing else differs;
  what existed is untouched and every new entry is a directory (`C12_exact_adds`); when the whole chain exists nothing
  changes (`C12_exact_existing`).

The frame condition on the real filesystem, the requested mode and the agreement of racing
callers through the partial lookup are decided by the effect oracle and the racing-threads
suite of the check; each thread's transcript is replayed through the model.
-/

open K Runs

theorem C12_mode_refused (env : Env) (root : Root) (path : Bytes) (perm : Nat)
    (h : clearBits perm 0o1777 ≠ 0) : Root.mkdirAll env root path perm = throw .invalidArgument := by
  unfold Root.mkdirAll
  split
  · rfl
  · first | rfl | rw [if_pos h]

theorem C12_empty_refused (env : Env) (root : Root) (perm : Nat) (h1 : ¬ clearBits perm 0o7777 ≠ 0)
    (h2 : ¬ clearBits perm 0o1777 ≠ 0) : Root.mkdirAll env root [] perm = throw (.os ENOENT) := by
  unfold Root.mkdirAll
  rw [if_neg h1, if_neg h2, if_pos rfl]

/-- runs of the `mkdirat` wrapper -/
theorem mkdirat_inv {d : Fd} {n : Bytes} {m : Nat} {h h' : Hist} {x : Except Err Unit}
    (hr : Runs (Sys.mkdirat d n m) h h' x) :
    x = .error (.os EBADF) ∨
    ∃ resp, (h ++ [(Call.mkdirat d n m, resp)]) <+: h' ∧
      ((resp = .unit ∧ x = .ok ()) ∨
       (∃ e, resp = .err e ∧ x = .error (.os e)) ∨
       (∃ s, x = .error (.badResp s))) := by
  unfold Sys.mkdirat at hr
  simp only [M.bind_def] at hr
  rcases mbind_inv hr with ⟨ha, _, hh1, hh2⟩ | ⟨e, hh1, hx⟩
  · have hh1' : Runs (M.ofExcept (Sys.hotfix d)) h ha (.ok ()) := hh1
    obtain ⟨hha, _⟩ := ofExcept_inv hh1'
    rw [hha] at hh2
    right
    unfold Sys.unitCall at hh2
    simp only [M.bind_def] at hh2
    rcases mbind_inv hh2 with ⟨hb, resp, hc1, hc2⟩ | ⟨e, hc1, _⟩
    · obtain ⟨y, hhb, hy⟩ := call_ok_inv hc1
      cases hy
      rw [hhb] at hc2
      refine ⟨resp, Runs.isPrefix hc2, ?_⟩
      cases resp with
      | unit => obtain ⟨_, hxx⟩ := ret_inv hc2; exact Or.inl ⟨rfl, hxx⟩
      | err e => exact Or.inr (Or.inl ⟨e, rfl, failWith_inv _ _ _ _ _ hc2⟩)
      | _ => obtain ⟨_, hxx⟩ := ret_inv hc2; exact Or.inr (Or.inr ⟨_, hxx⟩)
    · obtain ⟨y, _, hy⟩ := call_ok_inv hc1
      cases hy
  · left
    have hh1' : Runs (M.ofExcept (Sys.hotfix d)) h h' (.error e) := hh1
    obtain ⟨_, he⟩ := ofExcept_inv hh1'
    unfold Sys.hotfix at he
    split at he
    · cases he
    · cases he; exact hx

/-- a tolerated `mkdirat`: the kernel answered success or `EEXIST` -/
theorem mkdirTolerant_ok_inv {cur : Fd} {part : Bytes} {perm : Nat} {h h' : Hist}
    (hr : Runs (Root.mkdirTolerant cur part perm) h h' (.ok ())) :
    ∃ resp, (h ++ [(Call.mkdirat cur part perm, resp)]) <+: h' ∧ (resp = .unit ∨ resp = .err EEXIST) := by
  unfold Root.mkdirTolerant at hr
  simp only [M.bind_def] at hr
  obtain ⟨hm, r, h1, hr2⟩ := mbind_ok hr
  obtain ⟨y, hy, hcase⟩ := try_inv h1
  have hp2 := Runs.isPrefix hr2
  rcases mkdirat_inv hy with hb | ⟨resp, hpre, hc⟩
  · subst hb
    rcases hcase with ⟨a, ha, _⟩ | ⟨e, he, hfe⟩
    · cases ha
    · cases he
      rcases hfe with ⟨hf, _⟩ | ⟨_, hxe⟩
      · simp [Err.isFatal] at hf
      · cases hxe
        simp only [] at hr2
        have : Err.os EBADF ≠ Err.os EEXIST := by decide
        simp only [ne_eq, this, not_false_eq_true, ↓reduceIte] at hr2
        obtain ⟨_, hxx⟩ := ret_inv hr2; cases hxx
  · refine ⟨resp, hpre.trans hp2, ?_⟩
    rcases hc with ⟨hresp, _⟩ | ⟨e, hresp, hxe⟩ | ⟨s, hxb⟩
    · exact Or.inl hresp
    · subst hxe
      rcases hcase with ⟨a, ha, _⟩ | ⟨e', he, hfe⟩
      · cases ha
      · cases he
        rcases hfe with ⟨hf, _⟩ | ⟨_, hxe⟩
        · simp [Err.isFatal] at hf
        · cases hxe
          simp only [] at hr2
          by_cases hee : e = EEXIST
          · right; rw [hresp, hee]
          · have : Err.os e ≠ Err.os EEXIST := by intro hc; cases hc; exact hee rfl
            simp only [ne_eq, this, not_false_eq_true, ↓reduceIte] at hr2
            obtain ⟨_, hxx⟩ := ret_inv hr2; cases hxx
    · subst hxb
      rcases hcase with ⟨a, ha, _⟩ | ⟨e', he, hfe⟩
      · cases ha
      · cases he
        rcases hfe with ⟨_, hxe⟩ | ⟨hf, _⟩
        · cases hxe
        · simp [Err.isFatal] at hf

/-- what a successful creating loop looks like, component by component -/
def Steps (perm : Nat) : Fd → List Bytes → Hist → Hist → Fd → Prop
  | cur, [], h, h', fd => h' = h ∧ fd = cur
  | cur, part :: rest, h, h', fd =>
    Path.containsSlash part = false ∧
    ∃ resp hm1 next rc,
      (h ++ [(Call.mkdirat cur part perm, resp)]) <+: hm1 ∧ (resp = .unit ∨ resp = .err EEXIST) ∧
      Steps perm next rest
        (hm1 ++ [(Call.openat cur part (O_NOFOLLOW ||| O_DIRECTORY ||| O_NOFOLLOW ||| O_CLOEXEC ||| O_NOCTTY) 0, Resp.fd next),
                 (Call.close cur, rc)]) h' fd

theorem C12_loop_chain (perm : Nat) (parts : List Bytes) : ∀ (cur : Fd) {h h' : Hist} {fd : Fd},
    Runs (Root.mkdirLoop perm cur parts) h h' (.ok fd) → Steps perm cur parts h h' fd := by
  induction parts with
  | nil =>
    intro cur h h' fd hr
    unfold Root.mkdirLoop at hr
    obtain ⟨hh, he⟩ := ret_inv hr
    cases he
    exact ⟨hh, rfl⟩
  | cons part rest ih =>
    intro cur h h' fd hr
    unfold Root.mkdirLoop at hr
    split at hr
    · obtain ⟨_, _, _, hr2⟩ := mbind_ok hr
      obtain ⟨_, he⟩ := ret_inv hr2; cases he
    · rename_i hns
      simp only [M.bind_def] at hr
      obtain ⟨hm1, _, h1, hr2⟩ := mbind_ok hr
      obtain ⟨resp, hpre, hresp⟩ := mkdirTolerant_ok_inv (onErr_ok h1)
      obtain ⟨hm2, next, h2, hr3⟩ := mbind_ok hr2
      have ho := openat_ok_inv (onErr_ok h2)
      obtain ⟨hm3, _, h3, hr4⟩ := mbind_ok hr3
      obtain ⟨rc, hclose⟩ := lift_close_runs h3
      refine ⟨by simpa using hns, resp, hm1, next, rc, hpre, hresp, ?_⟩
      have := ih next hr4
      rw [hclose, ho] at this
      simpa using this

/-- **convergence under races** (restated from `Proofs/Rely.lean`) -/
theorem C12_converges (perm : Nat) (parts : List Bytes) (cur : Fd) (w w' : KS) (t : Hist) (r : Except Err Fd)
    (ha : Alloc w) (hc : 0 ≤ cur) (hd : w.isDir cur = true) (hns : ∀ p ∈ parts, Path.containsSlash p = false)
    (hpre : Pre w cur parts) (hr : RunsT (Root.mkdirLoop perm cur parts) t r) (hv : Valid w t w') :
    ∃ fd, r = .ok fd ∧ kwalk w' cur parts = some fd ∧ AddsDirs w w' ∧ Alloc w' :=
  mkdirLoop_converges perm parts cur w w' t r ha hc hd hns hpre hr hv

/-- non-vacuity: a two-component run where the first directory already exists -/
example : Steps 0o755 5 [b!"a"] []
    [(Call.mkdirat 5 b!"a" 0o755, Resp.unit),
     (Call.openat 5 b!"a" (O_NOFOLLOW ||| O_DIRECTORY ||| O_NOFOLLOW ||| O_CLOEXEC ||| O_NOCTTY) 0, Resp.fd 6),
     (Call.close 5, Resp.unit)] 6 := by
  refine ⟨by decide, .unit, [(Call.mkdirat 5 b!"a" 0o755, Resp.unit)], 6, .unit, ?_, Or.inl rfl, ?_⟩
  · exact List.prefix_refl _
  · exact ⟨rfl, rfl⟩

/-! ### the starting point of the creating loop, on a world -/

open KRun KSim KSpec World KPartial KPartialRun KProbe SStack in
theorem C12_target_is_spec {w : World} (hw : w.WF) (r : Resolver) (path : Bytes) (hp : path ≠ [])
    (hnul : path.contains 0 = false) {h hm : Hist} {handle : Fd} {rem : Option Bytes}
    (hres : Runs (Root.partialTarget (kenv w) { fd := w.root, resolver := r } path) h hm (.ok (handle, rem)))
    (l : Hist) (hl : hm = h ++ l) (ha : AnswersFrom w l) :
    (rem = none ∧ kresolve w (if r.emulated then ecfg r.rflags false else kcfgK w r.rflags false) w.root
        (Path.rawComponents path) 0 = .ok handle) ∨
    (∃ j, pfx w (if r.emulated then ecfg r.rflags false else kcfgK w r.rflags false) (Path.rawComponents path) j = .ok handle ∧
      pfx w (if r.emulated then ecfg r.rflags false else kcfgK w r.rflags false) (Path.rawComponents path) (j + 1) = .error ENOENT ∧
      Root.remainingParts rem = ((Path.rawComponents path).drop j).filter nd) := by
  have hd := Runs.world_det (w := w) hres l hl ha
  have hsl : ∀ x ∈ Path.rawComponents path, Path.containsSlash x = false := rawComponents_single path
  unfold Root.partialTarget Resolver.resolvePartial at hd
  by_cases hemu : r.emulated = true
  · obtain ⟨le, e1, e2, e3⟩ := run_opath_resolvePartial hw path hp r.rflags
    simp only [hemu, ↓reduceIte, M.bind_def, run_bind'_simp, e1] at hd ⊢
    cases le with
    | complete he =>
      simp only [run_do_pure, Except.ok.injEq, Prod.mk.injEq] at hd
      left
      refine ⟨hd.2, ?_⟩
      cases hk : kresolve w (ecfg r.rflags false) w.root (Path.rawComponents path) 0 with
      | ok c => rw [hk] at e2; simp [lookupOut, toOut] at e2; rw [hd.1, e2]
      | error e => rw [hk] at e2; simp [lookupOut, toOut] at e2
    | part he re ee =>
      by_cases hen : ee = .os ENOENT
      · subst hen
        simp only [↓reduceIte, run_do_pure, Except.ok.injEq, Prod.mk.injEq] at hd
        obtain ⟨je, ⟨_, ⟨x, s1⟩, s2⟩, s3⟩ := e3 he re rfl
        right
        refine ⟨je, ?_, s2, ?_⟩
        · unfold pfx; rw [kresolve_eq_kres2, s1, hd.1]; rfl
        · rw [hd.2, s3, remainingParts_joinSlash _ (fun c hc => hsl c (List.mem_of_mem_drop hc))]
      · simp only [hen, ↓reduceIte, run_bind'_simp, run_do_liftP, run_do_throw] at hd
        cases hd
  · have hemu' : r.emulated = false := by simpa using hemu
    obtain ⟨lk, k1, k2, k3⟩ := run_openat2_resolvePartial hw path hp hnul r.rflags
    simp only [hemu', Bool.false_eq_true, ↓reduceIte, M.bind_def, run_bind'_simp, k1] at hd ⊢
    cases lk with
    | complete hk0 =>
      simp only [run_do_pure, Except.ok.injEq, Prod.mk.injEq] at hd
      left
      refine ⟨hd.2, ?_⟩
      cases hk : kresolve w (kcfgK w r.rflags false) w.root (Path.rawComponents path) 0 with
      | ok c => rw [hk] at k2; simp [lookupOut, toOut] at k2; rw [hd.1, k2]
      | error e => rw [hk] at k2; simp [lookupOut, toOut] at k2
    | part hk0 rk ek =>
      by_cases hen : ek = .os ENOENT
      · subst hen
        simp only [↓reduceIte, run_do_pure, Except.ok.injEq, Prod.mk.injEq] at hd
        obtain ⟨jk, e', t0, t1, t2, t3⟩ := k3 hk0 rk _ rfl
        cases t0
        right
        exact ⟨jk, by rw [hd.1]; exact t1, t2, by rw [hd.2]; exact t3⟩
      · simp only [hen, ↓reduceIte, run_bind'_simp, run_do_liftP, run_do_throw] at hd
        cases hd

/-! ### exactly the missing directories -/

open MkExact in
theorem C12_exact (perm : Nat) (parts : List Bytes) (cur : Fd) (w : KS) (ha : Alloc w) (hc : 0 ≤ cur)
    (hd : w.isDir cur = true) (hns : ∀ p ∈ parts, Path.containsSlash p = false) (hpre : Pre w cur parts) :
    ∃ fd, execK w (Root.mkdirLoop perm cur parts) = (chainAdd w cur parts, .ok fd) ∧
      kwalk (chainAdd w cur parts) cur parts = some fd :=
  mkdirLoop_exact perm parts cur w ha hc hd hns hpre

open MkExact in
theorem C12_exact_adds (w : KS) (ha : Alloc w) (cur : Fd) (parts : List Bytes) (hd : w.isDir cur = true)
    (hpre : Pre w cur parts) : AddsDirs w (chainAdd w cur parts) ∧ Alloc (chainAdd w cur parts) :=
  chainAdd_adds w ha cur parts hd hpre

open MkExact in
theorem C12_exact_existing (w : KS) (cur fd : Fd) (parts : List Bytes) (h : kwalk w cur parts = some fd) :
    chainAdd w cur parts = w :=
  chainAdd_existing w cur fd parts h

