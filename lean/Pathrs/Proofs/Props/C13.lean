import Pathrs.Proofs.Props.C14
import Pathrs.Proofs.RmAll
import Pathrs.Proofs.RmAllRace

/-!
# C13 — `remove_all` removes exactly the named subtree and never follows links

* `C03_remove_all_targets` (Props/C03.lean, re-used here): for every environment — every
  directory listing, every racing caller or attacker — each `unlinkat` and each directory
  open of `remove_all` names one slash-free component that is neither `.` nor `..`, relative
  to the directory it was given or to one it opened itself with `O_DIRECTORY|O_NOFOLLOW`;
  no other mutating call is made.  So it works only downwards from (parent, name) and a
  symlink is only ever unlinked, never traversed.
* `C13_dot_refused`: the names `.` and `..` are refused before any call.
* `C13_success_witness`: for every environment, `remove_all` reports success only after the
  kernel itself said the named entry is gone: an `unlinkat(parent, name)` answered with success
  or `ENOENT`, or the directory open of (parent, name) answered `ENOENT`.  In particular each
  of several racing callers that reports success has seen the entry absent.
* `C03_trailing_slash_remove_all` / `C14`'s `resolveParent_ok_inv`: the parent is the in-root
  resolution of the rest of the path.

* `C13_exact` / `C13_absent` (refinement against a mutable tree, `Proofs/RmAll.lean`): run against `RFS` — a
  mutable directory tree with the kernel's answers to `unlinkat`, `rmdir`, the `O_DIRECTORY|O_NOFOLLOW` open and
  directory streams (`dirOpen` snapshots the names, `dirNext` delivers them), state threaded by `exec` — the model
  of `remove_all` **succeeds**, the named entry is gone, every directory below it is empty, the parent lost exactly
  that entry, no other directory changed and no kind changed, for every finite tree (`WF`: a rank decreasing along
  entries, distinct proper names, one parent per object) and any fuel above `rank dir + 3` (the model's constant is
  100 000); an entry that does not exist is success with nothing changed.  The error-message reads the wrappers make
  on the way (`EISDIR`, `ENOTEMPTY` are part of the normal course) are shown to leave the state unchanged.

* `C13_converges` (rely/guarantee, `Proofs/RmAllRace.lean`): the same tree, but now *the environment moves
  before every system call of the program*: it may remove entries anywhere (`Removes` — what any number of other
  `remove_all` callers or an `rm -rf` do; directory streams deliver names that may be gone by then), never add one.
  For every such history: the call **succeeds**, the named entry is absent afterwards, the whole history only removed
  entries (the guarantee: so N callers compose), and everything the call itself removed is the named entry or lies
  below it in the initial tree.  So racing `remove_all` callers all report success and leave the path absent.

The frame condition on the real filesystem (and a real kernel's directory streams) are decided by the effect
oracle and the racing-threads suite of the check.
-/

open K Runs

theorem C13_dot_refused (fuel : Nat) (dir : Fd) (name : Bytes) (h : name = Path.dot ∨ name = Path.dotdot) :
    RemoveAll.removeAll (fuel + 1) dir name = throw .invalidArgument := by
  unfold RemoveAll.removeAll
  have hs : Path.containsSlash name = false := by rcases h with rfl | rfl <;> decide
  simp [hs, h]

/-- the kernel said (parent, name) is gone -/
def AbsenceWitness (dir : Fd) (name : Bytes) (x : Call × Resp) : Prop :=
  (∃ fl, x = (Call.unlinkat dir name fl, Resp.unit)) ∨
  (∃ fl, x = (Call.unlinkat dir name fl, Resp.err ENOENT)) ∨
  (∃ fl m, x = (Call.openat dir name fl m, Resp.err ENOENT))

def Witnessed (dir : Fd) (name : Bytes) (h h' : Hist) : Prop :=
  ∃ pre x post, h' = pre ++ x :: post ∧ h <+: pre ∧ AbsenceWitness dir name x

theorem Witnessed.mono {dir : Fd} {name : Bytes} {h hm hm' h' : Hist} (hp : h <+: hm) (hq : hm' <+: h')
    (hw : Witnessed dir name hm hm') : Witnessed dir name h h' := by
  obtain ⟨pre, x, post, he, hpre, hx⟩ := hw
  obtain ⟨t, ht⟩ := hq
  exact ⟨pre, x, post ++ t, by rw [← ht, he]; simp, hp.trans hpre, hx⟩

/-- a run of the `unlinkat` wrapper: its first event is the call, and an `ENOENT`/success result
reflects the kernel's answer -/
theorem unlinkat_inv {d : Fd} {n : Bytes} {f : Nat} {h h' : Hist} {x : Except Err Unit}
    (hr : Runs (Sys.unlinkat d n f) h h' x) :
    x = .error (.os EBADF) ∨
    ∃ resp, (h ++ [(Call.unlinkat d n f, resp)]) <+: h' ∧
      ((resp = .unit ∧ x = .ok ()) ∨
       (∃ e, resp = .err e ∧ x = .error (.os e)) ∨
       (∃ s, x = .error (.badResp s))) := by
  unfold Sys.unlinkat at hr
  simp only [M.bind_def] at hr
  rcases mbind_inv hr with ⟨ha, _, hh1, hh2⟩ | ⟨e, hh1, hx⟩
  · have hh1' : Runs (M.ofExcept (Sys.hotfix d)) h ha (.ok ()) := hh1
    obtain ⟨hha, _⟩ := ofExcept_inv hh1'
    subst hha
    right
    unfold Sys.unitCall at hh2
    simp only [M.bind_def] at hh2
    rcases mbind_inv hh2 with ⟨hb, resp, hc1, hc2⟩ | ⟨e, hc1, _⟩
    · obtain ⟨y, hhb, hy⟩ := call_ok_inv hc1
      cases hy
      subst hhb
      refine ⟨resp, Runs.isPrefix hc2, ?_⟩
      cases resp with
      | unit => obtain ⟨_, hxx⟩ := ret_inv hc2; exact Or.inl ⟨rfl, hxx⟩
      | err e => exact Or.inr (Or.inl ⟨e, rfl, failWith_inv _ _ _ _ _ hc2⟩)
      | _ => obtain ⟨_, hxx⟩ := ret_inv hc2; exact Or.inr (Or.inr ⟨_, hxx⟩)
    · obtain ⟨y, _, hy⟩ := call_ok_inv hc1
      cases hy
  · left
    have hh1' : Runs (M.ofExcept (Sys.hotfix d)) h h' (.error e) := hh1
    obtain ⟨_, he⟩ := ofExcept_inv hh1'
    unfold Sys.hotfix at he
    split at he
    · cases he
    · cases he; exact hx

theorem unlinkat_witness {d : Fd} {n : Bytes} {f : Nat} {h h' : Hist} {x : Except Err Unit}
    (hr : Runs (Sys.unlinkat d n f) h h' x) (hx : x = .ok () ∨ x = .error (.os ENOENT)) :
    Witnessed d n h h' := by
  rcases unlinkat_inv hr with hb | ⟨resp, hpre, hcase⟩
  · rcases hx with hx | hx <;> rw [hx] at hb <;> cases hb
  · obtain ⟨t, ht⟩ := hpre
    rcases hcase with ⟨hresp, _⟩ | ⟨e, hresp, hxe⟩ | ⟨s, hxb⟩
    · exact ⟨h, (Call.unlinkat d n f, resp), t, by rw [← ht]; simp, List.prefix_refl _, Or.inl ⟨f, by rw [hresp]⟩⟩
    · rcases hx with hx | hx
      · rw [hx] at hxe; cases hxe
      · rw [hx] at hxe
        cases hxe
        exact ⟨h, (Call.unlinkat d n f, resp), t, by rw [← ht]; simp, List.prefix_refl _,
          Or.inr (Or.inl ⟨f, by rw [hresp]⟩)⟩
    · rcases hx with hx | hx <;> rw [hx] at hxb <;> cases hxb

/-- `remove_inode` of `utils/dir.rs` ends `ok` or with `ENOENT` only on the kernel's word -/
theorem removeInode_witness {dir : Fd} {name : Bytes} {h h' : Hist} {x : Except Err Unit}
    (hr : Runs (RemoveAll.removeInode dir name) h h' x) (hx : x = .ok () ∨ x = .error (.os ENOENT)) :
    Witnessed dir name h h' := by
  unfold RemoveAll.removeInode at hr
  simp only [M.bind_def] at hr
  rcases mbind_inv hr with ⟨hm, r1, h1, hr2⟩ | ⟨e, h1, he⟩
  · obtain ⟨y, hy, hcase⟩ := try_inv h1
    have hp1 := Runs.isPrefix h1
    have hp2 := Runs.isPrefix hr2
    rcases hcase with ⟨a, rfl, hxa⟩ | ⟨e, rfl, hfe⟩
    · -- unlink succeeded
      cases hxa
      exact (unlinkat_witness hy (Or.inl rfl)).mono (List.prefix_refl _) hp2
    · rcases hfe with ⟨_, hxe⟩ | ⟨hnf, hxe⟩
      · cases hxe
      · cases hxe
        simp only [] at hr2
        rcases mbind_inv hr2 with ⟨hm2, r2, h2, hr3⟩ | ⟨e2, h2, he2⟩
        · obtain ⟨y2, hy2, hcase2⟩ := try_inv h2
          have hp3 := Runs.isPrefix hr3
          rcases hcase2 with ⟨a, rfl, hxa⟩ | ⟨e2, rfl, hfe2⟩
          · cases hxa
            exact (unlinkat_witness hy2 (Or.inl rfl)).mono hp1 hp3
          · rcases hfe2 with ⟨_, hxe⟩ | ⟨_, hxe⟩
            · cases hxe
            · cases hxe
              simp only [] at hr3
              by_cases hnd : e2 = .os ENOTDIR
              · -- rmdir said ENOTDIR: the unlink error is reported
                simp only [hnd, ↓reduceIte] at hr3
                obtain ⟨_, hxx⟩ := ret_inv hr3
                rcases hx with hx | hx
                · rw [hx] at hxx; cases hxx
                · rw [hx] at hxx; cases hxx
                  exact (unlinkat_witness hy (Or.inr rfl)).mono (List.prefix_refl _) hp2
              · simp only [hnd, ↓reduceIte] at hr3
                obtain ⟨_, hxx⟩ := ret_inv hr3
                rcases hx with hx | hx
                · rw [hx] at hxx; cases hxx
                · rw [hx] at hxx; cases hxx
                  exact (unlinkat_witness hy2 (Or.inr rfl)).mono hp1 hp3
        · subst he2
          obtain ⟨y2, hy2, hcase2⟩ := try_inv h2
          rcases hcase2 with ⟨a, rfl, hxa⟩ | ⟨e3, rfl, hfe3⟩
          · cases hxa
          · rcases hfe3 with ⟨hf, hxe⟩ | ⟨_, hxe⟩
            · cases hxe
              rcases hx with hx | hx
              · cases hx
              · cases hx; simp [Err.isFatal] at hf
            · cases hxe
  · subst he
    obtain ⟨y, hy, hcase⟩ := try_inv h1
    rcases hcase with ⟨a, rfl, hxa⟩ | ⟨e3, rfl, hfe3⟩
    · cases hxa
    · rcases hfe3 with ⟨hf, hxe⟩ | ⟨_, hxe⟩
      · cases hxe
        rcases hx with hx | hx
        · cases hx
        · cases hx; simp [Err.isFatal] at hf
      · cases hxe

/-- `ignore_enoent(remove_inode(..))` succeeded: the kernel said the entry is gone -/
theorem ignoreEnoent_removeInode_witness {dir : Fd} {name : Bytes} {h h' : Hist}
    (hr : Runs (RemoveAll.ignoreEnoent (RemoveAll.removeInode dir name)) h h' (.ok ())) :
    Witnessed dir name h h' := by
  unfold RemoveAll.ignoreEnoent at hr
  simp only [M.bind_def] at hr
  obtain ⟨hm, r, h1, hr2⟩ := mbind_ok hr
  obtain ⟨y, hy, hcase⟩ := try_inv h1
  have hp2 := Runs.isPrefix hr2
  rcases hcase with ⟨a, rfl, hxa⟩ | ⟨e, rfl, hfe⟩
  · cases hxa
    exact (removeInode_witness hy (Or.inl rfl)).mono (List.prefix_refl _) hp2
  · rcases hfe with ⟨_, hxe⟩ | ⟨_, hxe⟩
    · cases hxe
    · cases hxe
      cases e with
      | os k =>
        simp only [] at hr2
        by_cases hk : k = ENOENT
        · subst hk
          exact (removeInode_witness hy (Or.inr rfl)).mono (List.prefix_refl _) hp2
        · simp only [hk, ↓reduceIte] at hr2
          obtain ⟨_, hxx⟩ := ret_inv hr2; cases hxx
      | _ =>
        obtain ⟨_, hxx⟩ := ret_inv hr2; cases hxx

/-- the `openat` wrapper ended with `ENOENT`: its call was answered `ENOENT` -/
theorem openat_enoent_witness {dir : Fd} {name : Bytes} {fl m : Nat} {h h' : Hist}
    (hr : Runs (Sys.openat dir name fl m) h h' (.error (.os ENOENT))) : Witnessed dir name h h' := by
  unfold Sys.openat Sys.openatFollow at hr
  simp only [M.bind_def] at hr
  rcases mbind_inv hr with ⟨ha, _, hh1, hh2⟩ | ⟨e, hh1, hx⟩
  · have hh1' : Runs (M.ofExcept (Sys.hotfix dir)) h ha (.ok ()) := hh1
    obtain ⟨hha, _⟩ := ofExcept_inv hh1'
    rw [hha] at hh2
    rcases mbind_inv hh2 with ⟨hb, resp, hc1, hc2⟩ | ⟨e, hc1, _⟩
    · obtain ⟨yy, hhb, hyy⟩ := call_ok_inv hc1
      cases hyy
      rw [hhb] at hc2
      obtain ⟨t, ht⟩ := Runs.isPrefix hc2
      cases resp with
      | fd k => obtain ⟨_, hxx⟩ := ret_inv hc2; cases hxx
      | err e =>
        have hxx := failWith_inv _ _ _ _ _ hc2
        cases hxx
        exact ⟨h, (Call.openat dir name (fl ||| O_NOFOLLOW ||| O_CLOEXEC ||| O_NOCTTY) m, Resp.err ENOENT), t,
          by rw [← ht]; simp, List.prefix_refl _, Or.inr (Or.inr ⟨_, _, rfl⟩)⟩
      | _ => obtain ⟨_, hxx⟩ := ret_inv hc2; cases hxx
    · obtain ⟨yy, _, hyy⟩ := call_ok_inv hc1
      cases hyy
  · have hh1' : Runs (M.ofExcept (Sys.hotfix dir)) h h' (.error e) := hh1
    obtain ⟨_, he⟩ := ofExcept_inv hh1'
    unfold Sys.hotfix at he
    split at he
    · cases he
    · cases he; cases hx

/-- **success is only reported on the kernel's word that the entry is gone** -/
theorem C13_success_witness (fuel : Nat) (dir : Fd) (name : Bytes) {h h' : Hist}
    (hr : Runs (RemoveAll.removeAll fuel dir name) h h' (.ok ())) : Witnessed dir name h h' := by
  cases fuel with
  | zero => unfold RemoveAll.removeAll at hr; obtain ⟨_, he⟩ := ret_inv hr; cases he
  | succ n =>
    unfold RemoveAll.removeAll at hr
    split at hr
    · obtain ⟨_, he⟩ := ret_inv hr; cases he
    · split at hr
      · obtain ⟨_, he⟩ := ret_inv hr; cases he
      · simp only [M.bind_def] at hr
        obtain ⟨hm, removed, h1, hr2⟩ := mbind_ok hr
        have hp1 := Runs.isPrefix h1
        have hp2 := Runs.isPrefix hr2
        unfold M.isOk at h1
        simp only [M.bind_def] at h1
        obtain ⟨hm0, r0, h0, hr0⟩ := mbind_ok h1
        obtain ⟨y, hy, hcase⟩ := try_inv h0
        have hp0 := Runs.isPrefix hr0
        rcases hcase with ⟨a, rfl, hxa⟩ | ⟨e, rfl, hfe⟩
        · cases hxa
          exact (ignoreEnoent_removeInode_witness hy).mono (List.prefix_refl _) (hp0.trans hp2)
        · rcases hfe with ⟨_, hxe⟩ | ⟨_, hxe⟩
          · cases hxe
          · cases hxe
            simp only [] at hr0
            obtain ⟨_, hrem⟩ := ret_inv hr0
            cases hrem
            simp only [Bool.false_eq_true, ↓reduceIte] at hr2
            obtain ⟨hm3, sub, h3, hr4⟩ := mbind_ok hr2
            have hp3 := Runs.isPrefix h3
            have hp4 := Runs.isPrefix hr4
            cases sub with
            | none =>
              -- the directory open said ENOENT
              unfold RemoveAll.openSubdir at h3
              simp only [M.bind_def] at h3
              obtain ⟨hm5, r5, h5, hr5⟩ := mbind_ok h3
              obtain ⟨y5, hy5, hcase5⟩ := try_inv h5
              rcases hcase5 with ⟨a, rfl, hxa⟩ | ⟨e5, rfl, hfe5⟩
              · cases hxa
                obtain ⟨_, he⟩ := ret_inv hr5; cases he
              · rcases hfe5 with ⟨_, hxe⟩ | ⟨_, hxe⟩
                · cases hxe
                · cases hxe
                  cases e5 with
                  | os k =>
                    simp only [] at hr5
                    by_cases hk : k = ENOENT
                    · subst hk
                      -- the openat wrapper ended with ENOENT: its call was answered ENOENT
                      have hw : Witnessed dir name hm hm5 := openat_enoent_witness hy5
                      exact hw.mono hp1 ((Runs.isPrefix hr5).trans hp4)
                    · simp only [hk, ↓reduceIte] at hr5
                      obtain ⟨_, hxx⟩ := ret_inv hr5; cases hxx
                  | _ => obtain ⟨_, hxx⟩ := ret_inv hr5; cases hxx
            | some subdir =>
              simp only [] at hr4
              unfold RemoveAll.emptyDir at hr4
              simp only [M.bind_def] at hr4
              obtain ⟨hm6, _, h6, hr6⟩ := mbind_ok hr4
              have hp6 := Runs.isPrefix h6
              obtain ⟨hm7, r7, h7, hr7⟩ := mbind_ok hr6
              obtain ⟨y7, hy7, hcase7⟩ := try_inv h7
              have hp7 := Runs.isPrefix hr7
              obtain ⟨hm8, _, h8, hr8⟩ := mbind_ok hr7
              obtain ⟨_, hx8⟩ := ofExcept_inv hr8
              subst hx8
              rcases hcase7 with ⟨a, rfl, hxa⟩ | ⟨e7, rfl, hfe7⟩
              · cases hxa
                exact (ignoreEnoent_removeInode_witness hy7).mono (hp1.trans (hp3.trans hp6)) hp7
              · rcases hfe7 with ⟨_, hxe⟩ | ⟨_, hxe⟩ <;> cases hxe

/-! ### exactly the named subtree (sequential refinement against a mutable tree) -/

open RmAll in
/-- **`remove_all` removes exactly the named subtree** -/
theorem C13_exact (s : RFS) (rank : Fd → Nat) (hw : WF s rank) (dir : Fd) (hdir : 0 ≤ dir) (name : Bytes) (c : Fd)
    (hc : s.child dir name = some c) (fuel : Nat) (hfuel : rank dir + 3 ≤ fuel) :
    ∃ s', exec s (RemoveAll.removeAll fuel dir name) = (s', .ok ()) ∧
      s'.entries dir = (s.entries dir).filter (fun e => e.1 ≠ name) ∧
      (∀ d, Below s c d → s'.entries d = []) ∧
      (∀ d, ¬ Below s c d → d ≠ dir → s'.entries d = s.entries d) ∧
      s'.isDir = s.isDir :=
  removeAll_exact s rank hw dir hdir name c hc fuel hfuel

open RmAll in
/-- the entry is gone afterwards -/
theorem C13_exact_gone (s : RFS) (rank : Fd → Nat) (hw : WF s rank) (dir : Fd) (hdir : 0 ≤ dir) (name : Bytes) (c : Fd)
    (hc : s.child dir name = some c) (fuel : Nat) (hfuel : rank dir + 3 ≤ fuel) :
    ∃ s', exec s (RemoveAll.removeAll fuel dir name) = (s', .ok ()) ∧ s'.child dir name = none := by
  obtain ⟨s', h1, h2, _⟩ := removeAll_exact s rank hw dir hdir name c hc fuel hfuel
  refine ⟨s', h1, ?_⟩
  unfold RFS.child
  rw [h2]
  generalize s.entries dir = l
  induction l with
  | nil => rfl
  | cons e t ih =>
    by_cases he : e.1 = name
    · simp only [List.filter_cons, he, ne_eq, not_true_eq_false, decide_false, Bool.false_eq_true, ↓reduceIte]; exact ih
    · have hne : (name == e.1) = false := by simpa using fun h => he h.symm
      simp only [List.filter_cons, ne_eq, he, not_false_eq_true, decide_true, ↓reduceIte]
      rw [List.lookup_cons, hne]
      exact ih

open RmAll in
/-- an entry that does not exist (somebody else removed it): success, nothing changed -/
theorem C13_absent (s : RFS) (dir : Fd) (hdir : 0 ≤ dir) (name : Bytes) (hname : RmAll.ProperName name)
    (hc : s.child dir name = none) (fuel : Nat) :
    ∃ s', exec s (RemoveAll.removeAll (fuel + 1) dir name) = (s', .ok ()) ∧ s'.entries = s.entries ∧ s'.isDir = s.isDir :=
  removeAll_absent s dir hdir name hname hc fuel

/-! ### convergence while others remove (rely/guarantee) -/

open RmAll RmAllRace in
/-- **Racing removers converge** -/
theorem C13_converges (s s' : RFS) (rank : Fd → Nat) (hw : WF s rank) (dir : Fd) (hdir : 0 ≤ dir) (name : Bytes)
    (hname : RmAll.ProperName name) (fuel : Nat) (hfuel : rank dir + 3 ≤ fuel) (t : Hist) (r : Except Err Unit)
    (hr : RunsT (RemoveAll.removeAll fuel dir name) t r) (hv : ValidR s t s') :
    r = .ok () ∧ s'.child dir name = none ∧ OnlyRemoved s s' ∧
      ∀ d n, (d, n) ∈ ownRemovals t →
        (d = dir ∧ n = name) ∨ (∃ c, s.child dir name = some c ∧ Below s c d) :=
  removeAll_converges s s' rank hw dir hdir name hname fuel hfuel t r hr hv

