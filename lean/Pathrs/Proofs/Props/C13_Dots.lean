import Pathrs.Proofs.Props.C13
import Pathrs.Proofs.Ancestors

/-!
# C13 — `Root::remove_all` refuses a final `.` or `..`, for the whole operation and every environment

`C13_dot_refused` (Props/C13.lean) is about the inner `RemoveAll.removeAll dir name`.  This file lifts it to
`Root.removeAll env root path`:

* `C13_root_dots_eq`: when `path_split` gives the final name `.` or `..`, the operation *is the program*
  "look the parent up in the root, close it, `InvalidArgument`" (the same as for a trailing slash).
* `C13_root_dots_refused`: hence every run (`Runs`: every sequence of answers) ends in an error — the lookup's own, or
  `InvalidArgument` — its history is the lookup's plus one `close`, and every call is a `NoRemoval` call: no
  `unlinkat`, no `dirOpen`/`dirNext`, nothing that creates or renames (`Prog.AllCalls'`, all answers; `Safe` follows).
  `C13Dots.resolve_nr` is the new fact about the lookup this needs: on either backend, whatever it is answered, the
  resolver never scans a directory or removes anything (the pass mirrors `KEffect.resolve_noMut`, whose predicate
  `mutates` does not speak about directory streams).
* `C13_root_dots_disciplined`: with the syscall discipline of C05 added (`Disc false ∧ NoRemoval`).
* `C13_dots_spellings` / `C13_dots_spellings_only`: the hypothesis holds exactly for `.`, `..`, `pre/.`, `pre/..`
  (any `pre`): `remove_all` does not strip or normalise the path before `path_split`, which cuts at the last slash.
-/

open K Runs

/-- calls that neither remove, create or rename an entry nor scan a directory: no `unlinkat` (with or without
`AT_REMOVEDIR`), no directory-stream call, no `mkdirat`/`mknodat`/`symlinkat`/`linkat`/`renameat*` -/
def NoRemoval : Call → Prop
  | .unlinkat .. => False
  | .dirOpen _ => False
  | .dirNext _ => False
  | .mkdirat .. => False
  | .mknodat .. => False
  | .symlinkat .. => False
  | .linkat .. => False
  | .renameat .. => False
  | .renameat2 .. => False
  | _ => True

instance (c : Call) : Decidable (NoRemoval c) := by
  cases c <;> simp only [NoRemoval] <;> infer_instance

namespace C13Dots

/-- `p` makes only `NoRemoval` calls, whatever it is answered (every environment, sane or not) -/
abbrev NR {α : Type} (p : Prog α) : Prop := Prog.AllCalls' NoRemoval p

namespace NR

theorem bind {α β : Type} {p : Prog α} {f : α → Prog β} (hp : NR p) (hf : ∀ a, NR (f a)) :
    NR (Prog.bind p f) := Prog.allCalls'_bind _ p f hp hf

theorem call {α : Type} {c : Call} {k : Resp → Prog α} (hc : NoRemoval c) (hk : ∀ r, NR (k r)) :
    NR (Prog.call c k) := ⟨hc, hk⟩

theorem mbind {α β : Type} {p : M α} {f : α → M β} (hp : NR p) (hf : ∀ a, NR (f a)) :
    NR (M.bind' p f) := by
  unfold M.bind'
  apply bind hp
  intro r
  cases r with
  | ok a => exact hf a
  | error e => exact trivial

theorem lift {α : Type} {p : Prog α} (hp : NR p) : NR (M.lift p) := by
  unfold M.lift
  exact bind hp (fun _ => trivial)

theorem mcall {c : Call} (hc : NoRemoval c) : NR (M.call c) := by
  unfold M.call Prog.perform
  exact lift ⟨hc, fun _ => trivial⟩

theorem ofExcept {α : Type} (x : Except Err α) : NR (M.ofExcept x) := by
  cases x <;> exact trivial

theorem onErr {α : Type} {p : M α} {c : Prog Unit} (hp : NR p) (hc : NR c) : NR (M.onErr p c) := by
  unfold M.onErr
  apply bind hp
  intro r
  cases r with
  | ok a => exact trivial
  | error e => exact bind hc (fun _ => trivial)

theorem try' {α : Type} {p : M α} (hp : NR p) : NR (M.try' p) := by
  unfold M.try'
  apply bind hp
  intro r
  cases r with
  | ok a => exact trivial
  | error e => dsimp only; split <;> exact trivial

theorem isOk {α : Type} {p : M α} (hp : NR p) : NR (M.isOk p) := by
  unfold M.isOk
  apply mbind (try' hp)
  intro r
  cases r <;> exact trivial

end NR

namespace NR

theorem pure {α : Type} (a : α) : NR (Pure.pure a : M α) := trivial
theorem throw {α : Type} (e : Err) : NR (MonadExcept.throw e : M α) := trivial
theorem ret {α : Type} (a : α) : NR (Prog.ret a) := trivial

end NR

/-- extensible: the lemmas about the programs of the library -/
syntax "nr_lemma" : tactic
macro_rules | `(tactic| nr_lemma) => `(tactic| assumption)

/-- one structural step (syntactic: nothing is unfolded) -/
macro "nr_step" : tactic => `(tactic| first
  | with_reducible exact NR.pure _
  | with_reducible exact NR.throw _
  | with_reducible exact NR.ret _
  | with_reducible exact NR.ofExcept _
  | nr_lemma
  | with_reducible apply NR.mbind
  | with_reducible apply NR.onErr
  | with_reducible apply NR.try'
  | with_reducible apply NR.isOk
  | with_reducible apply NR.lift
  | ((with_reducible refine NR.mcall ?_); (first | exact trivial | assumption))
  | intro _
  | dsimp only
  | split)

macro "nr_norm" : tactic =>
  `(tactic| try simp only [M.bind_def, M.liftM_except, M.monadLift_except, KEffect.liftM_prog, KEffect.monadLift_prog])

syntax "nr" (" [" term,* "]")? : tactic
macro_rules
  | `(tactic| nr) => `(tactic| (nr_norm; repeat nr_step))
  | `(tactic| nr [$ts,*]) => do
      let alts ← ts.getElems.mapM fun t => `(tactic| with_reducible apply $t)
      let alts := alts.push (← `(tactic| nr_step))
      `(tactic| (nr_norm; repeat (first $[| $alts:tactic]*)))

/-! ### the wrappers -/

theorem gettid_nr : NR Sys.gettid := by
  unfold Sys.gettid
  refine ⟨trivial, fun r => ?_⟩
  dsimp only
  split <;> exact trivial

theorem geteuid_nr : NR Sys.geteuid := by
  unfold Sys.geteuid
  refine ⟨trivial, fun r => ?_⟩
  dsimp only
  split <;> exact trivial

theorem freeze_probe_nr : ∀ cands, NR (Sys.freeze.probe cands) := by
  intro cands
  induction cands with
  | nil => rw [Sys.freeze.probe.eq_1]; exact trivial
  | cons cand rest ih =>
    rw [Sys.freeze.probe.eq_2]
    refine ⟨trivial, fun r => ?_⟩
    dsimp only
    split
    · exact ih
    · exact trivial

theorem freeze_nr (fd : Fd) : NR (Sys.freeze fd) := by
  unfold Sys.freeze
  apply NR.bind gettid_nr
  intro tid
  apply NR.bind (freeze_probe_nr _)
  intro x
  split
  · exact trivial
  · exact ⟨trivial, fun _ => trivial⟩

theorem failWith_go_nr {α : Type} (e : Nat) : ∀ fds, NR (Sys.failWith.go (α := α) e fds) := by
  intro fds
  induction fds with
  | nil => unfold Sys.failWith.go; exact trivial
  | cons fd rest ih =>
    unfold Sys.failWith.go
    apply NR.bind (freeze_nr fd)
    intro _
    exact ih

theorem failWith_nr {α : Type} (fds : List Fd) (e : Nat) : NR (Sys.failWith (α := α) fds e) := by
  unfold Sys.failWith
  exact failWith_go_nr e fds

macro_rules | `(tactic| nr_lemma) => `(tactic| with_reducible exact failWith_nr _ _)
macro_rules | `(tactic| nr_lemma) => `(tactic| with_reducible exact freeze_nr _)
macro_rules | `(tactic| nr_lemma) => `(tactic| with_reducible exact gettid_nr)
macro_rules | `(tactic| nr_lemma) => `(tactic| with_reducible exact geteuid_nr)
theorem openatFollow_nr (dir : Fd) (name : Bytes) (flags mode : Nat) :
    NR (Sys.openatFollow dir name flags mode) := by
  unfold Sys.openatFollow
  nr

theorem openat_nr (dir : Fd) (name : Bytes) (flags mode : Nat) : NR (Sys.openat dir name flags mode) := by
  unfold Sys.openat
  exact openatFollow_nr _ _ _ _

macro_rules | `(tactic| nr_lemma) => `(tactic| with_reducible exact openat_nr _ _ _ _)
macro_rules | `(tactic| nr_lemma) => `(tactic| with_reducible exact openatFollow_nr _ _ _ _)

theorem openat2_nr (dir : Fd) (path : Bytes) (flags resolve : Nat) : NR (Sys.openat2 dir path flags resolve) := by
  unfold Sys.openat2
  nr

theorem readlinkat_nr (dir : Fd) (name : Bytes) : NR (Sys.readlinkat dir name) := by
  unfold Sys.readlinkat
  nr

theorem fstatat_nr (dir : Fd) (name : Bytes) : NR (Sys.fstatat dir name) := by
  unfold Sys.fstatat
  nr

theorem existsAt_nr (dir : Fd) (name : Bytes) : NR (Sys.existsAt dir name) := by
  unfold Sys.existsAt
  split
  · exact trivial
  · refine ⟨trivial, fun r => ?_⟩
    dsimp only
    split <;> exact trivial

theorem statx_nr (dir : Fd) (name : Bytes) (mask : Nat) : NR (Sys.statx dir name mask) := by
  unfold Sys.statx
  nr

theorem fstatfs_nr (fd : Fd) : NR (Sys.fstatfs fd) := by
  unfold Sys.fstatfs
  nr

theorem unitCall_nr (c : Call) (fds : List Fd) (site : String) (hc : NoRemoval c) :
    NR (Sys.unitCall c fds site) := by
  unfold Sys.unitCall
  nr

theorem close_nr (fd : Fd) : NR (Sys.close fd) := ⟨trivial, fun _ => trivial⟩

theorem closeAll_nr (fds : List Fd) : NR (Sys.closeAll fds) := by
  unfold Sys.closeAll
  generalize fds.eraseDups = l
  induction l with
  | nil => exact trivial
  | cons fd rest ih => exact NR.bind (close_nr fd) (fun _ => ih)

theorem dup_nr (fd : Fd) : NR (Sys.dup fd) := by
  unfold Sys.dup
  nr

theorem fsopen_nr (t : Bytes) (f : Nat) : NR (Sys.fsopen t f) := by
  unfold Sys.fsopen
  nr

theorem fsconfigSetString_nr (fd : Fd) (k v : Bytes) : NR (Sys.fsconfigSetString fd k v) := by
  unfold Sys.fsconfigSetString
  have := unitCall_nr (.fsconfigSetString fd k v) [fd] "fsconfig_set_string" trivial
  nr

theorem fsconfigCreate_nr (fd : Fd) : NR (Sys.fsconfigCreate fd) := by
  unfold Sys.fsconfigCreate
  have := unitCall_nr (.fsconfigCreate fd) [fd] "fsconfig_create" trivial
  nr

theorem fsmount_nr (fd : Fd) (f a : Nat) : NR (Sys.fsmount fd f a) := by
  unfold Sys.fsmount
  nr

theorem openTree_nr (dir : Fd) (path : Bytes) (flags : Nat) : NR (Sys.openTree dir path flags) := by
  unfold Sys.openTree
  nr

theorem releaseMany_nr (a b : List Fd) : NR (Opath.releaseMany a b) := by
  unfold Opath.releaseMany
  exact closeAll_nr _

macro_rules | `(tactic| nr_lemma) => `(tactic| with_reducible exact openat2_nr _ _ _ _)
macro_rules | `(tactic| nr_lemma) => `(tactic| with_reducible exact readlinkat_nr _ _)
macro_rules | `(tactic| nr_lemma) => `(tactic| with_reducible exact fstatat_nr _ _)
macro_rules | `(tactic| nr_lemma) => `(tactic| with_reducible exact existsAt_nr _ _)
macro_rules | `(tactic| nr_lemma) => `(tactic| with_reducible exact statx_nr _ _ _)
macro_rules | `(tactic| nr_lemma) => `(tactic| with_reducible exact fstatfs_nr _)
macro_rules | `(tactic| nr_lemma) => `(tactic| with_reducible exact close_nr _)
macro_rules | `(tactic| nr_lemma) => `(tactic| with_reducible exact closeAll_nr _)
macro_rules | `(tactic| nr_lemma) => `(tactic| with_reducible exact releaseMany_nr _ _)
macro_rules | `(tactic| nr_lemma) => `(tactic| with_reducible exact dup_nr _)
macro_rules | `(tactic| nr_lemma) => `(tactic| with_reducible exact fsopen_nr _ _)
macro_rules | `(tactic| nr_lemma) => `(tactic| with_reducible exact fsconfigSetString_nr _ _ _)
macro_rules | `(tactic| nr_lemma) => `(tactic| with_reducible exact fsconfigCreate_nr _)
macro_rules | `(tactic| nr_lemma) => `(tactic| with_reducible exact fsmount_nr _ _ _)
macro_rules | `(tactic| nr_lemma) => `(tactic| with_reducible exact openTree_nr _ _ _)

/-! ### the procfs layer -/

theorem intoPath_probe_nr (root : Fd) (cands : List Bytes) : NR (Procfs.intoPath.probe root cands) := by
  induction cands with
  | nil => unfold Procfs.intoPath.probe; exact trivial
  | cons c rest ih =>
    unfold Procfs.intoPath.probe
    nr [ih]

theorem intoPath_nr (base : Procfs.Base) (root : Fd) : NR (Procfs.intoPath base root) := by
  unfold Procfs.intoPath
  nr [intoPath_probe_nr]

theorem fetchMntId_nr (dir : Fd) (path : Bytes) : NR (Procfs.fetchMntId dir path) := by
  unfold Procfs.fetchMntId
  nr

macro_rules | `(tactic| nr_lemma) => `(tactic| with_reducible exact intoPath_nr _ _)
macro_rules | `(tactic| nr_lemma) => `(tactic| with_reducible exact fetchMntId_nr _ _)

theorem verifySameMnt_nr (m : Option Nat) (dir : Fd) (path : Bytes) : NR (Procfs.verifySameMnt m dir path) := by
  unfold Procfs.verifySameMnt
  nr

theorem verifyIsProcfs_nr (fd : Fd) : NR (Procfs.verifyIsProcfs fd) := by
  unfold Procfs.verifyIsProcfs
  nr

macro_rules | `(tactic| nr_lemma) => `(tactic| with_reducible exact verifySameMnt_nr _ _ _)
macro_rules | `(tactic| nr_lemma) => `(tactic| with_reducible exact verifyIsProcfs_nr _)

theorem verifySameProcfsMnt_nr (h : ProcH) (fd : Fd) : NR (Procfs.verifySameProcfsMnt h fd) := by
  unfold Procfs.verifySameProcfsMnt
  nr

macro_rules | `(tactic| nr_lemma) => `(tactic| with_reducible exact verifySameProcfsMnt_nr _ _)

theorem openat2Resolve_nr (env : Env) (root : Fd) (path : Bytes) (oflags rflags : Nat) :
    NR (Procfs.openat2Resolve env root path oflags rflags) := by
  unfold Procfs.openat2Resolve
  nr

theorem opathFinal_nr (m : Option Nat) (oflags : Nat) (cur next : Fd) (part : Bytes) (isLink : Bool) :
    NR (Procfs.opathFinal m oflags cur next part isLink) := by
  unfold Procfs.opathFinal
  nr

theorem opathLoop_nr (m : Option Nat) (oflags rflags : Nat) (cur : Fd) (rem : List Bytes) (links : Nat) :
    NR (Procfs.opathLoop m oflags rflags cur rem links) := by
  have hfin := fun cur next part isLink => opathFinal_nr m oflags cur next part isLink
  fun_induction Procfs.opathLoop m oflags rflags cur rem links with
  | case1 cur links => exact trivial
  | case2 cur links part0 rest part hdd => nr
  | case3 cur links part0 rest part hdd ih1 ih2 =>
    nr [hfin, ih1, ih2]

theorem opathResolve_nr (root : Fd) (path : Bytes) (oflags rflags : Nat) :
    NR (Procfs.opathResolve root path oflags rflags) := by
  unfold Procfs.opathResolve
  have := fun m cur rem links => opathLoop_nr m oflags rflags cur rem links
  nr [this]

theorem procfs_resolve_nr (env : Env) (emulated : Bool) (root : Fd) (path : Bytes) (oflags rflags : Nat) :
    NR (Procfs.resolve env emulated root path oflags rflags) := by
  unfold Procfs.resolve
  split
  · exact trivial
  · split
    · exact opathResolve_nr root path oflags rflags
    · exact openat2Resolve_nr env root path oflags rflags

macro_rules | `(tactic| nr_lemma) => `(tactic| with_reducible exact procfs_resolve_nr _ _ _ _ _ _)

theorem fstatOrPanic_nr (inner : Fd) : NR (Procfs.fstatOrPanic inner) := by
  unfold Procfs.fstatOrPanic
  nr

theorem missing_nr (inner : Fd) (name : Bytes) : NR (Procfs.missing inner name) := by
  unfold Procfs.missing
  nr

theorem probeSubset_nr (inner : Fd) : NR (Procfs.probeSubset inner) := by
  unfold Procfs.probeSubset
  nr [missing_nr]

macro_rules | `(tactic| nr_lemma) => `(tactic| with_reducible exact fstatOrPanic_nr _)
macro_rules | `(tactic| nr_lemma) => `(tactic| with_reducible exact probeSubset_nr _)

theorem tryFromFd_nr (env : Env) (inner : Fd) : NR (Procfs.tryFromFd env inner) := by
  unfold Procfs.tryFromFd
  nr

macro_rules | `(tactic| nr_lemma) => `(tactic| with_reducible exact tryFromFd_nr _ _)

theorem setSubsetOptions_nr (sfd : Fd) (subset : Bool) : NR (Procfs.setSubsetOptions sfd subset) := by
  unfold Procfs.setSubsetOptions
  nr

macro_rules | `(tactic| nr_lemma) => `(tactic| with_reducible exact setSubsetOptions_nr _ _)

theorem newFsopen_nr (env : Env) (subset : Bool) : NR (Procfs.newFsopen env subset) := by
  unfold Procfs.newFsopen
  nr

theorem newOpenTree_nr (env : Env) (flags : Nat) : NR (Procfs.newOpenTree env flags) := by
  unfold Procfs.newOpenTree
  nr

theorem newUnsafeOpen_nr (env : Env) : NR (Procfs.newUnsafeOpen env) := by
  unfold Procfs.newUnsafeOpen
  nr

theorem orElse_nr {α : Type} {p q : M α} (hp : NR p) (hq : NR q) : NR (Procfs.orElse p q) := by
  unfold Procfs.orElse
  nr

theorem newUnmasked_nr (env : Env) : NR (Procfs.newUnmasked env) := by
  unfold Procfs.newUnmasked
  exact orElse_nr (newFsopen_nr env false) (orElse_nr (newOpenTree_nr env _) (newUnsafeOpen_nr env))

theorem new_nr (env : Env) : NR (Procfs.new env) := by
  unfold Procfs.new
  exact orElse_nr (newFsopen_nr env true) (orElse_nr (newOpenTree_nr env _) (newUnsafeOpen_nr env))

macro_rules | `(tactic| nr_lemma) => `(tactic| with_reducible exact newUnmasked_nr _)

theorem openBase_nr (env : Env) (h : ProcH) (base : Procfs.Base) : NR (Procfs.openBase env h base) := by
  unfold Procfs.openBase
  nr

theorem lookupVerified_nr (env : Env) (h : ProcH) (basedir : Fd) (subpath : Bytes) (oflags : Nat) :
    NR (Procfs.lookupVerified env h basedir subpath oflags) := by
  unfold Procfs.lookupVerified
  nr

macro_rules | `(tactic| nr_lemma) => `(tactic| with_reducible exact openBase_nr _ _ _)
macro_rules | `(tactic| nr_lemma) => `(tactic| with_reducible exact lookupVerified_nr _ _ _ _ _)

theorem retryUnmasked_nr (env : Env) (again : ProcH → M Fd) (basedir : Fd) (e : Err)
    (hagain : ∀ h2, NR (again h2)) : NR (Procfs.retryUnmasked env again basedir e) := by
  unfold Procfs.retryUnmasked
  nr [hagain]

theorem openStep_nr (env : Env) (again : ProcH → Nat → M Fd) (h : ProcH) (base : Procfs.Base)
    (subpath : Bytes) (oflags : Nat) (hagain : ∀ h2 fl, NR (again h2 fl)) :
    NR (Procfs.openStep env again h base subpath oflags) := by
  unfold Procfs.openStep
  nr [retryUnmasked_nr, hagain]

theorem openH_nr (env : Env) (fuel : Nat) : ∀ (h : ProcH) (base : Procfs.Base) (subpath : Bytes) (oflags : Nat),
    NR (Procfs.openH env fuel h base subpath oflags) := by
  induction fuel with
  | zero => intro h base subpath oflags; unfold Procfs.openH; exact trivial
  | succ n ih =>
    intro h base subpath oflags
    unfold Procfs.openH
    exact openStep_nr env _ h base subpath oflags (fun h2 fl => ih h2 base subpath fl)

macro_rules | `(tactic| nr_lemma) => `(tactic| with_reducible exact openH_nr _ _ _ _ _ _)

theorem readlinkH_nr (env : Env) (h : ProcH) (base : Procfs.Base) (subpath : Bytes) :
    NR (Procfs.readlinkH env h base subpath) := by
  unfold Procfs.readlinkH
  nr

theorem asUnsafePath_nr (env : Env) (fd : Fd) : NR (Procfs.asUnsafePath env fd) := by
  unfold Procfs.asUnsafePath
  nr [readlinkH_nr]

theorem isMagiclinkFilesystem_nr (fd : Fd) : NR (Procfs.isMagiclinkFilesystem fd) := by
  unfold Procfs.isMagiclinkFilesystem
  nr

macro_rules | `(tactic| nr_lemma) => `(tactic| with_reducible exact asUnsafePath_nr _ _)
macro_rules | `(tactic| nr_lemma) => `(tactic| with_reducible exact isMagiclinkFilesystem_nr _)

/-! ### the emulated resolver -/

theorem checkCurrent_nr (env : Env) (cur root : Fd) (expected : List Bytes) :
    NR (Opath.checkCurrent env cur root expected) := by
  unfold Opath.checkCurrent
  nr

theorem mayFollowLink_nr (env : Env) (dir link : Fd) : NR (Opath.mayFollowLink env dir link) := by
  unfold Opath.mayFollowLink
  nr

macro_rules | `(tactic| nr_lemma) => `(tactic| with_reducible exact checkCurrent_nr _ _ _ _)
macro_rules | `(tactic| nr_lemma) => `(tactic| with_reducible exact mayFollowLink_nr _ _ _)

theorem exitPartial_nr (cfg : Opath.WalkCfg) (st : Opath.WalkSt) (extra : List Fd) (rem : Bytes) (e : Err) :
    NR (Opath.exitPartial cfg st extra rem e) := by
  unfold Opath.exitPartial
  nr

macro_rules | `(tactic| nr_lemma) => `(tactic| with_reducible exact exitPartial_nr _ _ _ _ _)

theorem walk_nr (env : Env) (cfg : Opath.WalkCfg) (st : Opath.WalkSt) : NR (Opath.walk env cfg st) := by
  fun_induction Opath.walk env cfg st with
  | case1 st hrem' => nr
  | case2 => nr
  | case3 st part0 rest hrem' remaining hdd stack' ih => nr [ih]
  | case4 st part0 rest hrem' remaining hdd part expected' ih1 ih2 =>
    simp only [dite_eq_ite] at ih2
    nr [ih1, ih2]

theorem doResolve_nr (env : Env) (root : Fd) (path : Bytes) (rflags : Nat) (nofollow useStack : Bool) :
    NR (Opath.doResolve env root path rflags nofollow useStack) := by
  unfold Opath.doResolve
  nr [walk_nr]

theorem opath_resolve_nr (env : Env) (root : Fd) (path : Bytes) (rflags : Nat) (nofollow : Bool) :
    NR (Opath.resolve env root path rflags nofollow) := by
  unfold Opath.resolve
  have := doResolve_nr env root path rflags nofollow false
  nr

/-! ### the kernel resolver -/

theorem resolveLoop_nr (root : Fd) (path : Bytes) (oflags resolve : Nat) (n : Nat) :
    NR (Openat2.resolveLoop root path oflags resolve n) := by
  induction n with
  | zero => unfold Openat2.resolveLoop; exact trivial
  | succ n ih =>
    unfold Openat2.resolveLoop
    nr [ih]

theorem openat2_resolve_nr (env : Env) (root : Fd) (path : Bytes) (rflags : Nat) (nofollow : Bool) :
    NR (Openat2.resolve env root path rflags nofollow) := by
  unfold Openat2.resolve
  nr [resolveLoop_nr]

/-- **the lookup never removes, creates, renames or scans**: `Root::resolve`, on either backend and whatever it is
answered, makes no `unlinkat`, no directory-stream call and no other entry-changing call -/
theorem resolve_nr (env : Env) (r : Resolver) (root : Fd) (path : Bytes) (nofollow : Bool) :
    NR (Resolver.resolve env r root path nofollow) := by
  unfold Resolver.resolve
  split
  · exact opath_resolve_nr env root path r.rflags nofollow
  · exact openat2_resolve_nr env root path r.rflags nofollow

/-! ## generic facts: `AllCalls'`, `Safe`, `Runs` -/

theorem allCalls'_mono {α : Type} {D D' : Call → Prop} (hd : ∀ c, D c → D' c) {p : Prog α}
    (h : Prog.AllCalls' D p) : Prog.AllCalls' D' p := by
  induction p with
  | ret a => exact trivial
  | call c k ih => exact ⟨hd c h.1, fun r => ih r (h.2 r)⟩

theorem allCalls'_and {α : Type} {D D' : Call → Prop} {p : Prog α}
    (h : Prog.AllCalls' D p) (h' : Prog.AllCalls' D' p) : Prog.AllCalls' (fun c => D c ∧ D' c) p := by
  induction p with
  | ret a => exact trivial
  | call c k ih => exact ⟨⟨h.1, h'.1⟩, fun r => ih r (h.2 r) (h'.2 r)⟩

/-- monotonicity of `Safe` in the predicate on calls -/
theorem safe_monoD {α : Type} {D D' : Call → Prop} (hd : ∀ c, D c → D' c) {p : Prog α} {Q : α → Prop}
    (h : Safe D p Q) : Safe D' p Q := by
  induction p with
  | ret a => exact h
  | call c k ih => exact ⟨hd c h.1, fun r hr => ih r (h.2 r hr)⟩

/-- a `Safe` statement and an all-answers statement about the same program combine -/
theorem safe_and_allCalls' {α : Type} {D D' : Call → Prop} {p : Prog α} {Q : α → Prop}
    (h : Safe D p Q) (h' : Prog.AllCalls' D' p) : Safe (fun c => D c ∧ D' c) p Q := by
  induction p with
  | ret a => exact h
  | call c k ih => exact ⟨⟨h.1, h'.1⟩, fun r hr => ih r (h.2 r hr) (h'.2 r)⟩

theorem safe_of_allCalls' {α : Type} {D : Call → Prop} {p : Prog α} (h : Prog.AllCalls' D p) :
    Safe D p (fun _ => True) := by
  induction p with
  | ret a => exact trivial
  | call c k ih => exact ⟨h.1, fun r _ => ih r (h.2 r)⟩

/-- every event a run appends to the history is a call the program is allowed to make -/
theorem allCalls'_runs {α : Type} {D : Call → Prop} {p : Prog α} (hp : Prog.AllCalls' D p)
    {h h' : Hist} {a : α} (hr : Runs p h h' a) : ∃ t, h' = h ++ t ∧ ∀ cr ∈ t, D cr.1 := by
  induction hr with
  | ret a h => exact ⟨[], by simp, fun _ hcr => by cases hcr⟩
  | call c k r h h' a _ ih =>
    obtain ⟨t, ht, hall⟩ := ih (hp.2 r)
    refine ⟨(c, r) :: t, by rw [ht]; simp, ?_⟩
    intro cr hcr
    rcases List.mem_cons.mp hcr with rfl | hm
    · exact hp.1
    · exact hall cr hm

/-! ## `Root::remove_all` with a final `.` or `..` -/

/-- **`remove_all` of a path whose final component is `.` or `..` is, as a program, the parent lookup, the `close`
of the parent and `InvalidArgument`** — the same program as for a trailing slash
(`C03_trailing_slash_remove_all`): `RemoveAll.removeAll` is entered and refuses the name before its first call. -/
theorem C13_root_dots_eq (env : Env) (root : Root) (path parent name : Bytes)
    (hsplit : Path.pathSplit path = .ok (parent, some name))
    (hname : name = Path.dot ∨ name = Path.dotdot) :
    Root.removeAll env root path =
      M.bind' (Resolver.resolve env root.resolver root.fd parent false) fun dir =>
        M.bind' (M.lift (Sys.close dir)) fun _ => throw .invalidArgument := by
  unfold Root.removeAll Root.resolveParent
  rw [hsplit]
  show M.bind' (M.bind' (M.ofExcept (.ok (parent, some name))) _) _ = _
  rw [M.ofExcept_ok, M.bind_ok]
  show M.bind' (M.bind' (Resolver.resolve env root.resolver root.fd parent false) _) _ = _
  rw [bind'_assoc]
  congr 1
  funext dir
  show M.bind' (M.try' (RemoveAll.removeAll (99999 + 1) dir name)) _ = _
  rw [C13_dot_refused 99999 dir name hname]
  rfl

/-- the shape of every run: either the parent lookup fails and its error is the result, with the history of the
lookup and nothing else; or it succeeds, the parent is closed, and the result is `InvalidArgument` -/
theorem C13_root_dots_runs (env : Env) (root : Root) (path parent name : Bytes)
    (hsplit : Path.pathSplit path = .ok (parent, some name))
    (hname : name = Path.dot ∨ name = Path.dotdot) {h h' : Hist} {r : Except Err Unit}
    (hr : Runs (Root.removeAll env root path) h h' r) :
    (∃ e, r = .error e ∧ Runs (Resolver.resolve env root.resolver root.fd parent false) h h' (.error e)) ∨
    (∃ dir hm rc, Runs (Resolver.resolve env root.resolver root.fd parent false) h hm (.ok dir) ∧
      h' = hm ++ [(Call.close dir, rc)] ∧ r = .error .invalidArgument) := by
  rw [C13_root_dots_eq env root path parent name hsplit hname] at hr
  rcases mbind_inv hr with ⟨hm, dir, h1, hr2⟩ | ⟨e, h1, he⟩
  · right
    rcases mbind_inv hr2 with ⟨hm2, _, h2, hr3⟩ | ⟨e, h2, _⟩
    · obtain ⟨_, hc, _⟩ := lift_inv h2
      obtain ⟨rc, hclose⟩ := close_runs hc
      obtain ⟨hh, hx⟩ := ret_inv hr3
      exact ⟨dir, hm, rc, h1, by rw [hh, hclose], hx⟩
    · obtain ⟨_, _, hx⟩ := lift_inv h2
      cases hx
  · exact Or.inl ⟨e, he, h1⟩

/-- no removing, creating, renaming or directory-scanning call, whatever the environment answers -/
theorem C13_root_dots_nr (env : Env) (root : Root) (path parent name : Bytes)
    (hsplit : Path.pathSplit path = .ok (parent, some name))
    (hname : name = Path.dot ∨ name = Path.dotdot) : NR (Root.removeAll env root path) := by
  rw [C13_root_dots_eq env root path parent name hsplit hname]
  apply NR.mbind (resolve_nr env root.resolver root.fd parent false)
  intro dir
  apply NR.mbind (NR.lift (close_nr dir))
  intro _
  exact NR.throw _

end C13Dots

open C13Dots in
/-- **`Root::remove_all` refuses a final `.` or `..`, for every environment.**  Let `path_split` cut the path into
`(parent, name)` with `name` = `.` or `..` (`C13_dots_spellings`: every spelling `…/.`, `…/..`, and the bare `.`, `..`).
Then for every run — every sequence of answers, sane or not, every racing attacker —

* (a) the result is never `Ok`: it is the error of the parent lookup if that fails, and `InvalidArgument` if it
  succeeds; the history is exactly the one of the parent lookup (`Resolver.resolve … parent`, the program of C01/C02),
  followed, if it succeeded, by the one `close` of the parent descriptor.  So after the lookup nothing is opened,
  scanned or removed below the parent;
* (b) every call made is a `NoRemoval` call: no `unlinkat` (plain or `AT_REMOVEDIR`), no `dirOpen`/`dirNext`, no
  creating or renaming call (`AllCalls'`: for all answers), and none has `O_CREAT` (`KEffect.mutates`);
* the events the run appends to the history are all of that kind. -/
theorem C13_root_dots_refused (env : Env) (root : Root) (path parent name : Bytes)
    (hsplit : Path.pathSplit path = .ok (parent, some name))
    (hname : name = Path.dot ∨ name = Path.dotdot) :
    (∀ h h' r, Runs (Root.removeAll env root path) h h' r →
      r ≠ .ok () ∧
      ((∃ e, r = .error e ∧ Runs (Resolver.resolve env root.resolver root.fd parent false) h h' (.error e)) ∨
       (∃ dir hm rc, Runs (Resolver.resolve env root.resolver root.fd parent false) h hm (.ok dir) ∧
          h' = hm ++ [(Call.close dir, rc)] ∧ r = .error .invalidArgument)) ∧
      (∃ t, h' = h ++ t ∧ ∀ cr ∈ t, NoRemoval cr.1 ∧ KEffect.mutates cr.1 = false)) ∧
    Prog.AllCalls' (fun c => NoRemoval c ∧ KEffect.mutates c = false) (Root.removeAll env root path) ∧
    Safe NoRemoval (Root.removeAll env root path) (fun r => ∃ e, r = .error e) := by
  have hall : Prog.AllCalls' (fun c => NoRemoval c ∧ KEffect.mutates c = false) (Root.removeAll env root path) := by
    refine allCalls'_and (C13_root_dots_nr env root path parent name hsplit hname) ?_
    rw [C13_root_dots_eq env root path parent name hsplit hname]
    apply KEffect.NM.mbind (KEffect.resolve_noMut env root.resolver root.fd parent false)
    intro dir
    apply KEffect.NM.mbind (KEffect.NM.lift (KEffect.close_nm dir))
    intro _
    exact KEffect.NM.throw _
  have hshape := fun h h' r (hr : Runs (Root.removeAll env root path) h h' r) =>
    C13_root_dots_runs env root path parent name hsplit hname hr
  refine ⟨fun h h' r hr => ⟨?_, hshape h h' r hr, allCalls'_runs hall hr⟩, hall, ?_⟩
  · rcases hshape h h' r hr with ⟨e, he, _⟩ | ⟨_, _, _, _, _, he⟩ <;> rw [he] <;> intro hc <;> cases hc
  · rw [C13_root_dots_eq env root path parent name hsplit hname]
    apply Safe.mbind (Q' := fun _ => True)
      (safe_of_allCalls' (resolve_nr env root.resolver root.fd parent false))
    · intro dir _
      apply Safe.mbind (Q' := fun _ => True) (Safe.mlift (safe_of_allCalls' (close_nr dir)))
      · intro _ _; exact ⟨_, rfl⟩
      · intro e _; exact ⟨e, rfl⟩
    · intro e _; exact ⟨e, rfl⟩

open C13Dots in
/-- the same with the syscall discipline of C05 (`Disc false`: every call names a single component below a real
descriptor, every `openat` has `O_NOFOLLOW`): for roots and procfs handles that are real descriptors, under every
sane environment each call is disciplined *and* a `NoRemoval` call -/
theorem C13_root_dots_disciplined (env : Env) (root : Root) (path parent name : Bytes)
    (hsplit : Path.pathSplit path = .ok (parent, some name))
    (hname : name = Path.dot ∨ name = Path.dotdot) (hr : 0 ≤ root.fd) (hp : 0 ≤ env.proc.fd) :
    Safe (fun c => Disc false c ∧ NoRemoval c) (Root.removeAll env root path) (fun r => ∃ e, r = .error e) := by
  refine safe_and_allCalls' ?_ (C13_root_dots_nr env root path parent name hsplit hname)
  rw [C13_root_dots_eq env root path parent name hsplit hname]
  apply Safe.mbind (Q' := fun _ => True)
    (Safe.weaken (resolver_resolve_safe env root.resolver root.fd parent false hr hp))
  · intro dir _
    exact G.lift_then_throw (fun e => ⟨e, rfl⟩) (close_safe dir)
  · intro e _; exact ⟨e, rfl⟩

/-! ## which spellings have a final `.` / `..`

`Root::remove_all` hands the path to `path_split` as it is (no `path_strip_trailing_slash`, no normalisation), and
`path_split` cuts at the **last** slash.  So the final name is whatever follows the last slash, for every prefix. -/

namespace C13Dots

open Path in
/-- `path_split` of `pre/name` for a non-empty slash-free `name`, for **every** `pre` (empty, absolute, with `..`,
with doubled or trailing slashes, with NUL bytes): the name is `name`, the parent is `pre` (`/` for the empty one) -/
theorem pathSplit_slash_name (pre name : Bytes) (hne : name ≠ []) (hns : containsSlash name = false) :
    pathSplit (pre ++ slash :: name) = .ok (if pre = [] then [slash] else pre, some name) := by
  have hanc : ∃ rest, partialAncestors (pre ++ slash :: name) =
      (if pre = [] then [slash] else pre, some name) :: rest := by
    unfold partialAncestors
    rw [Ancestors.ancestorsAux_some (pre ++ slash :: name) _ none pre.length pre name
      (Ancestors.rposSlash_append pre name hns) (List.take_left ..) (List.drop_left ..)]
    simp only [hne, ↓reduceIte]
    generalize (if pre = [] then [slash] else pre) = anc
    split
    · exact ⟨_, rfl⟩
    · exact ⟨_, rfl⟩
  obtain ⟨rest, hrest⟩ := hanc
  unfold pathSplit
  rw [hrest]
  simp only [hne, hns, ↓reduceIte, Bool.false_eq_true]

open Path in
/-- `path_split` of a bare non-empty slash-free name: the parent is `.` -/
theorem pathSplit_bare (name : Bytes) (hne : name ≠ []) (hns : containsSlash name = false) :
    pathSplit name = .ok (dot, some name) := by
  have hanc : partialAncestors name = [(dot, some name)] := by
    unfold partialAncestors
    rw [Ancestors.ancestorsAux_none name _ none (Ancestors.rposSlash_noslash name hns)]
    simp only [hne, ↓reduceIte]
  unfold pathSplit
  rw [hanc]
  simp only [hne, hns, ↓reduceIte, Bool.false_eq_true]

open Path in
/-- a successful split with a name shows the first entry of the `Ancestors` iterator -/
theorem pathSplit_head {p parent name : Bytes} (h : pathSplit p = .ok (parent, some name)) :
    ∃ rest, partialAncestors p = (parent, some name) :: rest := by
  unfold pathSplit at h
  split at h
  · cases h
  · rename_i dir base rest heq
    split at h
    · cases h
    · rename_i b
      split at h
      · cases h
      · split at h
        · cases h
        · cases h; exact ⟨rest, heq⟩

end C13Dots

open C13Dots in
/-- **every spelling `pre/.` and `pre/..` (any `pre`, no side condition) and the bare `.` and `..` split into a final
name `.` / `..`**, so `C13_root_dots_refused` applies to all of them.  (A trailing slash after the dots — `a/./` —
splits into `(a/., none)` instead and is refused by the trailing-slash rule, `C03_trailing_slash_remove_all`.) -/
theorem C13_dots_spellings (pre : Bytes) :
    Path.pathSplit (pre ++ b!"/.") = .ok (if pre = [] then b!"/" else pre, some Path.dot) ∧
    Path.pathSplit (pre ++ b!"/..") = .ok (if pre = [] then b!"/" else pre, some Path.dotdot) ∧
    Path.pathSplit b!"." = .ok (b!".", some Path.dot) ∧
    Path.pathSplit b!".." = .ok (b!".", some Path.dotdot) :=
  ⟨pathSplit_slash_name pre Path.dot (by decide) (by decide),
   pathSplit_slash_name pre Path.dotdot (by decide) (by decide),
   pathSplit_bare Path.dot (by decide) (by decide),
   pathSplit_bare Path.dotdot (by decide) (by decide)⟩

open Path in
/-- conversely the hypothesis of `C13_root_dots_refused` holds for *no other* paths: a path whose split has the final
name `name` is `name` itself or ends in `/name` — for `.`/`..`: it is `.`/`..` or ends in `/.` / `/..` -/
theorem C13_dots_spellings_only (path parent name : Bytes)
    (hsplit : pathSplit path = .ok (parent, some name)) :
    path = name ∨ ∃ pre, path = pre ++ slash :: name := by
  obtain ⟨rest, hhead⟩ := C13Dots.pathSplit_head hsplit
  rw [Ancestors.partialAncestors_eq] at hhead
  have hjoin : joinSlash (rawComponents path) = path := Ancestors.joinSlash_splitSlash path
  generalize rawComponents path = comps at hhead hjoin
  rcases hn : comps.length with _ | _ | k
  · rw [hn] at hhead; cases hhead
  · left
    rw [hn, Ancestors.ancSpec, hjoin] at hhead
    by_cases hp : path = []
    · simp [hp] at hhead
    · simp only [hp, ↓reduceIte, List.cons.injEq, Prod.mk.injEq, Option.some.injEq] at hhead
      exact hhead.1.2
  · right
    have htake : comps.take (k + 1) ≠ [] := by
      intro h; have := congrArg List.length h; simp [hn] at this
    have hdrop : comps.drop (k + 1) ≠ [] := by
      intro h; have := congrArg List.length h; simp [hn] at this
    have hpath : path = joinSlash (comps.take (k + 1)) ++ slash :: joinSlash (comps.drop (k + 1)) := by
      rw [← Ancestors.joinSlash_append htake hdrop, List.take_append_drop, hjoin]
    rw [hn, Ancestors.ancSpec] at hhead
    have hrem : (if joinSlash (comps.drop (k + 1)) = [] then none else some (joinSlash (comps.drop (k + 1)))) =
        some name := by
      generalize (if joinSlash (comps.take (k + 1)) = [] then [slash] else joinSlash (comps.take (k + 1))) = anc
        at hhead
      generalize (if joinSlash (comps.drop (k + 1)) = [] then none else some (joinSlash (comps.drop (k + 1)))) = rem
        at hhead ⊢
      by_cases hc : anc = dot ∨ anc = [slash]
      · rw [if_pos hc] at hhead
        simp only [List.cons.injEq, Prod.mk.injEq] at hhead; exact hhead.1.2
      · rw [if_neg hc] at hhead
        simp only [List.cons.injEq, Prod.mk.injEq] at hhead; exact hhead.1.2
    by_cases ht : joinSlash (comps.drop (k + 1)) = []
    · simp [ht] at hrem
    · simp only [ht, ↓reduceIte, Option.some.injEq] at hrem
      exact ⟨_, by rw [← hrem]; exact hpath⟩

example : Path.pathSplit b!"." = .ok (b!".", some Path.dot) := by rfl
example : Path.pathSplit b!".." = .ok (b!".", some Path.dotdot) := by rfl
example : Path.pathSplit b!"a/." = .ok (b!"a", some Path.dot) := by rfl
example : Path.pathSplit b!"a/.." = .ok (b!"a", some Path.dotdot) := by rfl
example : Path.pathSplit b!"/.." = .ok (b!"/", some Path.dotdot) := by rfl
example : Path.pathSplit b!"a/b/../." = .ok (b!"a/b/..", some Path.dot) := by rfl
/-- a trailing slash after the dots is the trailing-slash case, not this one -/
example : Path.pathSplit b!"a/./" = .ok (b!"a/.", none) := by rfl

/-! ## Non-vacuity -/

/-- `remove_all("a/.")` never succeeds, in any environment -/
example (env : Env) (root : Root) {h h' : Hist} {r : Except Err Unit}
    (hr : Runs (Root.removeAll env root b!"a/.") h h' r) : r ≠ .ok () :=
  ((C13_root_dots_refused env root b!"a/." b!"a" Path.dot (by rfl) (Or.inl rfl)).1 h h' r hr).1

/-- … and every call it makes, whatever it is answered, is a `NoRemoval` call -/
example (env : Env) (root : Root) : Prog.AllCalls' NoRemoval (Root.removeAll env root b!"a/.") :=
  C13Dots.allCalls'_mono (fun _ hc => hc.1)
    (C13_root_dots_refused env root b!"a/." b!"a" Path.dot (by rfl) (Or.inl rfl)).2.1

/-- the same for `a/..` and for the bare `..` (the spelling of finding F1) -/
example (env : Env) (root : Root) {h h' : Hist} {r : Except Err Unit}
    (hr : Runs (Root.removeAll env root b!"a/..") h h' r) : r ≠ .ok () :=
  ((C13_root_dots_refused env root b!"a/.." b!"a" Path.dotdot (by rfl) (Or.inr rfl)).1 h h' r hr).1
example (env : Env) (root : Root) {h h' : Hist} {r : Except Err Unit}
    (hr : Runs (Root.removeAll env root b!"..") h h' r) : r ≠ .ok () :=
  ((C13_root_dots_refused env root b!".." b!"." Path.dotdot (by rfl) (Or.inr rfl)).1 h h' r hr).1

/-- the predicate does exclude what it should -/
example : ¬ NoRemoval (.unlinkat 5 b!"x" 0) := id
example : ¬ NoRemoval (.unlinkat 5 b!"x" K.AT_REMOVEDIR) := id
example : ¬ NoRemoval (.dirOpen 5) := id
example : ¬ NoRemoval (.dirNext 5) := id
example : NoRemoval (.close 5) := trivial
/-- … and an ordinary name is *not* covered by the theorem's conclusion: `remove_all` of a proper name does unlink -/
example : ¬ Prog.AllCalls' NoRemoval (RemoveAll.removeAll 1 5 b!"x") := by
  intro h
  exact h.1

/-- the `InvalidArgument` branch is inhabited: on the kernel backend, an environment that answers the parent lookup
with descriptor 5 gives exactly `openat2(root, "a")`, `close(5)`, `InvalidArgument` -/
example : ∃ c, Runs (Root.removeAll { proc := default, openat2 := true, protectedSymlinks := 0 }
      { fd := 3, resolver := { emulated := false, rflags := 0 } } b!"a/.") []
      [(c, .fd 5), (.close 5, .unit)] (.error .invalidArgument) ∧ ∃ fl rs, c = .openat2 3 b!"a" fl 0 rs K.OPEN_HOW_SIZE :=
  ⟨_, Runs.of_trace (Root.removeAll { proc := default, openat2 := true, protectedSymlinks := 0 }
      { fd := 3, resolver := { emulated := false, rflags := 0 } } b!"a/.")
      (fun _ c => match c with | .openat2 .. => .fd 5 | _ => .unit) [], _, _, rfl⟩
