import Pathrs.Proofs.Props.C10
import Pathrs.Proofs.Props.C03
import Pathrs.Proofs.Props.C01
import Pathrs.Proofs.RunsWorld
import Pathrs.Proofs.KEffect

/-!
# C14 — single-entry operations act on exactly (in-root parent, final name)

For every environment (`Runs`): a successful `create`, `remove_file`/`remove_dir`, `rename` or
`create_file` is, call by call,

  1. the in-root resolution (follow mode) of the parent part of the path as split by `path_split`
     — `Resolver.resolve env r root parent false`, the very program C01/C02 are about —
  2. exactly one mutating `*at` call on (that descriptor, final name) which the kernel
     acknowledged (for `create_file`: one `openat` with `O_CREAT|O_NOFOLLOW|O_CLOEXEC|O_NOCTTY`
     whose answer is the descriptor returned),
  3. closing the parent descriptor(s),

and nothing else.  The final name is a single slash-free non-empty component (`pathSplit_name`)
and a trailing slash never reaches step 2 (`C03_trailing_slash_*`).  What the kernel does with
one `*at` call on an `O_PATH` directory descriptor and a single name (it never follows that
name) is the kernel's contract; the effect oracle of the check compares the whole tree.

**Effect theorems** (`C14_effect_*`, from `Proofs/KEffect.lean`): run against a well-formed world that *mutating
calls change* — what the kernel does with a mutating call (its answer and the tree afterwards) is an arbitrary
parameter `μ : MutK`, so the theorems hold for every kernel — `remove_file`/`remove_dir`, `create` (every inode type,
hard links with their second lookup), `create_file` and `rename` leave exactly the world `μ.eff w c` for the **one**
mutating call `c` on (`d`, final name), where `d` is the specification's in-root resolution of the parent path
(`World.resolveInRoot`, C01) on whichever backend is active, and return the wrapper's translation of the kernel's
answer; when the parent lookup fails, the path has a trailing slash or cannot be split, the world is unchanged.  The
lookups themselves never make a mutating call (`KEffect.resolve_noMut`, for every environment).
-/

open K Runs

/-- the shape of a successful parent resolution -/
theorem resolveParent_ok_inv {env : Env} {root : Root} {path : Bytes} {h h' : Hist} {dir : Fd} {name : Option Bytes}
    (hr : Runs (Root.resolveParent env root path) h h' (.ok (dir, name))) :
    ∃ parent, Path.pathSplit path = .ok (parent, name) ∧
      Runs (Resolver.resolve env root.resolver root.fd parent false) h h' (.ok dir) := by
  unfold Root.resolveParent at hr
  simp only [M.bind_def] at hr
  obtain ⟨hm, ⟨parent, nm⟩, h1, hr2⟩ := mbind_ok hr
  have h1' : Runs (M.ofExcept (Path.pathSplit path)) h hm (.ok (parent, nm)) := h1
  obtain ⟨hh, hs⟩ := ofExcept_inv h1'
  obtain ⟨hm2, d, h2, hr3⟩ := mbind_ok hr2
  obtain ⟨hh3, he⟩ := ret_inv hr3
  cases he
  subst hh hh3
  exact ⟨parent, hs.symm, h2⟩

/-- the final name `path_split` returns is one non-empty slash-free component -/
theorem pathSplit_name {path parent name : Bytes} (h : Path.pathSplit path = .ok (parent, some name)) :
    name ≠ [] ∧ Path.containsSlash name = false := by
  unfold Path.pathSplit at h
  split at h
  · cases h
  · rename_i dir base _
    split at h
    · cases h
    · rename_i b
      split at h
      · cases h
      · split at h
        · cases h
        · rename_i hne hns
          cases h
          exact ⟨hne, by simpa using hns⟩

theorem close_runs {fd : Fd} {h h' : Hist} {u : Unit} (hr : Runs (Sys.close fd) h h' u) :
    ∃ r, h' = h ++ [(Call.close fd, r)] := by
  unfold Sys.close at hr
  obtain ⟨r, hk⟩ := call_inv hr
  obtain ⟨hh, _⟩ := ret_inv hk
  exact ⟨r, hh⟩

theorem lift_close_runs {fd : Fd} {h h' : Hist} {x : Except Err Unit}
    (hr : Runs (liftM (Sys.close fd) : M Unit) h h' x) : ∃ r, h' = h ++ [(Call.close fd, r)] := by
  have hr' : Runs (M.lift (Sys.close fd)) h h' x := hr
  obtain ⟨_, h1, _⟩ := lift_inv hr'
  exact close_runs h1

/-- **remove_file / remove_dir**: parent resolution, one acknowledged `unlinkat(parent, name)`, close -/
theorem C14_remove_shape (env : Env) (root : Root) (path : Bytes) (isDir : Bool) {h h' : Hist}
    (hr : Runs (Root.removeInode env root path isDir) h h' (.ok ())) :
    ∃ parent name dir hm rc, Path.pathSplit path = .ok (parent, some name) ∧
      Runs (Resolver.resolve env root.resolver root.fd parent false) h hm (.ok dir) ∧
      h' = hm ++ [(Call.unlinkat dir name (if isDir then AT_REMOVEDIR else 0), Resp.unit), (Call.close dir, rc)] := by
  unfold Root.removeInode at hr
  simp only [M.bind_def] at hr
  obtain ⟨hm, ⟨dir, name⟩, h1, hr2⟩ := mbind_ok hr
  obtain ⟨parent, hsplit, hres⟩ := resolveParent_ok_inv h1
  cases name with
  | none =>
    simp only [] at hr2
    obtain ⟨_, _, _, hr3⟩ := mbind_ok hr2
    obtain ⟨_, he⟩ := ret_inv hr3; cases he
  | some name =>
    simp only [] at hr2
    obtain ⟨hm2, x, h2, hr3⟩ := mbind_ok hr2
    obtain ⟨y, hy, hcase⟩ := try_inv h2
    obtain ⟨hm3, _, h3, hr4⟩ := mbind_ok hr3
    obtain ⟨rc, hclose⟩ := lift_close_runs h3
    obtain ⟨hh4, hx⟩ := ofExcept_inv hr4
    subst hx
    rcases hcase with ⟨a, rfl, hxa⟩ | ⟨e, rfl, hfe⟩
    · cases hxa
      have hu := unlinkat_ok_inv hy
      refine ⟨parent, name, dir, hm, rc, hsplit, hres, ?_⟩
      rw [hh4, hclose, hu]; simp
    · rcases hfe with ⟨_, hxe⟩ | ⟨_, hxe⟩ <;> cases hxe

/-- **create** (every inode type but hard links): parent resolution, one acknowledged mutating call on
(parent, name), close -/
theorem C14_create_shape (env : Env) (root : Root) (path : Bytes) (ty : InodeType)
    (hty : ∀ t, ty ≠ .hardlink t) {h h' : Hist}
    (hr : Runs (Root.create env root path ty) h h' (.ok ())) :
    ∃ parent name dir hm c rc, Path.pathSplit path = .ok (parent, some name) ∧
      Runs (Resolver.resolve env root.resolver root.fd parent false) h hm (.ok dir) ∧
      isMutating c = true ∧
      h' = hm ++ [(c, Resp.unit), (Call.close dir, rc)] := by
  unfold Root.create at hr
  simp only [M.bind_def] at hr
  obtain ⟨hm, ⟨dir, name⟩, h1, hr2⟩ := mbind_ok hr
  obtain ⟨parent, hsplit, hres⟩ := resolveParent_ok_inv h1
  cases name with
  | none =>
    simp only [] at hr2
    obtain ⟨_, _, _, hr3⟩ := mbind_ok hr2
    obtain ⟨_, he⟩ := ret_inv hr3; cases he
  | some name =>
    simp only [] at hr2
    obtain ⟨hm2, x, h2, hr3⟩ := mbind_ok hr2
    obtain ⟨y, hy, hcase⟩ := try_inv h2
    obtain ⟨hm3, _, h3, hr4⟩ := mbind_ok hr3
    obtain ⟨rc, hclose⟩ := lift_close_runs h3
    obtain ⟨hh4, hx⟩ := ofExcept_inv hr4
    subst hx
    rcases hcase with ⟨a, rfl, hxa⟩ | ⟨e, rfl, hfe⟩
    · cases hxa
      obtain ⟨c, hc, hu⟩ := createCall_ok_did_work env root dir name ty hty hy
      refine ⟨parent, name, dir, hm, c, rc, hsplit, hres, hc, ?_⟩
      rw [hh4, hclose, hu]; simp
    · rcases hfe with ⟨_, hxe⟩ | ⟨_, hxe⟩ <;> cases hxe

/-- **create_file**: parent resolution, one `openat(parent, name, flags|O_CREAT|O_NOFOLLOW|O_CLOEXEC|O_NOCTTY)`
whose answer is the returned descriptor, close -/
theorem C14_createFile_shape (env : Env) (root : Root) (path : Bytes) (flags perm : Nat) {h h' : Hist} {fd : Fd}
    (hr : Runs (Root.createFile env root path flags perm) h h' (.ok fd)) :
    ∃ parent name dir hm rc, Path.pathSplit path = .ok (parent, some name) ∧
      name ≠ Path.dot ∧ name ≠ Path.dotdot ∧
      Runs (Resolver.resolve env root.resolver root.fd parent false) h hm (.ok dir) ∧
      h' = hm ++ [(Call.openat dir name (flags ||| O_CREAT ||| O_NOFOLLOW ||| O_CLOEXEC ||| O_NOCTTY) perm, Resp.fd fd),
                  (Call.close dir, rc)] := by
  unfold Root.createFile at hr
  simp only [M.bind_def] at hr
  obtain ⟨hm, ⟨dir, name⟩, h1, hr2⟩ := mbind_ok hr
  obtain ⟨parent, hsplit, hres⟩ := resolveParent_ok_inv h1
  cases name with
  | none =>
    simp only [] at hr2
    obtain ⟨_, _, _, hr3⟩ := mbind_ok hr2
    obtain ⟨_, he⟩ := ret_inv hr3; cases he
  | some name =>
    simp only [] at hr2
    obtain ⟨hm2, x, h2, hr3⟩ := mbind_ok hr2
    obtain ⟨y, hy, hcase⟩ := try_inv h2
    obtain ⟨hm3, _, h3, hr4⟩ := mbind_ok hr3
    obtain ⟨rc, hclose⟩ := lift_close_runs h3
    obtain ⟨hh4, hx⟩ := ofExcept_inv hr4
    subst hx
    rcases hcase with ⟨a, rfl, hxa⟩ | ⟨e, rfl, hfe⟩
    · cases hxa
      unfold Root.createFileOpen at hy
      split at hy
      · obtain ⟨_, he⟩ := ret_inv hy; cases he
      · rename_i hname
        have hu := openat_ok_inv hy
        refine ⟨parent, name, dir, hm, rc, hsplit, fun h => hname (Or.inl h), fun h => hname (Or.inr h), hres, ?_⟩
        rw [hh4, hclose, hu]; simp
    · rcases hfe with ⟨_, hxe⟩ | ⟨_, hxe⟩ <;> cases hxe

/-- **rename**: both parents resolved in-root, one acknowledged rename call on
(source parent, source name, destination parent, destination name), both closed -/
theorem C14_rename_shape (env : Env) (root : Root) (src dst : Bytes) (rflags : Nat) {h h' : Hist}
    (hr : Runs (Root.rename env root src dst rflags) h h' (.ok ())) :
    ∃ sparent sname sdir dparent dname ddir h1 h2 c rc1 rc2,
      Path.pathSplit src = .ok (sparent, some sname) ∧ Path.pathSplit dst = .ok (dparent, some dname) ∧
      Runs (Resolver.resolve env root.resolver root.fd sparent false) h h1 (.ok sdir) ∧
      Runs (Resolver.resolve env root.resolver root.fd dparent false) h1 h2 (.ok ddir) ∧
      isMutating c = true ∧
      h' = h2 ++ [(c, Resp.unit), (Call.close sdir, rc1), (Call.close ddir, rc2)] := by
  unfold Root.rename at hr
  simp only [M.bind_def] at hr
  obtain ⟨hm, ⟨sdir, sname⟩, h1, hr2⟩ := mbind_ok hr
  obtain ⟨sparent, hsplit, hres⟩ := resolveParent_ok_inv h1
  cases sname with
  | none =>
    simp only [] at hr2
    obtain ⟨_, _, _, hr3⟩ := mbind_ok hr2
    obtain ⟨_, he⟩ := ret_inv hr3; cases he
  | some sname =>
    simp only [] at hr2
    obtain ⟨hm2, ⟨ddir, dname⟩, h2, hr3⟩ := mbind_ok hr2
    obtain ⟨dparent, hsplit2, hres2⟩ := resolveParent_ok_inv (onErr_ok h2)
    cases dname with
    | none =>
      simp only [] at hr3
      obtain ⟨_, _, _, hr4⟩ := mbind_ok hr3
      obtain ⟨_, he⟩ := ret_inv hr4; cases he
    | some dname =>
      simp only [] at hr3
      obtain ⟨hm3, x, h3, hr4⟩ := mbind_ok hr3
      obtain ⟨y, hy, hcase⟩ := try_inv h3
      obtain ⟨hm4, _, h4, hr5⟩ := mbind_ok hr4
      obtain ⟨rc1, hclose1⟩ := lift_close_runs h4
      obtain ⟨hm5, _, h5, hr6⟩ := mbind_ok hr5
      obtain ⟨rc2, hclose2⟩ := lift_close_runs h5
      obtain ⟨hh6, hx⟩ := ofExcept_inv hr6
      subst hx
      rcases hcase with ⟨a, rfl, hxa⟩ | ⟨e, rfl, hfe⟩
      · cases hxa
        obtain ⟨c, hc, hu⟩ := renameat2_ok_inv hy
        refine ⟨sparent, sname, sdir, dparent, dname, ddir, hm, hm2, c, rc1, rc2, hsplit, hsplit2, hres, hres2, hc, ?_⟩
        rw [hh6, hclose2, hclose1, hu]; simp
      · rcases hfe with ⟨_, hxe⟩ | ⟨_, hxe⟩ <;> cases hxe

/-- non-vacuity: `path_split` of `a/b` is (`a`, `b`); of `a/b/` the name is missing (trailing slash) -/
example : Path.pathSplit b!"a/b" = .ok (b!"a", some b!"b") := by rfl
example : Path.pathSplit b!"a/b/" = .ok (b!"a/b", none) := by rfl

/-! ### the parent, on a world

The shape theorems say that the mutating call is made on the descriptor a run of
`Resolver.resolve … parent false` returned.  When that lookup's answers come from a well-formed
world (an unmodified tree), the descriptor is the specification's in-root resolution of the parent
path (`World.resolveInRoot`, the meaning of `openat2(RESOLVE_IN_ROOT)`), on either backend. -/

open KRun KSim KSpec World in
theorem C14_parent_is_spec {w : World} (hw : w.WF) (r : Resolver) (parent : Bytes) (hnul : parent.contains 0 = false)
    {h hm : Hist} {dir : Fd}
    (hres : Runs (Resolver.resolve (kenv w) r w.root parent false) h hm (.ok dir))
    (l : Hist) (hl : hm = h ++ l) (ha : AnswersFrom w l) :
    resolveInRoot w (if r.emulated then ecfg r.rflags false else kcfgK w r.rflags false) parent = .ok dir := by
  have hd := Runs.world_det (w := w) hres l hl ha
  rw [C01_any_backend hw r parent hnul false] at hd
  cases hs : resolveInRoot w (if r.emulated then ecfg r.rflags false else kcfgK w r.rflags false) parent with
  | ok c => rw [hs] at hd; simp [toOut] at hd; rw [hd]
  | error e => rw [hs] at hd; simp [toOut] at hd

open KRun KSim KSpec World in
/-- … and so lies inside the root's tree -/
theorem C14_parent_inside_root {w : World} (hw : w.WF) (r : Resolver) (parent : Bytes) (hnul : parent.contains 0 = false)
    {h hm : Hist} {dir : Fd}
    (hres : Runs (Resolver.resolve (kenv w) r w.root parent false) h hm (.ok dir))
    (l : Hist) (hl : hm = h ++ l) (ha : AnswersFrom w l) : ∃ p, w.dpath dir = some p :=
  C01_inside_root hw _ parent dir (C14_parent_is_spec hw r parent hnul hres l hl ha)

/-! ### exactly the effect of one `*at` call on (in-root parent, final name) -/

open KRun KSim KSpec World KEffect in
theorem C14_effect_remove {w : World} (μ : MutK) (hw : w.WF) (r : Resolver) (path parent name : Bytes)
    (hnul : parent.contains 0 = false) (isDir : Bool) (d : Fd)
    (hsplit : Path.pathSplit path = .ok (parent, some name))
    (hres : resolveInRoot w (if r.emulated then ecfg r.rflags false else kcfgK w r.rflags false) parent = .ok d) :
    exec μ w (Root.removeInode (kenv w) { fd := w.root, resolver := r } path isDir) =
      (μ.eff w (.unlinkat d name (if isDir then AT_REMOVEDIR else 0)),
       unitOut (μ.ans w (.unlinkat d name (if isDir then AT_REMOVEDIR else 0))) "unlinkat") :=
  removeInode_effect μ hw r path parent name hnul isDir d hsplit hres

open KRun KSim KSpec World KEffect in
theorem C14_effect_create {w : World} (μ : MutK) (hw : w.WF) (r : Resolver) (path parent name : Bytes)
    (hnul : parent.contains 0 = false) (ty : InodeType) (d : Fd) (c : Call) (site : String)
    (hsplit : Path.pathSplit path = .ok (parent, some name))
    (hres : resolveInRoot w (if r.emulated then ecfg r.rflags false else kcfgK w r.rflags false) parent = .ok d)
    (hc : createSysCall d name ty = some (c, site)) :
    exec μ w (Root.create (kenv w) { fd := w.root, resolver := r } path ty) = (μ.eff w c, unitOut (μ.ans w c) site) :=
  create_effect μ hw r path parent name hnul ty d c site hsplit hres hc

open KRun KSim KSpec World KEffect in
theorem C14_effect_hardlink {w : World} (μ : MutK) (hw : w.WF) (r : Resolver) (path parent name target tparent tname : Bytes)
    (hnul : parent.contains 0 = false) (hnult : tparent.contains 0 = false) (d dt : Fd)
    (hsplit : Path.pathSplit path = .ok (parent, some name))
    (hres : resolveInRoot w (if r.emulated then ecfg r.rflags false else kcfgK w r.rflags false) parent = .ok d)
    (hsplitt : Path.pathSplit target = .ok (tparent, some tname))
    (hrest : resolveInRoot w (if r.emulated then ecfg r.rflags false else kcfgK w r.rflags false) tparent = .ok dt) :
    exec μ w (Root.create (kenv w) { fd := w.root, resolver := r } path (.hardlink target)) =
      (μ.eff w (.linkat dt tname d name 0), unitOut (μ.ans w (.linkat dt tname d name 0)) "linkat") :=
  create_hardlink_effect μ hw r path parent name target tparent tname hnul hnult d dt hsplit hres hsplitt hrest

open KRun KSim KSpec World KEffect in
theorem C14_effect_create_file {w : World} (μ : MutK) (hw : w.WF) (r : Resolver) (path parent name : Bytes)
    (hnul : parent.contains 0 = false) (flags perm : Nat) (d : Fd)
    (hsplit : Path.pathSplit path = .ok (parent, some name))
    (hname : ¬ (name = Path.dot ∨ name = Path.dotdot))
    (hres : resolveInRoot w (if r.emulated then ecfg r.rflags false else kcfgK w r.rflags false) parent = .ok d) :
    exec μ w (Root.createFile (kenv w) { fd := w.root, resolver := r } path flags perm) =
      (μ.eff w (createFileCall d name flags perm), fdOut (μ.ans w (createFileCall d name flags perm)) "openat") :=
  createFile_effect μ hw r path parent name hnul flags perm d hsplit hname hres

open KRun KSim KSpec World KEffect in
/-- a final component `.` or `..` is not a file that can be created: `create_file` refuses it with `EISDIR` and the
tree is unchanged, whatever the open flags.  (With `O_PATH` the kernel ignores `O_CREAT`; the `*at` call would be a
plain lookup of `..` below the parent — for the root, of the directory *outside* it: finding F24.) -/
theorem C14_frame_create_file_dots {w : World} (μ : MutK) (hw : w.WF) (r : Resolver) (path parent name : Bytes)
    (hnul : parent.contains 0 = false) (flags perm : Nat) (d : Fd)
    (hsplit : Path.pathSplit path = .ok (parent, some name))
    (hname : name = Path.dot ∨ name = Path.dotdot)
    (hres : resolveInRoot w (if r.emulated then ecfg r.rflags false else kcfgK w r.rflags false) parent = .ok d) :
    exec μ w (Root.createFile (kenv w) { fd := w.root, resolver := r } path flags perm) = (w, .error (.os EISDIR)) :=
  createFile_frame_dots μ hw r path parent name hnul flags perm d hsplit hname hres

open KRun KSim KSpec World KEffect in
theorem C14_effect_rename {w : World} (μ : MutK) (hw : w.WF) (r : Resolver) (src dst p1 n1 p2 n2 : Bytes)
    (hnul1 : p1.contains 0 = false) (hnul2 : p2.contains 0 = false) (flags : Nat) (d1 d2 : Fd)
    (hsplit1 : Path.pathSplit src = .ok (p1, some n1))
    (hres1 : resolveInRoot w (if r.emulated then ecfg r.rflags false else kcfgK w r.rflags false) p1 = .ok d1)
    (hsplit2 : Path.pathSplit dst = .ok (p2, some n2))
    (hres2 : resolveInRoot w (if r.emulated then ecfg r.rflags false else kcfgK w r.rflags false) p2 = .ok d2) :
    exec μ w (Root.rename (kenv w) { fd := w.root, resolver := r } src dst flags) =
      (μ.eff w (renameSysCall d1 n1 d2 n2 flags),
       unitOut (μ.ans w (renameSysCall d1 n1 d2 n2 flags)) (renameSite flags)) :=
  rename_effect μ hw r src dst p1 n1 p2 n2 hnul1 hnul2 flags d1 d2 hsplit1 hres1 hsplit2 hres2

open KRun KSim KSpec World KEffect in
/-- a trailing slash: nothing changes -/
theorem C14_frame_trailing_slash {w : World} (μ : MutK) (hw : w.WF) (r : Resolver) (path parent : Bytes)
    (hnul : parent.contains 0 = false) (isDir : Bool) (d : Fd)
    (hsplit : Path.pathSplit path = .ok (parent, none))
    (hres : resolveInRoot w (if r.emulated then ecfg r.rflags false else kcfgK w r.rflags false) parent = .ok d) :
    exec μ w (Root.removeInode (kenv w) { fd := w.root, resolver := r } path isDir) = (w, .error .invalidArgument) :=
  removeInode_frame_slash μ hw r path parent hnul isDir d hsplit hres

