import Pathrs.Opath

/-!
# C15 — the emulated resolver enforces fs.protected_symlinks like the kernel

`kMayFollow` transcribes `may_follow_link()` of fs/namei.c (Linux 6.x) as a
sequence of early returns; `Opath.mayFollowDecision` is the condition the
emulated resolver evaluates on the opened directory and link descriptors.
The *position* at which the kernel applies the rule (trailing links only) is a
separate matter: see finding F14 in DESIGN.md and `known_findings.json`.
-/

open K

/-- fs/namei.c `may_follow_link`: `true` = the link may be followed -/
def kMayFollow (sysctl fsuid linkUid dirMode dirUid : Nat) : Bool :=
  if sysctl = 0 then true
  -- Allowed if owner and follower match.
  else if fsuid = linkUid then true
  -- Allowed if parent directory not sticky and world-writable.
  else if dirMode &&& (S_ISVTX ||| S_IWOTH) ≠ (S_ISVTX ||| S_IWOTH) then true
  -- Allowed if parent directory and link owner match.
  else if dirUid = linkUid then true
  else false

/-- the emulated decision equals the kernel's for every sysctl value, caller,
link owner, directory mode and directory owner -/
theorem C15_may_follow_eq (sysctl fsuid linkUid dirMode dirUid : Nat) :
    Opath.mayFollowDecision sysctl fsuid linkUid dirMode dirUid
      = kMayFollow sysctl fsuid linkUid dirMode dirUid := by
  unfold Opath.mayFollowDecision kMayFollow Opath.STICKY_WRITABLE
  by_cases h0 : sysctl = 0
  · simp [h0]
  · by_cases h1 : linkUid = fsuid
    · simp [h0, h1]
    · have h1' : ¬ fsuid = linkUid := fun h => h1 h.symm
      by_cases h2 : dirMode &&& (S_ISVTX ||| S_IWOTH) = (S_ISVTX ||| S_IWOTH)
      · by_cases h3 : linkUid = dirUid
        · simp [h0, h1, h1', h2, h3]
        · have h3' : ¬ dirUid = linkUid := fun h => h3 h.symm
          simp [h0, h1, h1', h2, h3, h3']
      · simp [h0, h1, h1', h2]

/-- with the sysctl off nothing is refused -/
theorem C15_sysctl_off (fsuid linkUid dirMode dirUid : Nat) :
    Opath.mayFollowDecision 0 fsuid linkUid dirMode dirUid = true := by
  simp [Opath.mayFollowDecision]

/-- the refusal condition spelled out: sysctl on, link owned by neither the caller
nor the directory's owner, directory sticky and world-writable -/
theorem C15_refused_iff (sysctl fsuid linkUid dirMode dirUid : Nat) :
    Opath.mayFollowDecision sysctl fsuid linkUid dirMode dirUid = false ↔
      (sysctl ≠ 0 ∧ linkUid ≠ fsuid ∧ linkUid ≠ dirUid ∧
        dirMode &&& (S_ISVTX ||| S_IWOTH) = (S_ISVTX ||| S_IWOTH)) := by
  unfold Opath.mayFollowDecision Opath.STICKY_WRITABLE
  simp only [Bool.or_eq_false_iff, decide_eq_false_iff_not, ne_eq, Decidable.not_not]
  constructor
  · rintro ⟨⟨⟨h0, h1⟩, h2⟩, h3⟩; exact ⟨h0, h1, h3, h2⟩
  · rintro ⟨h0, h1, h3, h2⟩; exact ⟨⟨⟨h0, h1⟩, h2⟩, h3⟩

/-- no privileged bypass: like the kernel (which consults no capability here) the
emulation refuses a caller with fsuid 0 exactly as it refuses anybody else —
root following somebody's link in a sticky world-writable directory is the very
case the sysctl exists for -/
theorem C15_root_not_exempt (sysctl linkUid dirMode dirUid : Nat) (hs : sysctl ≠ 0)
    (hl : linkUid ≠ 0) (hd : linkUid ≠ dirUid)
    (hm : dirMode &&& (S_ISVTX ||| S_IWOTH) = (S_ISVTX ||| S_IWOTH)) :
    Opath.mayFollowDecision sysctl 0 linkUid dirMode dirUid = false :=
  (C15_refused_iff sysctl 0 linkUid dirMode dirUid).mpr ⟨hs, hl, hd, hm⟩

/-- of the directory's mode only the sticky and the other-write bit matter:
two modes that agree on these two bits get the same decision (so neither the
file-type bits returned by `fstat` nor the remaining permission bits can change it) -/
theorem C15_only_sticky_and_other_write (sysctl fsuid linkUid dirUid m1 m2 : Nat)
    (h : m1 &&& (S_ISVTX ||| S_IWOTH) = m2 &&& (S_ISVTX ||| S_IWOTH)) :
    Opath.mayFollowDecision sysctl fsuid linkUid m1 dirUid
      = Opath.mayFollowDecision sysctl fsuid linkUid m2 dirUid := by
  unfold Opath.mayFollowDecision Opath.STICKY_WRITABLE
  rw [h]

/-- the sysctl is a switch: every non-zero value acts like 1 (the kernel's own
`sysctl_protected_symlinks` is tested for truth, never compared) -/
theorem C15_sysctl_is_boolean (sysctl fsuid linkUid dirMode dirUid : Nat) (hs : sysctl ≠ 0) :
    Opath.mayFollowDecision sysctl fsuid linkUid dirMode dirUid
      = Opath.mayFollowDecision 1 fsuid linkUid dirMode dirUid := by
  unfold Opath.mayFollowDecision
  simp [hs]

/-- the owner of the link can always follow it, wherever it lies -/
theorem C15_owner_follows (sysctl fsuid dirMode dirUid : Nat) :
    Opath.mayFollowDecision sysctl fsuid fsuid dirMode dirUid = true := by
  simp [Opath.mayFollowDecision]

/-- the program: `may_follow_link` succeeds exactly when the decision on the values
the three calls return is `true`, and otherwise fails with EACCES — whatever the
environment answers -/
theorem C15_program_shape (env : Env) (dir link : Fd) :
    Opath.mayFollowLink env dir link =
      M.bind' (Sys.geteuid : Prog Nat) fun fsuid =>
      M.bind' (Sys.fstatat dir []) fun dirMeta =>
      M.bind' (Sys.fstatat link []) fun linkMeta =>
      if Opath.mayFollowDecision env.protectedSymlinks fsuid linkMeta.uid dirMeta.mode dirMeta.uid
      then pure () else throw (.os EACCES) := rfl

/-! ## Non-vacuity: both outcomes occur -/

example : Opath.mayFollowDecision 1 1000 2000 0o1777 0 = false := by decide
example : Opath.mayFollowDecision 1 1000 2000 0o0777 0 = true := by decide
example : Opath.mayFollowDecision 1 1000 2000 0o1777 2000 = true := by decide
example : Opath.mayFollowDecision 1 0 2000 0o41777 1000 = false :=
  C15_root_not_exempt 1 2000 0o41777 1000 (by decide) (by decide) (by decide) (by decide)
example : Opath.mayFollowDecision 7 0 2000 0o41777 1000 = false := by
  rw [C15_sysctl_is_boolean 7 _ _ _ _ (by decide)]; decide
