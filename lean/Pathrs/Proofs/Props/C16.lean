import Pathrs.Capi

/-!
# C16 — C error ids are unique, consumed exactly once, and never look like an errno

The table is the state machine `Capi.store` / `Capi.take`.  The random candidate
stream of `store_error` is an input (any stream), threads are sequentialised by
the table's mutex (hypothesis `MutexAtomic`, see DESIGN.md): every concurrent
history is one of the operation sequences quantified over here.
-/

open Capi

/-- keys are pairwise distinct and lie in `[INT_MIN, -4096]` -/
def TableInv (t : Table) : Prop :=
  (t.map (·.1)).Nodup ∧ ∀ kv ∈ t, INT_MIN ≤ kv.1 ∧ kv.1 ≤ ID_MAX

theorem lookup_none_not_mem {t : Table} {c : Int} (h : (t.lookup c).isNone = true) :
    c ∉ t.map (·.1) := by
  induction t with
  | nil => simp
  | cons kv rest ih =>
    obtain ⟨k, v⟩ := kv
    simp only [List.lookup] at h
    split at h
    · simp at h
    · rename_i hne
      simp only [List.map_cons, List.mem_cons, not_or]
      refine ⟨?_, ih h⟩
      intro hck; subst hck; simp at hne

/-- `store` returns an id in `[INT_MIN, -4096]` that was not live, records the
error under it and keeps the invariant. -/
theorem C16_store (t : Table) (errno : Nat) (cands : List Int) (id : Int) (t' : Table)
    (hinv : TableInv t) (h : store t errno cands = some (id, t')) :
    INT_MIN ≤ id ∧ id ≤ -4096 ∧ id ∉ t.map (·.1) ∧ t' = (id, errno) :: t ∧ TableInv t' := by
  induction cands with
  | nil => simp [store] at h
  | cons c rest ih =>
    unfold store at h
    split at h
    · rename_i hc
      cases h
      have hnm := lookup_none_not_mem hc.2.2
      refine ⟨hc.1, hc.2.1, hnm, rfl, ?_, ?_⟩
      · simp only [List.map_cons, List.nodup_cons]; exact ⟨hnm, hinv.1⟩
      · intro kv hkv
        rcases List.mem_cons.mp hkv with rfl | h2
        · exact ⟨hc.1, hc.2.1⟩
        · exact hinv.2 kv h2
    · exact ih h

/-- an id is never in the range of errno values (|id| > 4095) and never zero or positive -/
theorem C16_id_not_errno (t : Table) (errno : Nat) (cands : List Int) (id : Int) (t' : Table)
    (hinv : TableInv t) (h : store t errno cands = some (id, t')) : id < -4095 := by
  have := (C16_store t errno cands id t' hinv h).2.1
  omega

theorem lookup_cons_self (t : Table) (id : Int) (e : Nat) : List.lookup id ((id, e) :: t) = some e := by
  simp [List.lookup]

theorem lookup_filter_ne (t : Table) (id : Int) :
    List.lookup id (t.filter fun kv => kv.1 != id) = none := by
  induction t with
  | nil => rfl
  | cons kv rest ih =>
    obtain ⟨k, v⟩ := kv
    by_cases hk : k = id
    · subst hk; simpa using ih
    · have : (k != id) = true := by simpa using hk
      simp only [List.filter, this, List.lookup]
      have hne : (id == k) = false := by simpa using (fun h : id = k => hk h.symm)
      simp [hne, ih]

/-- `take` keeps the invariant -/
theorem C16_take_inv (t : Table) (id : Int) (hinv : TableInv t) : TableInv (take t id).2 := by
  unfold take
  split
  · exact hinv
  · refine ⟨?_, fun kv hkv => hinv.2 kv (List.mem_filter.mp hkv).1⟩
    exact (hinv.1.sublist ((List.filter_sublist).map _))

/-- the error stored under an id is returned exactly once: the first
`pathrs_errorinfo(id)` yields its errno, the second yields NULL -/
theorem C16_consumed_exactly_once (t : Table) (errno : Nat) (cands : List Int) (id : Int) (t' : Table)
    (hinv : TableInv t) (h : store t errno cands = some (id, t')) :
    (take t' id).1 = some errno ∧ (take (take t' id).2 id).1 = none := by
  obtain ⟨_, _, _, ht', _⟩ := C16_store t errno cands id t' hinv h
  subst ht'
  have h1 : take ((id, errno) :: t) id = (some errno, ((id, errno) :: t).filter fun kv => kv.1 != id) := by
    simp [take, lookup_cons_self]
  rw [h1]
  refine ⟨rfl, ?_⟩
  simp only [take, lookup_filter_ne]

theorem lookup_filter_other (t : Table) (id other : Int) (hne : other ≠ id) :
    List.lookup other (t.filter fun kv => kv.1 != id) = List.lookup other t := by
  induction t with
  | nil => rfl
  | cons kv rest ih =>
    obtain ⟨k, v⟩ := kv
    by_cases hk : k = id
    · subst hk
      have h1 : (other == k) = false := by simpa using hne
      simp [List.filter, List.lookup, h1]
      simpa [List.filter] using ih
    · have : (k != id) = true := by simpa using hk
      simp only [List.filter, this, List.lookup]
      split
      · rfl
      · exact ih

/-- consuming one id does not disturb any other live id -/
theorem C16_take_other (t : Table) (id other : Int) (hne : other ≠ id) :
    List.lookup other (take t id).2 = List.lookup other t := by
  unfold take
  split
  · rfl
  · exact lookup_filter_other t id other hne

/-- an unknown id (never issued, or already consumed) yields NULL and changes nothing -/
theorem C16_unknown_id (t : Table) (id : Int) (h : id ∉ t.map (·.1)) : take t id = (none, t) := by
  unfold take
  have : List.lookup id t = none := by
    induction t with
    | nil => rfl
    | cons kv rest ih =>
      obtain ⟨k, v⟩ := kv
      simp only [List.map_cons, List.mem_cons, not_or] at h
      have h1 : (id == k) = false := by simpa using h.1
      simp [List.lookup, h1, ih h.2]
  simp [this]

/-- Operations on the table. -/
inductive TableOp where
  | store (errno : Nat) (cands : List Int)
  | take (id : Int)

def runOp (t : Table) : TableOp → Table
  | .store e cands => match store t e cands with
    | some (_, t') => t'
    | none => t
  | .take id => (take t id).2

/-- the invariant holds after every sequence of operations, of any length, in
any order — i.e. in every linearisation of every concurrent history -/
theorem C16_invariant_all_histories (ops : List TableOp) : TableInv (ops.foldl runOp []) := by
  suffices ∀ t, TableInv t → TableInv (ops.foldl runOp t) from
    this [] ⟨by simp, by simp⟩
  induction ops with
  | nil => intro t h; exact h
  | cons op rest ih =>
    intro t h
    apply ih
    cases op with
    | store e cands =>
      simp only [runOp]
      split
      · rename_i id t' hs; exact (C16_store t e cands id t' h hs).2.2.2.2
      · exact h
    | take id => exact C16_take_inv t id h

/-- what `store` does when it succeeds, without assuming the invariant -/
theorem store_some {t : Table} {errno : Nat} {cands : List Int} {id : Int} {t' : Table}
    (h : store t errno cands = some (id, t')) : t' = (id, errno) :: t ∧ (t.lookup id).isNone = true := by
  induction cands with
  | nil => simp [store] at h
  | cons c rest ih =>
    unfold store at h
    split at h
    · rename_i hc
      cases h
      exact ⟨rfl, hc.2.2⟩
    · exact ih h

/-- one operation other than the consumption of `id` leaves the entry of `id` as it is -/
theorem runOp_keeps (t : Table) (id : Int) (e : Nat) (hl : List.lookup id t = some e)
    (op : TableOp) (hop : op ≠ .take id) : List.lookup id (runOp t op) = some e := by
  cases op with
  | store e' cands =>
    simp only [runOp]
    split
    · rename_i id' t' hs
      obtain ⟨ht', hvac⟩ := store_some hs
      subst ht'
      have hne : (id == id') = false := by
        apply Bool.eq_false_iff.mpr
        intro heq
        have : id = id' := by simpa using heq
        subst this
        rw [hl] at hvac
        simp at hvac
      simp [List.lookup, hne, hl]
    · exact hl
  | take id2 =>
    have hne : id ≠ id2 := by
      intro h; subst h; exact hop rfl
    simp only [runOp]
    rw [C16_take_other t id2 id hne]
    exact hl

/-- **None lost, in every history.**  An error that is live stays retrievable with
its errno through any sequence of operations — any number of other errors stored
and consumed meanwhile, by any thread, in any order — that does not consume it. -/
theorem C16_live_until_taken (t : Table) (id : Int) (e : Nat) (hl : List.lookup id t = some e)
    (ops : List TableOp) (hno : ∀ op ∈ ops, op ≠ .take id) :
    List.lookup id (ops.foldl runOp t) = some e := by
  induction ops generalizing t with
  | nil => exact hl
  | cons op rest ih =>
    simp only [List.foldl_cons]
    apply ih
    · exact runOp_keeps t id e hl op (hno op (List.mem_cons_self ..))
    · intro op' h'
      exact hno op' (List.mem_cons_of_mem _ h')

/-- … and the later `pathrs_errorinfo(id)` returns exactly that errno, after which
the id is dead: stored → (anything but its consumption)* → consumed once → NULL. -/
theorem C16_backlog_consumed_once (t : Table) (errno : Nat) (cands : List Int) (id : Int) (t' : Table)
    (h : store t errno cands = some (id, t')) (ops : List TableOp) (hno : ∀ op ∈ ops, op ≠ .take id) :
    (take (ops.foldl runOp t') id).1 = some errno ∧
    (take (take (ops.foldl runOp t') id).2 id).1 = none := by
  obtain ⟨ht', _⟩ := store_some h
  subst ht'
  have hl := C16_live_until_taken ((id, errno) :: t) id errno (lookup_cons_self t id errno) ops hno
  constructor
  · simp [take, hl]
  · simp only [take, hl, lookup_filter_ne]

/-- the errno reported for each error kind -/
theorem C16_errno_table :
    cErrno (.os 2) = 2 ∧ cErrno .invalidArgument = K.EINVAL ∧ cErrno .safetyViolation = K.EXDEV ∧
    cErrno .notImplemented = K.ENOSYS ∧ cErrno .notSupported = 0 ∧ cErrno .internalError = 0 ∧
    ∀ e, cErrno (.os e) = e := by
  refine ⟨rfl, rfl, rfl, rfl, rfl, rfl, fun _ => rfl⟩

/-! ## Non-vacuity -/

example : store [(-5000, 2)] 22 [-5000, 7, -4096] = some (-4096, [(-4096, 22), (-5000, 2)]) := by decide
example : (take ([TableOp.store 5 [-7000], .take (-5000), .store 9 [-5000]].foldl runOp
    [(-4096, 22), (-5000, 2)]) (-4096)).1 = some 22 :=
  (C16_backlog_consumed_once [(-5000, 2)] 22 [-5000, 7, -4096] (-4096) _ (by decide) _
    (by intro op h; simp only [List.mem_cons, List.not_mem_nil, or_false] at h
        rcases h with rfl | rfl | rfl <;> simp)).1
example : TableInv [(-4096, 22), (-5000, 2)] := by
  refine ⟨by decide, ?_⟩
  intro kv hkv
  simp at hkv
  rcases hkv with rfl | rfl <;> decide
