import Pathrs.Capi

/-!
# C17 — the C boundary validates arguments and respects caller buffers
-/

open K Capi

/-! ## Buffer copies -/

/-- `copy_path_into_buffer` returns the full length, never changes the size of
the caller's buffer (so nothing is written beyond it), writes exactly the first
`min(len, bufsize)` bytes of the path and leaves the rest untouched. -/
theorem C17_copy_bounds (path buf : Bytes) :
    let r := copyPathIntoBuffer path (some buf) buf.length
    r.1 = path.length ∧
    ∃ out, r.2 = some out ∧ out.length = buf.length ∧
      out.take (min path.length buf.length) = path.take (min path.length buf.length) ∧
      out.drop (min path.length buf.length) = buf.drop (min path.length buf.length) := by
  simp only [copyPathIntoBuffer]
  by_cases h : buf.length > 0
  · simp only [h, ↓reduceIte]
    refine ⟨trivial, _, rfl, ?_, ?_, ?_⟩
    · simp [List.length_append, List.length_take, List.length_drop]; omega
    · have hl : (path.take (min path.length buf.length)).length = min path.length buf.length := by
        simp [List.length_take]
      rw [List.take_append_of_le_length (by omega)]
      simp [List.take_take]
    · have hl : (path.take (min path.length buf.length)).length = min path.length buf.length := by
        simp [List.length_take]
      rw [List.drop_append_of_le_length (by omega)]
      rw [List.drop_eq_nil_of_le (by omega)]
      simp
  · have h0 : buf = [] := List.eq_nil_of_length_eq_zero (by omega)
    subst h0
    simp

/-- the caller's retry protocol works: a buffer of exactly the length returned
by a first call (whatever that call's buffer was) receives the whole link body -/
theorem C17_copy_retry_complete (path buf : Bytes) (h : buf.length = path.length) :
    copyPathIntoBuffer path (some buf) buf.length = (path.length, some path) := by
  simp only [copyPathIntoBuffer]
  by_cases h0 : buf.length > 0
  · have h0' : path.length > 0 := by omega
    simp only [h, h0', ↓reduceIte, Nat.min_self]
    rw [List.take_of_length_le (by omega), List.drop_eq_nil_of_le (by omega)]
    simp
  · have hb : buf = [] := List.eq_nil_of_length_eq_zero (by omega)
    have hp : path = [] := List.eq_nil_of_length_eq_zero (by omega)
    subst hb hp
    simp

/-- truncation is visible in the return value: the caller's buffer holds the
whole link body exactly when the returned length fits in it -/
theorem C17_copy_truncated_iff (path buf : Bytes) :
    let r := copyPathIntoBuffer path (some buf) buf.length
    (∃ out, r.2 = some out ∧ out.take path.length = path) ↔ r.1 ≤ buf.length := by
  obtain ⟨h1, out, h2, h3, h4, _⟩ := C17_copy_bounds path buf
  simp only at h1 h2 h3 h4 ⊢
  rw [h1, h2]
  constructor
  · rintro ⟨o, ho, ht⟩
    cases ho
    have := congrArg List.length ht
    simp only [List.length_take] at this
    omega
  · intro hle
    refine ⟨out, rfl, ?_⟩
    rw [Nat.min_eq_left hle] at h4
    rw [h4, List.take_of_length_le (Nat.le_refl _)]

/-- a larger buffer never changes what a smaller one received: the bytes
written into a buffer of size `n` are a prefix of those written into any
buffer of size `m ≥ n` -/
theorem C17_copy_prefix_monotone (path b1 b2 : Bytes) (hle : b1.length ≤ b2.length) :
    ∃ o1 o2, (copyPathIntoBuffer path (some b1) b1.length).2 = some o1 ∧
      (copyPathIntoBuffer path (some b2) b2.length).2 = some o2 ∧
      o1.take (min path.length b1.length) = o2.take (min path.length b1.length) := by
  obtain ⟨_, o1, e1, _, t1, _⟩ := C17_copy_bounds path b1
  obtain ⟨_, o2, e2, _, t2, _⟩ := C17_copy_bounds path b2
  refine ⟨o1, o2, e1, e2, ?_⟩
  rw [t1]
  have : min path.length b1.length ≤ min path.length b2.length := by omega
  have h := congrArg (List.take (min path.length b1.length)) t2
  simp only [List.take_take, Nat.min_eq_left this] at h
  rw [h]

/-- a NULL buffer is allowed: nothing is written, the length is still returned -/
theorem C17_copy_null (path : Bytes) (bufsize : Nat) :
    copyPathIntoBuffer path none bufsize = (path.length, none) := rfl

/-! ## Argument validation: an error and no system call at all -/

/-- a negative descriptor is refused by every `pathrs_inroot_*` function before
anything else happens (the program is a bare error leaf: it makes no call) -/
theorem C17_negative_fd_rejected {α : Type} (env : Env) (emu : Bool) (fd : Int) (path : Option Bytes)
    (body : Root → Bytes → M α) (h : fd < 0) :
    inroot env emu fd path body = Prog.ret (.error .invalidArgument) := by
  unfold inroot
  simp only [borrowFd, h, ↓reduceIte]
  rfl

theorem C17_negative_fd_rejected2 {α : Type} (env : Env) (emu : Bool) (fd : Int) (p1 p2 : Option Bytes)
    (body : Root → Bytes → Bytes → M α) (h : fd < 0) :
    inroot2 env emu fd p1 p2 body = Prog.ret (.error .invalidArgument) := by
  unfold inroot2
  simp only [borrowFd, h, ↓reduceIte]
  rfl

theorem C17_reopen_negative_fd (env : Env) (fd : Int) (flags : Nat) (h : fd < 0) :
    Capi.reopen env fd flags = Prog.ret (.error .invalidArgument) := by
  unfold Capi.reopen
  simp only [borrowFd, h, ↓reduceIte]
  rfl

/-- a NULL path is refused before any system call -/
theorem C17_null_path_rejected {α : Type} (env : Env) (emu : Bool) (fd : Int)
    (body : Root → Bytes → M α) (h : 0 ≤ fd) :
    inroot env emu fd none body = Prog.ret (.error .invalidArgument) := by
  have : ¬ fd < 0 := by omega
  unfold inroot
  simp only [borrowFd, this, ↓reduceIte, parsePath]
  rfl

theorem C17_open_root_null : Capi.openRoot none = Prog.ret (.error .invalidArgument) := by
  rfl

/-- an unknown procfs base is refused before any system call -/
theorem C17_unknown_base_rejected (env : Env) (base : Nat) (path : Option Bytes) (flags : Nat)
    (h : base ≠ PATHRS_PROC_ROOT ∧ base ≠ PATHRS_PROC_SELF ∧ base ≠ PATHRS_PROC_THREAD_SELF) :
    Capi.procOpen env base path flags = Prog.ret (.error .invalidArgument) := by
  unfold Capi.procOpen
  simp only [procBase, h.1, h.2.1, h.2.2, ↓reduceIte]
  rfl

theorem C17_unknown_base_rejected_readlink (env : Env) (base : Nat) (path buf : Option Bytes) (n : Nat)
    (h : base ≠ PATHRS_PROC_ROOT ∧ base ≠ PATHRS_PROC_SELF ∧ base ≠ PATHRS_PROC_THREAD_SELF) :
    Capi.procReadlink env base path buf n = Prog.ret (.error .invalidArgument) := by
  unfold Capi.procReadlink
  simp only [procBase, h.1, h.2.1, h.2.2, ↓reduceIte]
  rfl

/-- exactly the three published constants are accepted -/
theorem C17_base_decoding (v : Nat) :
    (∃ b, procBase v = .ok b) ↔ (v = PATHRS_PROC_ROOT ∨ v = PATHRS_PROC_SELF ∨ v = PATHRS_PROC_THREAD_SELF) := by
  unfold procBase
  constructor
  · intro ⟨b, hb⟩
    by_cases h1 : v = PATHRS_PROC_ROOT
    · exact Or.inl h1
    · by_cases h2 : v = PATHRS_PROC_SELF
      · exact Or.inr (Or.inl h2)
      · by_cases h3 : v = PATHRS_PROC_THREAD_SELF
        · exact Or.inr (Or.inr h3)
        · simp [h1, h2, h3] at hb
  · rintro (h | h | h) <;> subst h <;> simp [PATHRS_PROC_ROOT, PATHRS_PROC_SELF, PATHRS_PROC_THREAD_SELF]

/-- `mknod`: a file-type field outside {REG, DIR, BLK, CHR, FIFO, SOCK} is an invalid argument,
sockets are "not implemented"; neither reaches the kernel -/
theorem C17_invalid_mode_rejected (mode dev : Nat)
    (h : ∀ t ∈ [S_IFREG, S_IFDIR, S_IFBLK, S_IFCHR, S_IFIFO, S_IFSOCK], mode &&& S_IFMT ≠ t) :
    mknodType mode dev = .error .invalidArgument := by
  simp only [List.mem_cons, List.mem_nil_iff, or_false, forall_eq_or_imp, forall_eq] at h
  obtain ⟨h1, h2, h3, h4, h5, h6⟩ := h
  simp [mknodType, h1, h2, h3, h4, h5, h6]

theorem C17_socket_not_implemented (mode dev : Nat) (h : mode &&& S_IFMT = S_IFSOCK) :
    mknodType mode dev = .error .notImplemented := by
  simp [mknodType, h, S_IFSOCK, S_IFREG, S_IFDIR, S_IFBLK, S_IFCHR, S_IFIFO]

theorem C17_mknod_invalid_mode_no_call (env : Env) (emu : Bool) (fd : Int) (path : Bytes) (mode dev : Nat)
    (hfd : 0 ≤ fd) (e : Err) (h : mknodType mode dev = .error e) :
    Capi.mknod env emu fd (some path) mode dev = Prog.ret (.error e) := by
  have : ¬ fd < 0 := by omega
  unfold Capi.mknod inroot
  simp only [borrowFd, this, ↓reduceIte, parsePath, h]
  rfl

/-- the permission bits handed on are the mode with the type field cleared:
`mode ^ (mode & S_IFMT) = mode & ~S_IFMT` -/
theorem C17_mknod_perm_bits (mode : Nat) : mode ^^^ (mode &&& S_IFMT) = clearBits mode S_IFMT := by
  unfold clearBits
  apply Nat.eq_of_testBit_eq
  intro i
  simp [Nat.testBit_xor, Nat.testBit_and]
  cases mode.testBit i <;> cases S_IFMT.testBit i <;> rfl

/-- the type field is gone from what is handed on: `(mode ^ (mode & S_IFMT)) & S_IFMT = 0`,
so the permission argument can never smuggle a second file type to the kernel -/
theorem C17_mknod_perms_no_type (mode : Nat) : (mode ^^^ (mode &&& S_IFMT)) &&& S_IFMT = 0 := by
  apply Nat.eq_of_testBit_eq
  intro i
  simp only [Nat.testBit_xor, Nat.testBit_and, Nat.zero_testBit]
  cases mode.testBit i <;> cases S_IFMT.testBit i <;> rfl

/-- the decoding is exhaustive and exact: `mknodType` succeeds precisely for the five
creatable types, and then with that type, the stripped permission bits and the
caller's device number -/
theorem C17_mknod_decoding (mode dev : Nat) :
    mknodType mode dev =
      let perms := mode ^^^ (mode &&& S_IFMT)
      if mode &&& S_IFMT = S_IFREG then .ok (.file perms)
      else if mode &&& S_IFMT = S_IFDIR then .ok (.directory perms)
      else if mode &&& S_IFMT = S_IFBLK then .ok (.blockDev perms dev)
      else if mode &&& S_IFMT = S_IFCHR then .ok (.charDev perms dev)
      else if mode &&& S_IFMT = S_IFIFO then .ok (.fifo perms)
      else if mode &&& S_IFMT = S_IFSOCK then .error .notImplemented
      else .error .invalidArgument := rfl

/-- success happens only for those five values of the type field -/
theorem C17_mknod_ok_only (mode dev : Nat) (ty : InodeType) (h : mknodType mode dev = .ok ty) :
    mode &&& S_IFMT ∈ [S_IFREG, S_IFDIR, S_IFBLK, S_IFCHR, S_IFIFO] := by
  unfold mknodType at h
  simp only [List.mem_cons, List.mem_nil_iff, or_false]
  by_cases h1 : mode &&& S_IFMT = S_IFREG
  · exact Or.inl h1
  by_cases h2 : mode &&& S_IFMT = S_IFDIR
  · exact Or.inr (Or.inl h2)
  by_cases h3 : mode &&& S_IFMT = S_IFBLK
  · exact Or.inr (Or.inr (Or.inl h3))
  by_cases h4 : mode &&& S_IFMT = S_IFCHR
  · exact Or.inr (Or.inr (Or.inr (Or.inl h4)))
  by_cases h5 : mode &&& S_IFMT = S_IFIFO
  · exact Or.inr (Or.inr (Or.inr (Or.inr h5)))
  simp only [h1, h2, h3, h4, h5, ↓reduceIte] at h
  split at h <;> cases h

/-! ## Non-vacuity -/

example : (copyPathIntoBuffer b!"abcdef" (some [1, 2, 3, 4]) 4) = (6, some b!"abcd") := by decide
example : (copyPathIntoBuffer b!"ab" (some [1, 2, 3, 4]) 4) = (2, some [97, 98, 3, 4]) := by decide
example : mknodType (S_IFLNK ||| 0o777) 0 = .error .invalidArgument :=
  C17_invalid_mode_rejected _ _ (by decide)
example : (copyPathIntoBuffer b!"abcd" (some [1, 2, 3, 4]) 4) = (4, some b!"abcd") :=
  C17_copy_retry_complete _ _ rfl
example : ∃ b, procBase PATHRS_PROC_SELF = .ok b := ⟨_, rfl⟩
