import Pathrs.Generated.AbiData

/-!
# C18 — the C header and the language bindings describe the exported ABI exactly

`AbiData` is regenerated from /repo's sources on every run by
`tools/abi_extract.py` (Rust `#[no_mangle] extern "C"` items with their `repr`
attributes, `include/pathrs.h`, `cbindgen.toml`, every `C.pathrs_*` call in the Go
binding with the casts at the call site, every `libpathrs_so.*` use and the `cdef`
preamble of the Python binding).  The theorem is therefore re-checked against
what the files say now.
-/

open Abi

def tables : Tables where
  rust := AbiData.rust
  header := AbiData.header
  rustEnum := AbiData.rustEnum
  headerEnum := AbiData.headerEnum
  rustStruct := AbiData.rustStruct
  headerStruct := AbiData.headerStruct
  goCalls := AbiData.goCalls
  goConsts := AbiData.goConsts
  pyCalls := AbiData.pyCalls
  pyConsts := AbiData.pyConsts
  pyTypedefs := AbiData.pyTypedefs
  renamesOk := AbiData.renamesOk
  aliases := AbiData.aliases

/-- the tables extracted from the current sources are consistent -/
theorem C18_abi_consistent : check tables = true := by decide

/-! ## What the check means -/

theorem check_core (t : Tables) (h : check t = true) : checkCore t = true := by
  simp only [check, Bool.and_eq_true] at h
  exact h.1

/-- the header declares exactly the exported functions, with the same ABI class
for the return value and every argument -/
theorem C18_header_matches_exports (t : Tables) (h : check t = true) : t.rust = t.header := by
  have h := check_core t h
  simp only [checkCore, Bool.and_eq_true, beq_iff_eq] at h
  exact h.1.1.1.1.1.1.1.1

/-- same enum values and the same struct layout (field order, classes, alignment) -/
theorem C18_enum_and_struct (t : Tables) (h : check t = true) :
    t.rustEnum = t.headerEnum ∧ t.rustStruct = t.headerStruct := by
  have h := check_core t h
  simp only [checkCore, Bool.and_eq_true, beq_iff_eq] at h
  exact ⟨h.1.1.1.1.1.1.1.2, h.1.1.1.1.1.1.2⟩

/-- every call in the Go binding names a declared function and passes arguments
of the declared classes -/
theorem C18_go_calls_declared (t : Tables) (h : check t = true) :
    ∀ c ∈ t.goCalls, ∃ d ∈ t.header, d.name = c.name ∧ argsCompat d.args c.args = true := by
  have h := check_core t h
  simp only [checkCore, Bool.and_eq_true, beq_iff_eq, List.all_eq_true] at h
  intro c hc
  have := h.1.1.1.1.1.2 c hc
  unfold callOk at this
  split at this
  · rename_i d hd
    have hm := List.mem_of_find?_eq_some hd
    have hp := List.find?_some hd
    exact ⟨d, hm, by simpa using hp, this⟩
  · cases this

/-- every call in the Python binding names a declared function with the right arity,
and the integer typedefs it declares to cffi have the real width -/
theorem C18_python_calls_declared (t : Tables) (h : check t = true) :
    (∀ c ∈ t.pyCalls, ∃ d ∈ t.header, d.name = c.1 ∧ d.args.length = c.2) ∧
    (∀ p ∈ t.pyTypedefs, p.1.width = p.2.width) := by
  have h := check_core t h
  simp only [checkCore, Bool.and_eq_true, beq_iff_eq, List.all_eq_true, decide_eq_true_eq] at h
  refine ⟨?_, h.1.2⟩
  intro c hc
  have := h.1.1.1.2 c hc
  unfold arityOk at this
  split at this
  · rename_i d hd
    have hm := List.mem_of_find?_eq_some hd
    have hp := List.find?_some hd
    exact ⟨d, hm, by simpa using hp, by simpa using this⟩
  · cases this

/-- every named constant a binding exports denotes the header constant of the same name -/
theorem C18_binding_constants_named (t : Tables) (h : check t = true) : ∀ p ∈ t.aliases, p.1 = p.2 := by
  simp only [check, Bool.and_eq_true, List.all_eq_true, beq_iff_eq] at h
  exact h.2

/-- non-vacuity: the check rejects a table in which the header lost a function -/
example : check { tables with header := tables.header.drop 1 } = false := by decide
example : check { tables with pyTypedefs := [(.devt, .u32)] } = false := by decide
example : check { tables with headerEnum := [(0, 1), (1, 2), (2, 3)] } = false := by decide
example : check { tables with aliases := (0, 1) :: tables.aliases } = false := by decide
example : tables.aliases ≠ [] := by decide
