import Pathrs.Generated.AbiData

/-!
# C18 — the C header and the language bindings describe the exported ABI exactly

`AbiData` is regenerated from /repo's sources on every run by
`tools/abi_extract.py` (Rust `#[no_mangle] extern "C"` items with their `repr`
attributes, `include/pathrs.h`, `cbindgen.toml`, every `C.pathrs_*` call in the Go
binding with the casts at the call site, every `libpathrs_so.*` use and the `cdef`
preamble of the Python binding).  The theorem is therefore re-checked against
what the files say now.
-/

open Abi

def tables : Tables where
  rust := AbiData.rust
  header := AbiData.header
  rustEnum := AbiData.rustEnum
  headerEnum := AbiData.headerEnum
  rustStruct := AbiData.rustStruct
  headerStruct := AbiData.headerStruct
  goCalls := AbiData.goCalls
  goConsts := AbiData.goConsts
  pyCalls := AbiData.pyCalls
  pyConsts := AbiData.pyConsts
  pyTypedefs := AbiData.pyTypedefs
  renamesOk := AbiData.renamesOk
  aliases := AbiData.aliases

/-- the tables extracted from the current sources are consistent -/
theorem C18_abi_consistent : check tables = true := by decide

/-! ## What the check means -/

theorem check_core (t : Tables) (h : check t = true) : checkCore t = true := by
  simp only [check, Bool.and_eq_true] at h
  exact h.1

/-- the header declares exactly the exported functions, with the same ABI class
for the return value and every argument -/
theorem C18_header_matches_exports (t : Tables) (h : check t = true) : t.rust = t.header := by
  have h := check_core t h
  simp only [checkCore, Bool.and_eq_true, beq_iff_eq] at h
  exact h.1.1.1.1.1.1.1.1

/-- same enum values and the same struct layout (field order, classes, alignment) -/
theorem C18_enum_and_struct (t : Tables) (h : check t = true) :
    t.rustEnum = t.headerEnum ∧ t.rustStruct = t.headerStruct := by
  have h := check_core t h
  simp only [checkCore, Bool.and_eq_true, beq_iff_eq] at h
  exact ⟨h.1.1.1.1.1.1.1.2, h.1.1.1.1.1.1.2⟩

/-- every call in the Go binding names a declared function and passes arguments
of the declared classes -/
theorem C18_go_calls_declared (t : Tables) (h : check t = true) :
    ∀ c ∈ t.goCalls, ∃ d ∈ t.header, d.name = c.name ∧ argsCompat d.args c.args = true := by
  have h := check_core t h
  simp only [checkCore, Bool.and_eq_true, beq_iff_eq, List.all_eq_true] at h
  intro c hc
  have := h.1.1.1.1.1.2 c hc
  unfold callOk at this
  split at this
  · rename_i d hd
    have hm := List.mem_of_find?_eq_some hd
    have hp := List.find?_some hd
    exact ⟨d, hm, by simpa using hp, this⟩
  · cases this

/-- every call in the Python binding names a declared function with the right arity,
and the integer typedefs it declares to cffi have the real width -/
theorem C18_python_calls_declared (t : Tables) (h : check t = true) :
    (∀ c ∈ t.pyCalls, ∃ d ∈ t.header, d.name = c.1 ∧ d.args.length = c.2) ∧
    (∀ p ∈ t.pyTypedefs, p.1.width = p.2.width) := by
  have h := check_core t h
  simp only [checkCore, Bool.and_eq_true, beq_iff_eq, List.all_eq_true, decide_eq_true_eq] at h
  refine ⟨?_, h.1.2⟩
  intro c hc
  have := h.1.1.1.2 c hc
  unfold arityOk at this
  split at this
  · rename_i d hd
    have hm := List.mem_of_find?_eq_some hd
    have hp := List.find?_some hd
    exact ⟨d, hm, by simpa using hp, by simpa using this⟩
  · cases this

/-- every named constant a binding exports denotes the header constant of the same name -/
theorem C18_binding_constants_named (t : Tables) (h : check t = true) : ∀ p ∈ t.aliases, p.1 = p.2 := by
  simp only [check, Bool.and_eq_true, List.all_eq_true, beq_iff_eq] at h
  exact h.2

/-- compatible argument lists have the same length -/
theorem argsCompat_length : ∀ (ds us : List CType), argsCompat ds us = true → ds.length = us.length
  | [], [], _ => rfl
  | _ :: ds, _ :: us, h => by
    simp only [argsCompat, Bool.and_eq_true] at h
    simp [argsCompat_length ds us h.2]
  | [], _ :: _, h => by simp [argsCompat] at h
  | _ :: _, [], h => by simp [argsCompat] at h

/-- … and agree position by position: whatever the binding passes at position `i`
is either untyped at the call site or of exactly the declared ABI class -/
theorem argsCompat_get : ∀ (ds us : List CType), argsCompat ds us = true →
    ∀ (i : Nat) (d u : CType), ds[i]? = some d → us[i]? = some u → u = CType.any ∨ d = u
  | [], [], _, i, d, u, hd, _ => by simp at hd
  | d0 :: ds, u0 :: us, h, i, d, u, hd, hu => by
    simp only [argsCompat, Bool.and_eq_true] at h
    cases i with
    | zero =>
      simp only [List.getElem?_cons_zero, Option.some.injEq] at hd hu
      subst hd hu
      simpa [compat] using h.1
    | succ j =>
      simp only [List.getElem?_cons_succ] at hd hu
      exact argsCompat_get ds us h.2 j d u hd hu
  | [], _ :: _, h, _, _, _, _, _ => by simp [argsCompat] at h
  | _ :: _, [], h, _, _, _, _, _ => by simp [argsCompat] at h

/-- the Go binding against what the library really exports (not just the header):
every call names an exported Rust function, passes exactly as many arguments as
it takes, each of the exported ABI class unless untyped at the call site -/
theorem C18_go_calls_match_exports (t : Tables) (h : check t = true) :
    ∀ c ∈ t.goCalls, ∃ d ∈ t.rust, d.name = c.name ∧ d.args.length = c.args.length ∧
      ∀ (i : Nat) (a u : CType), d.args[i]? = some a → c.args[i]? = some u → u = CType.any ∨ a = u := by
  intro c hc
  obtain ⟨d, hd, hn, ha⟩ := C18_go_calls_declared t h c hc
  rw [← C18_header_matches_exports t h] at hd
  exact ⟨d, hd, hn, argsCompat_length _ _ ha, argsCompat_get _ _ ha⟩

/-- the Python binding against the exports: every call names an exported Rust function of that arity -/
theorem C18_python_calls_match_exports (t : Tables) (h : check t = true) :
    ∀ c ∈ t.pyCalls, ∃ d ∈ t.rust, d.name = c.1 ∧ d.args.length = c.2 := by
  intro c hc
  obtain ⟨d, hd, hn, ha⟩ := (C18_python_calls_declared t h).1 c hc
  rw [← C18_header_matches_exports t h] at hd
  exact ⟨d, hd, hn, ha⟩

/-- every enum constant a binding uses is a constant of the Rust enum (with, by
`C18_enum_and_struct`, the value the header gives it) -/
theorem C18_binding_constants_exist (t : Tables) (h : check t = true) :
    (∀ k ∈ t.goConsts, ∃ kv ∈ t.rustEnum, kv.1 = k) ∧ (∀ k ∈ t.pyConsts, ∃ kv ∈ t.rustEnum, kv.1 = k) := by
  have he := (C18_enum_and_struct t h).1
  have h := check_core t h
  simp only [checkCore, Bool.and_eq_true, beq_iff_eq, List.all_eq_true, List.any_eq_true,
    decide_eq_true_eq] at h
  rw [he]
  exact ⟨h.1.1.1.1.2, h.1.1.2⟩

/-- non-vacuity: the check rejects a table in which the header lost a function -/
example : check { tables with header := tables.header.drop 1 } = false := by decide
example : check { tables with pyTypedefs := [(.devt, .u32)] } = false := by decide
example : check { tables with headerEnum := [(0, 1), (1, 2), (2, 3)] } = false := by decide
example : check { tables with aliases := (0, 1) :: tables.aliases } = false := by decide
example : tables.aliases ≠ [] := by decide
example : tables.goCalls ≠ [] ∧ tables.pyCalls ≠ [] ∧ tables.goConsts ≠ [] ∧ tables.pyConsts ≠ [] := by decide
