import Pathrs.Root

/-!
# Rely/guarantee for the creating loop of `mkdir_all` (C12)
-/

open K

/-- trace-only runs: `RunsT p t r` — along the answers recorded in `t`, `p` ends with `r` -/
inductive RunsT : Prog α → Hist → α → Prop where
  | ret (a : α) : RunsT (.ret a) [] a
  | call (c : Call) (k : Resp → Prog α) (r : Resp) (t : Hist) (a : α) :
      RunsT (k r) t a → RunsT (.call c k) ((c, r) :: t) a

namespace RunsT

theorem ret_inv {a b : α} {t : Hist} (h : RunsT (.ret a) t b) : t = [] ∧ b = a := by
  cases h; exact ⟨rfl, rfl⟩

theorem call_inv {c : Call} {k : Resp → Prog α} {t : Hist} {a : α} (h : RunsT (.call c k) t a) :
    ∃ r t', t = (c, r) :: t' ∧ RunsT (k r) t' a := by
  cases h with
  | call _ _ r t' _ hk => exact ⟨r, t', rfl, hk⟩

theorem bind_inv {p : Prog α} {f : α → Prog β} {t : Hist} {b : β} (h : RunsT (Prog.bind p f) t b) :
    ∃ t1 t2 a, t = t1 ++ t2 ∧ RunsT p t1 a ∧ RunsT (f a) t2 b := by
  induction p generalizing t with
  | ret a => exact ⟨[], t, a, rfl, .ret a, h⟩
  | call c k ih =>
    obtain ⟨r, t', rfl, hk⟩ := call_inv h
    obtain ⟨t1, t2, a, rfl, h1, h2⟩ := ih r hk
    exact ⟨(c, r) :: t1, t2, a, rfl, .call c k r t1 a h1, h2⟩

/-- `M.bind'` -/
theorem mbind_inv {p : M α} {f : α → M β} {t : Hist} {r : Except Err β} (h : RunsT (M.bind' p f) t r) :
    ∃ t1 t2 x, t = t1 ++ t2 ∧ RunsT p t1 x ∧
      ((∃ a, x = .ok a ∧ RunsT (f a) t2 r) ∨ (∃ e, x = .error e ∧ t2 = [] ∧ r = .error e)) := by
  unfold M.bind' at h
  obtain ⟨t1, t2, x, rfl, h1, h2⟩ := bind_inv h
  cases x with
  | ok a => exact ⟨t1, t2, _, rfl, h1, Or.inl ⟨a, rfl, h2⟩⟩
  | error e =>
    obtain ⟨rfl, rfl⟩ := ret_inv h2
    exact ⟨t1, [], _, rfl, h1, Or.inr ⟨e, rfl, rfl, rfl⟩⟩

/-- `M.bind'`, continuation as a match -/
theorem mbind_inv' {p : M α} {f : α → M β} {t : Hist} {r : Except Err β} (h : RunsT (M.bind' p f) t r) :
    ∃ t1 t2 x, t = t1 ++ t2 ∧ RunsT p t1 x ∧
      RunsT (match x with | .ok a => f a | .error e => Prog.ret (.error e)) t2 r := by
  unfold M.bind' at h
  obtain ⟨t1, t2, x, rfl, h1, h2⟩ := bind_inv h
  exact ⟨t1, t2, x, rfl, h1, by cases x <;> exact h2⟩

theorem lift_inv {p : Prog α} {t : Hist} {r : Except Err α} (h : RunsT (M.lift p) t r) :
    ∃ a, RunsT p t a ∧ r = .ok a := by
  unfold M.lift at h
  obtain ⟨t1, t2, a, rfl, h1, h2⟩ := bind_inv h
  obtain ⟨rfl, rfl⟩ := ret_inv h2
  exact ⟨a, by simpa using h1, rfl⟩

theorem mcall_inv {c : Call} {t : Hist} {r : Except Err Resp} (h : RunsT (M.call c) t r) :
    ∃ x, t = [(c, x)] ∧ r = .ok x := by
  unfold M.call Prog.perform at h
  obtain ⟨a, h1, rfl⟩ := lift_inv h
  obtain ⟨x, t', rfl, hx⟩ := call_inv h1
  obtain ⟨rfl, ha⟩ := ret_inv hx
  exact ⟨x, rfl, by rw [ha]⟩

theorem ofExcept_inv {x : Except Err α} {t : Hist} {r : Except Err α} (h : RunsT (M.ofExcept x) t r) :
    t = [] ∧ r = x := by
  cases x with
  | ok a => exact ret_inv h
  | error e => exact ret_inv h

theorem try_inv {p : M α} {t : Hist} {r : Except Err (Except Err α)} (h : RunsT (M.try' p) t r) :
    ∃ x, RunsT p t x ∧
      ((∃ a, x = .ok a ∧ r = .ok (.ok a)) ∨
       (∃ e, x = .error e ∧ ((e.isFatal = true ∧ r = .error e) ∨ (e.isFatal = false ∧ r = .ok (.error e))))) := by
  unfold M.try' at h
  obtain ⟨t1, t2, x, rfl, h1, h2⟩ := bind_inv h
  cases x with
  | ok a =>
    obtain ⟨rfl, rfl⟩ := ret_inv h2
    exact ⟨_, by simpa using h1, Or.inl ⟨a, rfl, rfl⟩⟩
  | error e =>
    by_cases hf : e.isFatal = true
    · simp only [hf, ↓reduceIte] at h2
      obtain ⟨rfl, rfl⟩ := ret_inv h2
      exact ⟨_, by simpa using h1, Or.inr ⟨e, rfl, Or.inl ⟨hf, rfl⟩⟩⟩
    · simp only [hf] at h2
      obtain ⟨rfl, rfl⟩ := ret_inv h2
      exact ⟨_, by simpa using h1, Or.inr ⟨e, rfl, Or.inr ⟨by simpa using hf, rfl⟩⟩⟩

/-- `onErr`: on success nothing is added; on failure the clean-up's events follow -/
theorem onErr_inv {p : M α} {c : Prog Unit} {t : Hist} {r : Except Err α} (h : RunsT (M.onErr p c) t r) :
    ∃ t1 t2 x, t = t1 ++ t2 ∧ RunsT p t1 x ∧
      ((∃ a, x = .ok a ∧ t2 = [] ∧ r = .ok a) ∨ (∃ e, x = .error e ∧ r = .error e)) := by
  unfold M.onErr at h
  obtain ⟨t1, t2, x, rfl, h1, h2⟩ := bind_inv h
  cases x with
  | ok a =>
    obtain ⟨rfl, rfl⟩ := ret_inv h2
    exact ⟨t1, [], _, rfl, h1, Or.inl ⟨a, rfl, rfl, rfl⟩⟩
  | error e =>
    obtain ⟨t3, t4, _, rfl, _, h4⟩ := bind_inv h2
    obtain ⟨_, rfl⟩ := ret_inv h4
    exact ⟨t1, _, _, rfl, h1, Or.inr ⟨e, rfl, rfl⟩⟩

end RunsT

/-! ## A mutable kernel, as far as the creating loop talks to it -/

/-- directory entries and kinds; descriptors are identified with objects (`openat` returns the
object's id); ids `≥ next` are unused -/
structure KS where
  child : Fd → Bytes → Option Fd
  isDir : Fd → Bool
  next : Fd

namespace KS

/-- the kernel's answer in state `w` -/
def answer (w : KS) : Call → Resp
  | .mkdirat d n _ =>
      if w.isDir d = false then .err ENOTDIR
      else match w.child d n with
        | some _ => .err EEXIST
        | none => .unit
  | .openat d n _ _ =>
      -- the only opens of the loop are `O_NOFOLLOW|O_DIRECTORY`
      match w.child d n with
      | some c => if w.isDir c then .fd c else .err ENOTDIR
      | none => .err ENOENT
  | .close _ => .unit
  | .gettid => .nums [1]
  | .fstatat _ _ _ => .nums [S_IFLNK ||| 0o777, 0, 3, 5]
  | .readlinkAbs _ => .bytes b!"/"
  | _ => .err ENOSYS

/-- … and what the call does to the state -/
def effect (w : KS) : Call → KS
  | .mkdirat d n _ =>
      if w.isDir d = false then w
      else match w.child d n with
        | some _ => w
        | none =>
          { child := fun d' n' => if d' = d ∧ n' = n then some w.next else w.child d' n'
            isDir := fun i => if i = w.next then true else w.isDir i
            next := w.next + 1 }
  | _ => w

end KS

/-- rely/guarantee relation: only directories are added (entries and kinds are kept, ids stay allocated) -/
structure AddsDirs (w w' : KS) : Prop where
  keep    : ∀ d n c, w.child d n = some c → w'.child d n = some c
  kinds   : ∀ i, i < w.next → w'.isDir i = w.isDir i
  newDirs : ∀ d n c, w.child d n = none → w'.child d n = some c → w'.isDir c = true ∧ w.next ≤ c
  mono    : w.next ≤ w'.next

/-- allocator invariant -/
structure Alloc (w : KS) : Prop where
  bound : ∀ d n c, w.child d n = some c → c < w.next
  unused : ∀ d n, w.next ≤ d → w.child d n = none
  dirs : ∀ i, w.isDir i = true → i < w.next
  pos : ∀ d n c, w.child d n = some c → 0 ≤ c
  next_pos : 0 ≤ w.next

theorem AddsDirs.refl (w : KS) : AddsDirs w w :=
  ⟨fun _ _ _ h => h, fun _ _ => rfl, fun _ _ _ h h' => by simp [h] at h', Int.le_refl _⟩

theorem AddsDirs.trans {a b c : KS} (hb : Alloc b) (h1 : AddsDirs a b) (h2 : AddsDirs b c) : AddsDirs a c where
  keep d n x h := h2.keep _ _ _ (h1.keep _ _ _ h)
  kinds i hi := by rw [h2.kinds i (Int.lt_of_lt_of_le hi h1.mono), h1.kinds i hi]
  newDirs d n x h h' := by
    cases hb' : b.child d n with
    | none =>
      have := h2.newDirs d n x hb' h'
      exact ⟨this.1, Int.le_trans h1.mono this.2⟩
    | some y =>
      have hy := h2.keep _ _ _ hb'
      have hxy : x = y := by rw [hy] at h'; exact (Option.some.inj h').symm
      subst hxy
      have := h1.newDirs d n x h hb'
      exact ⟨by rw [h2.kinds x (hb.bound _ _ _ hb')]; exact this.1, this.2⟩
  mono := Int.le_trans h1.mono h2.mono

theorem int_lt_succ (a : Int) : a < a + 1 := by omega
theorem int_ne_of_lt {a b : Int} (h : a < b) : a ≠ b := by omega
theorem int_le_of_succ_le {a b : Int} (h : a + 1 ≤ b) : a ≤ b := by omega
theorem int_lt_succ_of_lt {a b : Int} (h : a < b) : a < b + 1 := by omega
theorem int_not_succ_le_of_lt {a b : Int} (h : a < b) (h2 : b + 1 ≤ a) : False := by omega
theorem int_lt_of_succ_le {a b : Int} (h : a + 1 ≤ b) : a < b := by omega

/-- **guarantee**: whatever call the program makes, its effect only adds a directory, and the
allocator invariant is kept -/
theorem effect_guarantee (w : KS) (ha : Alloc w) (c : Call) : AddsDirs w (w.effect c) ∧ Alloc (w.effect c) := by
  cases c with
  | mkdirat d n m =>
    simp only [KS.effect]
    by_cases hd : w.isDir d = false
    · simp only [hd, ↓reduceIte]; exact ⟨AddsDirs.refl _, ha⟩
    · have hdir : w.isDir d = true := by simpa using hd
      have hdn : d < w.next := ha.dirs d hdir
      rw [hdir]
      simp only [Bool.true_eq_false, ↓reduceIte]
      cases hc : w.child d n with
      | some c => exact ⟨AddsDirs.refl _, ha⟩
      | none =>
        refine ⟨⟨?_, ?_, ?_, ?_⟩, ⟨?_, ?_, ?_, ?_, ?_⟩⟩
        · intro d' n' c h
          by_cases e : d' = d ∧ n' = n
          · obtain ⟨rfl, rfl⟩ := e; rw [hc] at h; cases h
          · simp [e, h]
        · intro i hi; simp [int_ne_of_lt hi]
        · intro d' n' c h h'
          by_cases e : d' = d ∧ n' = n
          · simp [e] at h'; subst h'; simp
          · simp [e, h] at h'
        · exact Int.le_of_lt (int_lt_succ _)
        · intro d' n' c h
          dsimp only at h ⊢
          by_cases e : d' = d ∧ n' = n
          · simp [e] at h; subst h; exact int_lt_succ _
          · simp [e] at h; exact int_lt_succ_of_lt (ha.bound _ _ _ h)
        · intro d' n' hd'
          dsimp only at hd' ⊢
          have hne : ¬ (d' = d ∧ n' = n) := by
            intro e; rw [e.1] at hd'; exact int_not_succ_le_of_lt hdn hd'
          rw [if_neg hne]
          exact ha.unused _ _ (int_le_of_succ_le hd')
        · intro i hi
          dsimp only at hi ⊢
          by_cases e : i = w.next
          · rw [e]; exact int_lt_succ _
          · rw [if_neg e] at hi
            exact int_lt_succ_of_lt (ha.dirs i hi)
        · intro d' n' c h
          dsimp only at h
          by_cases e : d' = d ∧ n' = n
          · simp [e] at h; subst h; exact ha.next_pos
          · simp [e] at h; exact ha.pos _ _ _ h
        · exact Int.le_trans ha.next_pos (Int.le_of_lt (int_lt_succ _))
  | _ => exact ⟨AddsDirs.refl _, ha⟩

/-- a history the kernel could have produced, with environment steps satisfying the rely
before every call and at the end -/
inductive Valid : KS → Hist → KS → Prop where
  | nil {w w'} : AddsDirs w w' → Alloc w' → Valid w [] w'
  | cons {w w1 w' c r t} : AddsDirs w w1 → Alloc w1 → r = w1.answer c → Valid (w1.effect c) t w' →
      Valid w ((c, r) :: t) w'

theorem Valid.split {w w' : KS} {t1 t2 : Hist} (ha : Alloc w) (h : Valid w (t1 ++ t2) w') :
    ∃ wm, Valid w t1 wm ∧ Valid wm t2 w' ∧ Alloc wm := by
  induction t1 generalizing w with
  | nil => exact ⟨w, .nil (AddsDirs.refl w) ha, h, ha⟩
  | cons x t ih =>
    cases h with
    | cons hR hA hr hv =>
      obtain ⟨wm, h1, h2, h3⟩ := ih (effect_guarantee _ hA _).2 hv
      exact ⟨wm, .cons hR hA hr h1, h2, h3⟩

/-- the whole history only added directories -/
theorem Valid.adds {w w' : KS} {t : Hist} (ha : Alloc w) (h : Valid w t w') : AddsDirs w w' ∧ Alloc w' := by
  induction h with
  | nil hR hA => exact ⟨hR, hA⟩
  | @cons w0 w1 w2 c r t hR hA hr hv ih =>
    have hg := effect_guarantee w1 hA c
    obtain ⟨h1, h2⟩ := ih hg.2
    exact ⟨AddsDirs.trans hA hR (AddsDirs.trans hg.2 hg.1 h1), h2⟩

/-- every recorded answer is the kernel's answer in *some* state -/
theorem Valid.answers {w w' : KS} {t : Hist} (h : Valid w t w') : ∀ x ∈ t, ∃ w1, x.2 = KS.answer w1 x.1 := by
  induction h with
  | nil _ _ => intro x hx; cases hx
  | cons hR hA hr hv ih =>
    intro x hx
    rcases List.mem_cons.mp hx with rfl | hx
    · exact ⟨_, hr⟩
    · exact ih x hx

/-! ## What the loop is supposed to reach -/

/-- walking names through directories only -/
def kwalk (w : KS) (cur : Fd) : List Bytes → Option Fd
  | [] => some cur
  | p :: rest => match w.child cur p with
    | some c => if w.isDir c then kwalk w c rest else none
    | none => none

/-- precondition: what already exists of the chain consists of directories -/
def Pre (w : KS) (cur : Fd) : List Bytes → Prop
  | [] => True
  | p :: rest => match w.child cur p with
    | some c => w.isDir c = true ∧ Pre w c rest
    | none => True

theorem pre_of_fresh {w w' : KS} (ha : Alloc w) (hR : AddsDirs w w') :
    ∀ (parts : List Bytes) (c : Fd), w.next ≤ c → Pre w' c parts := by
  intro parts
  induction parts with
  | nil => intros; trivial
  | cons p rest ih =>
    intro c hc
    simp only [Pre]
    cases hc' : w'.child c p with
    | none => trivial
    | some x =>
      have := hR.newDirs c p x (ha.unused c p hc) hc'
      exact ⟨this.1, ih x this.2⟩

theorem pre_stable {w w' : KS} (ha : Alloc w) (hR : AddsDirs w w') :
    ∀ (parts : List Bytes) (cur : Fd), Pre w cur parts → Pre w' cur parts := by
  intro parts
  induction parts with
  | nil => intros; trivial
  | cons p rest ih =>
    intro cur hpre
    simp only [Pre] at hpre ⊢
    cases hc : w.child cur p with
    | some c =>
      simp only [hc] at hpre
      simp only [hR.keep _ _ _ hc]
      exact ⟨by rw [hR.kinds c (ha.bound _ _ _ hc)]; exact hpre.1, ih c hpre.2⟩
    | none =>
      cases hc' : w'.child cur p with
      | none => trivial
      | some c =>
        have := hR.newDirs _ _ _ hc hc'
        exact ⟨this.1, pre_of_fresh ha hR rest c this.2⟩

/-! ## The diagnostic reads make no `mkdirat`, whatever they are answered

Building an error value always completes (a failing probe of a thread-self spelling just
moves on to the next one), so the answers of the kernel do not matter here. -/

def NoMk (t : Hist) : Prop := ∀ x ∈ t, ∀ d n m, x.1 ≠ Call.mkdirat d n m

theorem NoMk.nil : NoMk [] := fun _ hx => by cases hx

theorem NoMk.append {a b : Hist} (ha : NoMk a) (hb : NoMk b) : NoMk (a ++ b) := fun x hx =>
  (List.mem_append.mp hx).elim (ha x) (hb x)

theorem freeze_probe_noMk : ∀ (cands : List Bytes) {t : Hist} {b : Bytes},
    RunsT (Sys.freeze.probe cands) t b → NoMk t := by
  intro cands
  induction cands with
  | nil =>
    intro t b hr
    rw [Sys.freeze.probe.eq_1] at hr
    obtain ⟨rfl, _⟩ := RunsT.ret_inv hr
    exact NoMk.nil
  | cons cand rest ih =>
    intro t b hr
    rw [Sys.freeze.probe.eq_2] at hr
    obtain ⟨r, t', rfl, hr'⟩ := RunsT.call_inv hr
    have ht' : NoMk t' := by
      split at hr'
      · exact ih hr'
      · obtain ⟨rfl, _⟩ := RunsT.ret_inv hr'
        exact NoMk.nil
    intro x hx d n m
    rcases List.mem_cons.mp hx with rfl | hx
    · simp
    · exact ht' x hx d n m

theorem freeze_noMk (fd : Fd) {t : Hist} {u : Unit} (hr : RunsT (Sys.freeze fd) t u) : NoMk t := by
  unfold Sys.freeze at hr
  obtain ⟨t1, t2, tid, rfl, h1, h2⟩ := RunsT.bind_inv hr
  -- gettid
  unfold Sys.gettid at h1
  obtain ⟨r1, t1', rfl, h1'⟩ := RunsT.call_inv h1
  have ht1' : t1' = [] := by
    split at h1' <;> exact (RunsT.ret_inv h1').1
  subst ht1'
  obtain ⟨t3, t4, base, rfl, h3, h4⟩ := RunsT.bind_inv h2
  have h3' := freeze_probe_noMk _ h3
  have h1n : NoMk [(Call.gettid, r1)] := by
    intro x hx d n m
    simp at hx
    subst hx
    simp
  refine h1n.append (h3'.append ?_)
  split at h4
  · obtain ⟨rfl, _⟩ := RunsT.ret_inv h4
    exact NoMk.nil
  · obtain ⟨r5, t5, rfl, h5⟩ := RunsT.call_inv h4
    obtain ⟨rfl, _⟩ := RunsT.ret_inv h5
    intro x hx d n m
    simp at hx
    subst hx
    simp

theorem failWith_kernel {α : Type} (d : Fd) (e : Nat) {t : Hist} {x : Except Err α}
    (hr : RunsT (Sys.failWith [d] e : M α) t x) : x = .error (.os e) ∧ NoMk t := by
  unfold Sys.failWith Sys.failWith.go at hr
  obtain ⟨t1, t2, u, rfl, h1, h2⟩ := RunsT.bind_inv hr
  have hn := freeze_noMk d h1
  unfold Sys.failWith.go at h2
  obtain ⟨rfl, rfl⟩ := RunsT.ret_inv h2
  exact ⟨rfl, by simpa using hn⟩

/-! ## The steps of the loop on this kernel, with the environment moving in between -/

theorem hotfix_ok {d : Fd} (h : 0 ≤ d) : Sys.hotfix d = .ok () := by
  unfold Sys.hotfix
  simp [h]

theorem Valid.nil_inv {w w' : KS} (h : Valid w [] w') : AddsDirs w w' ∧ Alloc w' := by
  cases h with
  | nil hR hA => exact ⟨hR, hA⟩

/-- no `mkdirat` in a history: the state only moved by environment steps -/
theorem Valid.noMk {w w' : KS} {t : Hist} (ha : Alloc w) (h : Valid w t w') : AddsDirs w w' ∧ Alloc w' :=
  Valid.adds ha h

/-- the tolerant `mkdirat`: succeeds, and afterwards the component exists and is a directory -/
theorem mkdirTolerant_step {cur : Fd} {part : Bytes} {perm : Nat} {rest : List Bytes} {w wm : KS} {t : Hist}
    {y : Except Err Unit}
    (hr : RunsT (Root.mkdirTolerant cur part perm) t y) (hv : Valid w t wm) (ha : Alloc w)
    (hc0 : 0 ≤ cur) (hd : w.isDir cur = true) (hpre : Pre w cur (part :: rest)) :
    y = .ok () ∧ ∃ c, wm.child cur part = some c ∧ wm.isDir c = true ∧ Pre wm c rest ∧ Alloc wm ∧ AddsDirs w wm := by
  have hwhole := Valid.adds ha hv
  unfold Root.mkdirTolerant at hr
  simp only [M.bind_def] at hr
  obtain ⟨t1, t2, x, rfl, h1, hfin⟩ := RunsT.mbind_inv' hr
  obtain ⟨z, hz, hzc⟩ := RunsT.try_inv h1
  -- the mkdirat wrapper
  unfold Sys.mkdirat at hz
  simp only [M.bind_def] at hz
  obtain ⟨ta, tb, u, rfl, hh, hunit⟩ := RunsT.mbind_inv' hz
  have hh' : RunsT (M.ofExcept (Sys.hotfix cur)) ta u := hh
  obtain ⟨rfl, hu⟩ := RunsT.ofExcept_inv hh'
  rw [hotfix_ok hc0] at hu
  subst hu
  simp only [] at hunit
  unfold Sys.unitCall at hunit
  simp only [M.bind_def] at hunit
  obtain ⟨tc, td, v, rfl, hcall, hdisp⟩ := RunsT.mbind_inv' hunit
  obtain ⟨resp, rfl, hv'⟩ := RunsT.mcall_inv hcall
  subst hv'
  simp only [] at hdisp
  -- the kernel's answer
  simp only [List.nil_append, List.singleton_append, List.cons_append] at hv
  cases hv with
  | @cons _ w1 _ _ _ _ hR hA hresp hrest =>
    have hd1 : w1.isDir cur = true := by rw [hR.kinds cur (ha.dirs cur hd)]; exact hd
    have hpre1 := pre_stable ha hR _ _ hpre
    simp only [KS.answer, hd1, Bool.true_eq_false, ↓reduceIte] at hresp
    cases hch : w1.child cur part with
    | some c0 =>
      -- somebody (we earlier, or another caller) already made it: EEXIST, tolerated
      simp only [hch] at hresp
      subst hresp
      simp only [] at hdisp
      obtain ⟨hz', hnomk⟩ := failWith_kernel cur EEXIST hdisp
      subst hz'
      -- try' turns it into a value, the tolerant wrapper accepts EEXIST
      rcases hzc with ⟨a, ha', _⟩ | ⟨e, he, hfe⟩
      · cases ha'
      · cases he
        rcases hfe with ⟨hf, _⟩ | ⟨_, hx⟩
        · simp [Err.isFatal] at hf
        · subst hx
          simp only [ne_eq, not_true_eq_false, ↓reduceIte] at hfin
          obtain ⟨rfl, rfl⟩ := RunsT.ret_inv hfin
          simp only [List.append_nil] at hrest
          have hw1eff : w1.effect (Call.mkdirat cur part perm) = w1 := by
            simp only [KS.effect, hd1, Bool.true_eq_false, ↓reduceIte, hch]
          rw [hw1eff] at hrest
          obtain ⟨hR2, hA2⟩ := Valid.adds hA hrest
          simp only [Pre, hch] at hpre1
          refine ⟨rfl, c0, hR2.keep _ _ _ hch, ?_, pre_stable hA hR2 _ _ hpre1.2, hA2, hwhole.1⟩
          rw [hR2.kinds c0 (hA.bound _ _ _ hch)]; exact hpre1.1
    | none =>
      simp only [hch] at hresp
      subst hresp
      simp only [] at hdisp
      obtain ⟨rfl, hzz⟩ := RunsT.ret_inv hdisp
      subst hzz
      have hx : x = .ok (.ok ()) := by
        rcases hzc with ⟨a, ha', hx⟩ | ⟨e, he, _⟩
        · cases ha'; exact hx
        · cases he
      subst hx
      simp only [] at hfin
      obtain ⟨rfl, rfl⟩ := RunsT.ret_inv hfin
      simp only [List.append_nil] at hrest
      have hg := effect_guarantee w1 hA (Call.mkdirat cur part perm)
      obtain ⟨hR2, hA2⟩ := Valid.adds hg.2 hrest
      -- the new directory
      have hnew : (w1.effect (Call.mkdirat cur part perm)).child cur part = some w1.next := by
        simp only [KS.effect, hd1, Bool.true_eq_false, ↓reduceIte, hch, and_self]
      have hnewd : (w1.effect (Call.mkdirat cur part perm)).isDir w1.next = true := by
        simp only [KS.effect, hd1, Bool.true_eq_false, ↓reduceIte, hch]
      have hnext : (w1.effect (Call.mkdirat cur part perm)).next = w1.next + 1 := by
        simp only [KS.effect, hd1, Bool.true_eq_false, ↓reduceIte, hch]
      refine ⟨rfl, w1.next, hR2.keep _ _ _ hnew, ?_, ?_, hA2, hwhole.1⟩
      · rw [hR2.kinds w1.next (by rw [hnext]; exact int_lt_succ _)]; exact hnewd
      · exact pre_of_fresh hA (AddsDirs.trans hg.2 hg.1 hR2) rest w1.next (Int.le_refl _)

/-- the `O_NOFOLLOW|O_DIRECTORY` open of a component that exists and is a directory -/
theorem openat_step {cur c : Fd} {part : Bytes} {fl : Nat} {w wn : KS} {t : Hist} {z : Except Err Fd}
    (hr : RunsT (Sys.openat cur part fl 0) t z) (hv : Valid w t wn) (ha : Alloc w)
    (hc0 : 0 ≤ cur) (hch : w.child cur part = some c) (hd : w.isDir c = true) :
    z = .ok c ∧ AddsDirs w wn ∧ Alloc wn := by
  have hwhole := Valid.adds ha hv
  refine ⟨?_, hwhole⟩
  unfold Sys.openat Sys.openatFollow at hr
  simp only [M.bind_def] at hr
  obtain ⟨ta, tb, u, rfl, hh, hcall⟩ := RunsT.mbind_inv' hr
  have hh' : RunsT (M.ofExcept (Sys.hotfix cur)) ta u := hh
  obtain ⟨rfl, hu⟩ := RunsT.ofExcept_inv hh'
  rw [hotfix_ok hc0] at hu
  subst hu
  simp only [] at hcall
  obtain ⟨tc, td, v, rfl, hc, hdisp⟩ := RunsT.mbind_inv' hcall
  obtain ⟨resp, rfl, hv'⟩ := RunsT.mcall_inv hc
  subst hv'
  simp only [] at hdisp
  simp only [List.nil_append, List.singleton_append] at hv
  cases hv with
  | @cons _ w1 _ _ _ _ hR hA hresp hrest =>
    have h1 : w1.child cur part = some c := hR.keep _ _ _ hch
    have h2 : w1.isDir c = true := by rw [hR.kinds c (ha.bound _ _ _ hch)]; exact hd
    simp only [KS.answer, h1, h2, ↓reduceIte] at hresp
    subst hresp
    simp only [] at hdisp
    exact (RunsT.ret_inv hdisp).2

theorem kwalk_stable {w w' : KS} (ha : Alloc w) (hR : AddsDirs w w') :
    ∀ (parts : List Bytes) (cur fd : Fd), kwalk w cur parts = some fd → kwalk w' cur parts = some fd := by
  intro parts
  induction parts with
  | nil => intro cur fd h; exact h
  | cons p rest ih =>
    intro cur fd h
    simp only [kwalk] at h ⊢
    cases hc : w.child cur p with
    | none => simp [hc] at h
    | some c =>
      simp only [hc] at h
      rw [hR.keep _ _ _ hc]
      by_cases hd : w.isDir c = true
      · simp only [hd, ↓reduceIte] at h
        simp only [hR.kinds c (ha.bound _ _ _ hc), hd, ↓reduceIte]
        exact ih c fd h
      · simp [hd] at h

/-- **C12, convergence.**  Interleaved with *any* environment that only adds directories
(other `mkdir_all` callers, in any number and at every system-call boundary), the creating
loop succeeds; the descriptor it returns is the directory reached by walking the components
from the starting directory in the final state; and everything that happened — its own steps
included — only added directories. -/
theorem mkdirLoop_converges (perm : Nat) : ∀ (parts : List Bytes) (cur : Fd) (w w' : KS) (t : Hist) (r : Except Err Fd),
    Alloc w → 0 ≤ cur → w.isDir cur = true → (∀ p ∈ parts, Path.containsSlash p = false) → Pre w cur parts →
    RunsT (Root.mkdirLoop perm cur parts) t r → Valid w t w' →
    ∃ fd, r = .ok fd ∧ kwalk w' cur parts = some fd ∧ AddsDirs w w' ∧ Alloc w' := by
  intro parts
  induction parts with
  | nil =>
    intro cur w w' t r ha _ _ _ _ hr hv
    unfold Root.mkdirLoop at hr
    obtain ⟨rfl, rfl⟩ := RunsT.ret_inv hr
    obtain ⟨hR, hA⟩ := Valid.nil_inv hv
    exact ⟨cur, rfl, rfl, hR, hA⟩
  | cons part rest ih =>
    intro cur w w' t r ha hc0 hd hns hpre hr hv
    unfold Root.mkdirLoop at hr
    have hs : Path.containsSlash part = false := hns part List.mem_cons_self
    simp only [hs, Bool.false_eq_true, ↓reduceIte, M.bind_def] at hr
    -- mkdirat (tolerant)
    obtain ⟨t1, t2, x1, rfl, h1, hr2⟩ := RunsT.mbind_inv' hr
    obtain ⟨ta, tb, y, rfl, hmk, hcase⟩ := RunsT.onErr_inv h1
    rw [List.append_assoc] at hv
    obtain ⟨wm, hva, hvrest, hAm⟩ := Valid.split ha hv
    obtain ⟨hy, c, hchm, hdm, hprem, _, hRm⟩ := mkdirTolerant_step hmk hva ha hc0 hd hpre
    subst hy
    rcases hcase with ⟨_, hok, htb, hx1⟩ | ⟨e, he, _⟩
    · cases hok
      subst htb hx1
      simp only [List.nil_append] at hvrest
      simp only [] at hr2
      -- open it
      obtain ⟨t3, t4, x3, rfl, h3, hr4⟩ := RunsT.mbind_inv' hr2
      obtain ⟨tc, td, z, rfl, hop, hcase3⟩ := RunsT.onErr_inv h3
      rw [List.append_assoc] at hvrest
      obtain ⟨wn, hvc, hvrest2, hAn⟩ := Valid.split hAm hvrest
      obtain ⟨hz, hRn, _⟩ := openat_step hop hvc hAm hc0 hchm hdm
      subst hz
      rcases hcase3 with ⟨_, hok3, htd, hx3⟩ | ⟨e, he, _⟩
      · cases hok3
        subst htd hx3
        simp only [List.nil_append] at hvrest2
        simp only [] at hr4
        -- close the previous directory
        obtain ⟨t5, t6, x5, rfl, h5, hr6⟩ := RunsT.mbind_inv' hr4
        have h5' : RunsT (M.lift (Sys.close cur)) t5 x5 := h5
        obtain ⟨_, _, hx5⟩ := RunsT.lift_inv h5'
        subst hx5
        simp only [] at hr6
        obtain ⟨wo, hvcl, hvrest3, hAo⟩ := Valid.split hAn hvrest2
        obtain ⟨hRo, _⟩ := Valid.adds hAn hvcl
        -- the rest of the chain, from the new directory
        have hRmo : AddsDirs wm wo := AddsDirs.trans hAn hRn hRo
        have hcho : wo.child cur part = some c := hRmo.keep _ _ _ hchm
        have hdo : wo.isDir c = true := by rw [hRmo.kinds c (hAm.bound _ _ _ hchm)]; exact hdm
        have hpreo : Pre wo c rest := pre_stable hAm hRmo _ _ hprem
        obtain ⟨fd, hr', hwalk, hRf, hAf⟩ :=
          ih c wo w' t6 r hAo (hAm.pos _ _ _ hchm) hdo (fun p hp => hns p (List.mem_cons_of_mem _ hp)) hpreo hr6 hvrest3
        refine ⟨fd, hr', ?_, AddsDirs.trans hAm hRm (AddsDirs.trans hAo hRmo hRf), hAf⟩
        simp only [kwalk, hRf.keep _ _ _ hcho, hRf.kinds c (hAo.bound _ _ _ hcho), hdo, ↓reduceIte]
        exact hwalk
      · cases he
    · cases he

/-! ## Connection with `trace`, and non-vacuity -/

theorem RunsT.of_trace {α : Type} (p : Prog α) (o : Oracle) (h : Hist) :
    ∃ t, (p.trace o h).1 = h ++ t ∧ RunsT p t (p.trace o h).2 := by
  induction p generalizing h with
  | ret a => exact ⟨[], by simp [Prog.trace], .ret a⟩
  | call c k ih =>
    obtain ⟨t, ht, hr⟩ := ih (o h c) (h ++ [(c, o h c)])
    exact ⟨(c, o h c) :: t, by simp [Prog.trace, ht], .call c k _ t _ hr⟩

/-- a kernel with one directory (id 4) and nothing else -/
def ks0 : KS := { child := fun _ _ => none, isDir := fun i => i = 4, next := 5 }

theorem ks0_alloc : Alloc ks0 := by
  constructor
  · intro d n c h; cases h
  · intro d n _; rfl
  · intro i hi
    have : i = 4 := by simpa [ks0] using hi
    rw [this]; decide
  · intro d n c h; cases h
  · decide

/-- two racing callers' worth of history is not needed to see that the hypotheses can be met:
already the solitary run on `ks0` is a `Valid` history of the loop, and the theorem applies to it -/
example : ∃ t r w', RunsT (Root.mkdirLoop 0o755 4 [b!"a"]) t r ∧ Valid ks0 t w' := by
  let o : Oracle := fun h c =>
    -- the kernel's answers along the solitary run
    match c with
    | .mkdirat .. => .unit
    | .openat .. => .fd 5
    | _ => .unit
  obtain ⟨t, ht, hr⟩ := RunsT.of_trace (Root.mkdirLoop 0o755 4 [b!"a"]) o []
  have hte : t = [(Call.mkdirat 4 b!"a" 0o755, Resp.unit),
      (Call.openat 4 b!"a" (O_NOFOLLOW ||| O_DIRECTORY ||| O_NOFOLLOW ||| O_CLOEXEC ||| O_NOCTTY) 0, Resp.fd 5),
      (Call.close 4, Resp.unit)] := by
    have : (Prog.trace o (Root.mkdirLoop 0o755 4 [b!"a"]) []).1 = _ := ht
    simp only [List.nil_append] at this
    rw [← this]
    rfl
  have hvalid : ∃ w', Valid ks0 [(Call.mkdirat 4 b!"a" 0o755, Resp.unit),
      (Call.openat 4 b!"a" (O_NOFOLLOW ||| O_DIRECTORY ||| O_NOFOLLOW ||| O_CLOEXEC ||| O_NOCTTY) 0, Resp.fd 5),
      (Call.close 4, Resp.unit)] w' := by
    have hA := ks0_alloc
    have hg := effect_guarantee ks0 hA (Call.mkdirat 4 b!"a" 0o755)
    have hg2 := effect_guarantee _ hg.2 (Call.openat 4 b!"a" (O_NOFOLLOW ||| O_DIRECTORY ||| O_NOFOLLOW ||| O_CLOEXEC ||| O_NOCTTY) 0)
    have hg3 := effect_guarantee _ hg2.2 (Call.close 4)
    exact ⟨_, .cons (AddsDirs.refl _) hA (by rfl) (.cons (AddsDirs.refl _) hg.2 (by rfl)
      (.cons (AddsDirs.refl _) hg2.2 (by rfl) (.nil (AddsDirs.refl _) hg3.2)))⟩
  obtain ⟨w', hv⟩ := hvalid
  exact ⟨t, _, w', hr, by rw [hte]; exact hv⟩
