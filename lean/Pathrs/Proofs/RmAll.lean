import Pathrs.Root

/-!
# `remove_all` removes exactly the named subtree (sequential refinement against a mutable tree)

`RFS` is a mutable directory tree with the kernel's answers to the calls `remove_all`
(`RemoveAll.removeAll`, the model of `src/utils/dir.rs`) makes, including directory streams
(`dirOpen` snapshots the names, `dirNext` delivers them one by one).  `exec` runs a program against
it, threading the state.
-/

open K

namespace RmAll

structure RFS where
  /-- the entries of a directory, in the order its stream lists them -/
  entries : Fd → List (Bytes × Fd)
  isDir : Fd → Bool
  /-- what the open directory stream on `d` still has to deliver -/
  streams : Fd → List Bytes

namespace RFS

def child (s : RFS) (d : Fd) (n : Bytes) : Option Fd := (s.entries d).lookup n

def removeEntry (s : RFS) (d : Fd) (n : Bytes) : RFS :=
  { s with entries := fun x => if x = d then (s.entries d).filter (fun e => e.1 ≠ n) else s.entries x }

/-- the kernel's answer in state `s` -/
def answer (s : RFS) : Call → Resp
  | .unlinkat d n fl =>
      match s.child d n with
      | none => .err ENOENT
      | some c =>
        if fl = AT_REMOVEDIR then
          (if s.isDir c = false then .err ENOTDIR else if s.entries c ≠ [] then .err ENOTEMPTY else .unit)
        else (if s.isDir c then .err EISDIR else .unit)
  | .openat d n _ _ =>
      -- the only opens of `remove_all` are `O_DIRECTORY|O_NOFOLLOW`
      match s.child d n with
      | none => .err ENOENT
      | some c => if s.isDir c then .fd c else .err ENOTDIR
  | .dirOpen _ => .unit
  | .dirNext d =>
      match s.streams d with
      | [] => .fin
      | n :: _ => .bytes n
  | .close _ => .unit
  -- the reads the error messages make
  | .gettid => .nums [1]
  | .fstatat _ _ _ => .nums [S_IFLNK ||| 0o777, 0, 3, 5]
  | .readlinkAbs _ => .bytes b!"/"
  | _ => .err ENOSYS

/-- … and what the call does to the state -/
def effect (s : RFS) : Call → RFS
  | .unlinkat d n fl =>
      match s.answer (.unlinkat d n fl) with
      | .unit => s.removeEntry d n
      | _ => s
  | .dirOpen d => { s with streams := fun x => if x = d then (s.entries d).map (·.1) else s.streams x }
  | .dirNext d => { s with streams := fun x => if x = d then (s.streams d).tail else s.streams x }
  | _ => s

end RFS

/-- run a program against the mutable tree -/
def exec {α : Type} (s : RFS) : Prog α → RFS × α
  | .ret a => (s, a)
  | .call c k => exec (s.effect c) (k (s.answer c))

/-- `d` is `c` or below it -/
inductive Below (s : RFS) (c : Fd) : Fd → Prop where
  | self : Below s c c
  | step {d e : Fd} {n : Bytes} : Below s c d → (n, e) ∈ s.entries d → Below s c e

def ProperName (n : Bytes) : Prop := n ≠ [] ∧ Path.containsSlash n = false ∧ n ≠ Path.dot ∧ n ≠ Path.dotdot

/-- a finite tree: a rank decreases along entries, names in a directory are distinct and proper, every
object has one name, only directories have entries, descriptor numbers are not negative -/
structure WF (s : RFS) (rank : Fd → Nat) : Prop where
  rank_lt : ∀ d n c, (n, c) ∈ s.entries d → rank c < rank d
  nodup : ∀ d, ((s.entries d).map (·.1)).Nodup
  names : ∀ d n c, (n, c) ∈ s.entries d → ProperName n
  one_parent : ∀ d d' n n' c, (n, c) ∈ s.entries d → (n', c) ∈ s.entries d' → d = d' ∧ n = n'
  files_empty : ∀ d, s.isDir d = false → s.entries d = []
  nonneg : ∀ d n c, (n, c) ∈ s.entries d → 0 ≤ c
  width : ∀ d, (s.entries d).length ≤ rank d

/-! ## `exec` calculus -/

theorem exec_ret {α : Type} (s : RFS) (a : α) : exec s (Prog.ret a) = (s, a) := rfl

theorem exec_call {α : Type} (s : RFS) (c : Call) (k : Resp → Prog α) :
    exec s (Prog.call c k) = exec (s.effect c) (k (s.answer c)) := rfl

theorem exec_bind {α β : Type} (s : RFS) (p : Prog α) (f : α → Prog β) :
    exec s (Prog.bind p f) = exec (exec s p).1 (f (exec s p).2) := by
  induction p generalizing s with
  | ret a => rfl
  | call c k ih => simp only [Prog.bind_call, exec_call, ih]

theorem exec_bind_eq {α β : Type} {s s' : RFS} {p : Prog α} {a : α} (f : α → Prog β)
    (h : exec s p = (s', a)) : exec s (Prog.bind p f) = exec s' (f a) := by
  rw [exec_bind, h]

theorem exec_pure {α : Type} (s : RFS) (a : α) : exec s (pure a : M α) = (s, Except.ok a) := rfl
theorem exec_throw {α : Type} (s : RFS) (e : Err) : exec s (throw e : M α) = (s, Except.error e) := rfl

theorem exec_mbind_ok {α β : Type} {s s' : RFS} {p : M α} {a : α} (f : α → M β)
    (h : exec s p = (s', Except.ok a)) : exec s (M.bind' p f) = exec s' (f a) :=
  exec_bind_eq _ h

theorem exec_mbind_err {α β : Type} {s s' : RFS} {p : M α} {e : Err} (f : α → M β)
    (h : exec s p = (s', Except.error e)) : exec s (M.bind' p f) = (s', Except.error e) :=
  exec_bind_eq _ h

theorem exec_try_ok {α : Type} {s s' : RFS} {p : M α} {a : α}
    (h : exec s p = (s', Except.ok a)) : exec s (M.try' p) = (s', Except.ok (Except.ok a)) :=
  exec_bind_eq _ h

theorem exec_try_err {α : Type} {s s' : RFS} {p : M α} {e : Err}
    (h : exec s p = (s', Except.error e)) (hf : e.isFatal = false) :
    exec s (M.try' p) = (s', Except.ok (Except.error e)) := by
  refine (exec_bind_eq _ h).trans ?_
  simp only [hf]; rfl

theorem exec_isOk_ok {α : Type} {s s' : RFS} {p : M α} {a : α}
    (h : exec s p = (s', Except.ok a)) : exec s (M.isOk p) = (s', Except.ok true) :=
  exec_mbind_ok _ (exec_try_ok h)

theorem exec_isOk_err {α : Type} {s s' : RFS} {p : M α} {e : Err}
    (h : exec s p = (s', Except.error e)) (hf : e.isFatal = false) :
    exec s (M.isOk p) = (s', Except.ok false) :=
  exec_mbind_ok _ (exec_try_err h hf)

theorem exec_onErr_ok {α : Type} {s s' : RFS} {p : M α} {a : α} (cl : Prog Unit)
    (h : exec s p = (s', Except.ok a)) : exec s (M.onErr p cl) = (s', Except.ok a) :=
  exec_bind_eq _ h

theorem exec_lift {α : Type} (s : RFS) (p : Prog α) :
    exec s (M.lift p) = ((exec s p).1, Except.ok (exec s p).2) :=
  exec_bind s p _

theorem exec_mcall (s : RFS) (c : Call) : exec s (M.call c) = (s.effect c, Except.ok (s.answer c)) := rfl

theorem exec_ofExcept {α : Type} (s : RFS) (x : Except Err α) : exec s (M.ofExcept x) = (s, x) := by
  cases x <;> rfl

theorem exec_close (s : RFS) (d : Fd) : exec s (Sys.close d) = (s, ()) := rfl

/-! ## the wrappers on an `RFS` -/

theorem hotfix_ok {d : Fd} (h : 0 ≤ d) : Sys.hotfix d = .ok () := by
  unfold Sys.hotfix
  simp [h]

theorem answer_fstatat (s : RFS) (d : Fd) (n : Bytes) (f : Nat) :
    s.answer (.fstatat d n f) = .nums [S_IFLNK ||| 0o777, 0, 3, 5] := rfl
theorem effect_fstatat (s : RFS) (d : Fd) (n : Bytes) (f : Nat) : s.effect (.fstatat d n f) = s := rfl
theorem effect_readlinkAbs (s : RFS) (n : Bytes) : s.effect (.readlinkAbs n) = s := rfl

theorem exec_probe (s : RFS) (cand : Bytes) (rest : List Bytes) :
    exec s (Sys.freeze.probe (cand :: rest)) = (s, cand) := by
  rw [Sys.freeze.probe.eq_2, exec_call, answer_fstatat, effect_fstatat]
  rfl

theorem exec_freeze (s : RFS) (fd : Fd) : exec s (Sys.freeze fd) = (s, ()) := by
  unfold Sys.freeze
  have h1 : exec s Sys.gettid = (s, 1) := rfl
  rw [exec_bind_eq _ h1]
  unfold Sys.threadSelfCandidates
  rw [exec_bind_eq _ (exec_probe s _ _)]
  cases Sys.procSubpath fd with
  | error e => rfl
  | ok sub => rfl

theorem exec_failWith {α : Type} (s : RFS) (d : Fd) (e : Nat) :
    exec s (Sys.failWith [d] e : M α) = (s, Except.error (Err.os e)) := by
  unfold Sys.failWith Sys.failWith.go
  refine (exec_bind_eq _ (exec_freeze s d)).trans ?_
  unfold Sys.failWith.go
  rfl

theorem exec_unitCall_unit {s : RFS} {c : Call} (d : Fd) (site : String) (h : s.answer c = .unit) :
    exec s (Sys.unitCall c [d] site) = (s.effect c, Except.ok ()) := by
  unfold Sys.unitCall
  simp only [M.bind_def]
  rw [exec_mbind_ok _ (exec_mcall s c), h]
  rfl

theorem exec_unitCall_err {s : RFS} {c : Call} (d : Fd) (site : String) {e : Nat} (h : s.answer c = .err e) :
    exec s (Sys.unitCall c [d] site) = (s.effect c, Except.error (Err.os e)) := by
  unfold Sys.unitCall
  simp only [M.bind_def]
  rw [exec_mbind_ok _ (exec_mcall s c), h]
  exact exec_failWith _ d e

theorem exec_hotfix {s : RFS} {d : Fd} (h : 0 ≤ d) : exec s (M.ofExcept (Sys.hotfix d)) = (s, Except.ok ()) := by
  rw [hotfix_ok h]; rfl

theorem effect_unlinkat_unit {s : RFS} {d : Fd} {n : Bytes} {fl : Nat} (h : s.answer (.unlinkat d n fl) = .unit) :
    s.effect (.unlinkat d n fl) = s.removeEntry d n := by
  simp only [RFS.effect, h]

theorem effect_unlinkat_err {s : RFS} {d : Fd} {n : Bytes} {fl : Nat} {e : Nat} (h : s.answer (.unlinkat d n fl) = .err e) :
    s.effect (.unlinkat d n fl) = s := by
  simp only [RFS.effect, h]

theorem exec_unlinkat_unit {s : RFS} {d : Fd} (hd : 0 ≤ d) {n : Bytes} {fl : Nat}
    (h : s.answer (.unlinkat d n fl) = .unit) :
    exec s (Sys.unlinkat d n fl) = (s.removeEntry d n, Except.ok ()) := by
  unfold Sys.unlinkat
  simp only [M.bind_def]
  refine (exec_mbind_ok _ (exec_hotfix hd)).trans ?_
  rw [exec_unitCall_unit d _ h, effect_unlinkat_unit h]

theorem exec_unlinkat_err {s : RFS} {d : Fd} (hd : 0 ≤ d) {n : Bytes} {fl : Nat} {e : Nat}
    (h : s.answer (.unlinkat d n fl) = .err e) :
    exec s (Sys.unlinkat d n fl) = (s, Except.error (Err.os e)) := by
  unfold Sys.unlinkat
  simp only [M.bind_def]
  refine (exec_mbind_ok _ (exec_hotfix hd)).trans ?_
  rw [exec_unitCall_err d _ h, effect_unlinkat_err h]

theorem exec_openat_dir {s : RFS} {d : Fd} (hd : 0 ≤ d) {n : Bytes} {c : Fd} (fl mode : Nat)
    (hc : s.child d n = some c) (hdir : s.isDir c = true) :
    exec s (Sys.openat d n fl mode) = (s, Except.ok c) := by
  unfold Sys.openat Sys.openatFollow
  simp only [M.bind_def]
  refine (exec_mbind_ok _ (exec_hotfix hd)).trans ?_
  rw [exec_mbind_ok _ (exec_mcall s _)]
  have ha : s.answer (.openat d n (fl ||| O_NOFOLLOW ||| O_CLOEXEC ||| O_NOCTTY) mode) = .fd c := by
    simp only [RFS.answer, hc, hdir, ↓reduceIte]
  rw [ha]
  rfl

/-! ## `removeInode` -/

theorem zero_ne_removedir : ¬ (0 = AT_REMOVEDIR) := by decide

theorem answer_unlink_none {s : RFS} {d : Fd} {n : Bytes} (fl : Nat) (h : s.child d n = none) :
    s.answer (.unlinkat d n fl) = .err ENOENT := by
  simp only [RFS.answer, h]

theorem answer_unlink0_file {s : RFS} {d : Fd} {n : Bytes} {c : Fd} (h : s.child d n = some c)
    (hf : s.isDir c = false) : s.answer (.unlinkat d n 0) = .unit := by
  simp only [RFS.answer, h, hf, zero_ne_removedir, ↓reduceIte, Bool.false_eq_true]

theorem answer_unlink0_dir {s : RFS} {d : Fd} {n : Bytes} {c : Fd} (h : s.child d n = some c)
    (hf : s.isDir c = true) : s.answer (.unlinkat d n 0) = .err EISDIR := by
  simp only [RFS.answer, h, hf, zero_ne_removedir, ↓reduceIte]

theorem answer_rmdir_empty {s : RFS} {d : Fd} {n : Bytes} {c : Fd} (h : s.child d n = some c)
    (hf : s.isDir c = true) (he : s.entries c = []) : s.answer (.unlinkat d n AT_REMOVEDIR) = .unit := by
  simp only [RFS.answer, h, hf, he, ↓reduceIte, Bool.true_eq_false, ne_eq, not_true_eq_false]

theorem answer_rmdir_nonempty {s : RFS} {d : Fd} {n : Bytes} {c : Fd} (h : s.child d n = some c)
    (hf : s.isDir c = true) (he : s.entries c ≠ []) : s.answer (.unlinkat d n AT_REMOVEDIR) = .err ENOTEMPTY := by
  simp only [RFS.answer, h, hf, he, ↓reduceIte, Bool.true_eq_false, ne_eq, not_false_eq_true]

theorem os_not_fatal (e : Nat) : (Err.os e).isFatal = false := rfl

theorem exec_removeInode_file {s : RFS} {d : Fd} (hd : 0 ≤ d) {n : Bytes} {c : Fd} (h : s.child d n = some c)
    (hf : s.isDir c = false) : exec s (RemoveAll.removeInode d n) = (s.removeEntry d n, Except.ok ()) := by
  unfold RemoveAll.removeInode
  simp only [M.bind_def]
  rw [exec_mbind_ok _ (exec_try_ok (exec_unlinkat_unit hd (answer_unlink0_file h hf)))]
  rfl

theorem exec_removeInode_empty {s : RFS} {d : Fd} (hd : 0 ≤ d) {n : Bytes} {c : Fd} (h : s.child d n = some c)
    (hf : s.isDir c = true) (he : s.entries c = []) :
    exec s (RemoveAll.removeInode d n) = (s.removeEntry d n, Except.ok ()) := by
  unfold RemoveAll.removeInode
  simp only [M.bind_def]
  rw [exec_mbind_ok _ (exec_try_err (exec_unlinkat_err hd (answer_unlink0_dir h hf)) (os_not_fatal _))]
  simp only []
  rw [exec_mbind_ok _ (exec_try_ok (exec_unlinkat_unit hd (answer_rmdir_empty h hf he)))]
  rfl

theorem exec_removeInode_nonempty {s : RFS} {d : Fd} (hd : 0 ≤ d) {n : Bytes} {c : Fd} (h : s.child d n = some c)
    (hf : s.isDir c = true) (he : s.entries c ≠ []) :
    exec s (RemoveAll.removeInode d n) = (s, Except.error (Err.os ENOTEMPTY)) := by
  unfold RemoveAll.removeInode
  simp only [M.bind_def]
  rw [exec_mbind_ok _ (exec_try_err (exec_unlinkat_err hd (answer_unlink0_dir h hf)) (os_not_fatal _))]
  simp only []
  rw [exec_mbind_ok _ (exec_try_err (exec_unlinkat_err hd (answer_rmdir_nonempty h hf he)) (os_not_fatal _))]
  rfl

theorem exec_removeInode_absent {s : RFS} {d : Fd} (hd : 0 ≤ d) {n : Bytes} (h : s.child d n = none) :
    exec s (RemoveAll.removeInode d n) = (s, Except.error (Err.os ENOENT)) := by
  unfold RemoveAll.removeInode
  simp only [M.bind_def]
  rw [exec_mbind_ok _ (exec_try_err (exec_unlinkat_err hd (answer_unlink_none 0 h)) (os_not_fatal _))]
  simp only []
  rw [exec_mbind_ok _ (exec_try_err (exec_unlinkat_err hd (answer_unlink_none _ h)) (os_not_fatal _))]
  rfl

theorem exec_ignoreEnoent_ok {s s' : RFS} {p : M Unit} (h : exec s p = (s', Except.ok ())) :
    exec s (RemoveAll.ignoreEnoent p) = (s', Except.ok ()) := by
  unfold RemoveAll.ignoreEnoent
  simp only [M.bind_def]
  rw [exec_mbind_ok _ (exec_try_ok h)]
  rfl

theorem exec_ignoreEnoent_enoent {s s' : RFS} {p : M Unit} (h : exec s p = (s', Except.error (Err.os ENOENT))) :
    exec s (RemoveAll.ignoreEnoent p) = (s', Except.ok ()) := by
  unfold RemoveAll.ignoreEnoent
  simp only [M.bind_def]
  rw [exec_mbind_ok _ (exec_try_err h (os_not_fatal _))]
  rfl

theorem exec_ignoreEnoent_notempty {s s' : RFS} {p : M Unit} (h : exec s p = (s', Except.error (Err.os ENOTEMPTY))) :
    exec s (RemoveAll.ignoreEnoent p) = (s', Except.error (Err.os ENOTEMPTY)) := by
  unfold RemoveAll.ignoreEnoent
  simp only [M.bind_def]
  rw [exec_mbind_ok _ (exec_try_err h (os_not_fatal _))]
  rfl

/-! ## `removeAll` -/

theorem removeAll_succ {name : Bytes} (hname : ProperName name) (fuel : Nat) (dir : Fd) :
    RemoveAll.removeAll (fuel + 1) dir name =
      M.bind' (M.isOk (RemoveAll.ignoreEnoent (RemoveAll.removeInode dir name))) fun removed =>
        if removed then pure () else
          M.bind' (RemoveAll.openSubdir dir name) fun sub =>
            match sub with
            | none => pure ()
            | some subdir => RemoveAll.emptyDir (RemoveAll.removeAll fuel) dir name subdir fuel := by
  rw [RemoveAll.removeAll.eq_2]
  simp only [hname.2.1, hname.2.2.1, hname.2.2.2, Bool.false_eq_true, ↓reduceIte, or_self, M.bind_def]
  rfl

/-! ## lists of entries -/

theorem lookup_mem {n : Bytes} {c : Fd} : ∀ {l : List (Bytes × Fd)}, l.lookup n = some c → (n, c) ∈ l
  | [], h => by simp [List.lookup] at h
  | (a, b) :: l, h => by
    rw [List.lookup_cons] at h
    cases hab : (n == a) with
    | true =>
      rw [hab] at h
      have hna : n = a := by simpa using hab
      have hbc : b = c := by simpa using h
      subst hna; subst hbc
      exact List.mem_cons_self
    | false =>
      rw [hab] at h
      exact List.mem_cons_of_mem _ (lookup_mem h)

theorem lookup_of_mem {n : Bytes} {c : Fd} : ∀ {l : List (Bytes × Fd)}, (l.map (·.1)).Nodup → (n, c) ∈ l →
    l.lookup n = some c
  | [], _, h => by simp at h
  | (a, b) :: l, hnd, h => by
    rw [List.map_cons, List.nodup_cons] at hnd
    rw [List.lookup_cons]
    rcases List.mem_cons.mp h with heq | hin
    · have h1 : n = a := congrArg Prod.fst heq
      have h2 : c = b := congrArg Prod.snd heq
      subst h1; subst h2
      simp
    · have hne : (n == a) = false := by
        apply beq_false_of_ne
        intro hna
        subst hna
        exact hnd.1 (List.mem_map.mpr ⟨(n, c), hin, rfl⟩)
      rw [hne]
      exact lookup_of_mem hnd.2 hin

theorem filter_head {n0 : Bytes} {e0 : Fd} {l : List (Bytes × Fd)} (hnd : (((n0, e0) :: l).map (·.1)).Nodup) :
    ((n0, e0) :: l).filter (fun e => e.1 ≠ n0) = l := by
  rw [List.map_cons, List.nodup_cons] at hnd
  rw [List.filter_cons]
  simp only [ne_eq, not_true_eq_false, decide_false, Bool.false_eq_true, ↓reduceIte]
  apply List.filter_eq_self.mpr
  intro e he
  simp only [decide_eq_true_eq]
  intro h
  exact hnd.1 (List.mem_map.mpr ⟨e, he, h⟩)

/-! ## trees -/

theorem child_mem {s : RFS} {d : Fd} {n : Bytes} {c : Fd} (h : s.child d n = some c) : (n, c) ∈ s.entries d :=
  lookup_mem h

theorem WF.child {s : RFS} {rank : Fd → Nat} (hw : WF s rank) {d : Fd} {n : Bytes} {c : Fd}
    (h : (n, c) ∈ s.entries d) : s.child d n = some c :=
  lookup_of_mem (hw.nodup d) h

theorem Below.trans {s : RFS} {a b d : Fd} (h1 : Below s a b) (h2 : Below s b d) : Below s a d := by
  induction h2 with
  | self => exact h1
  | step _ hm ih => exact .step ih hm

theorem Below.rank_le {s : RFS} {rank : Fd → Nat} (hw : WF s rank) {c d : Fd} (h : Below s c d) :
    rank d ≤ rank c := by
  induction h with
  | self => exact Nat.le_refl _
  | step _ hm ih => exact Nat.le_trans (Nat.le_of_lt (hw.rank_lt _ _ _ hm)) ih

theorem Below.eq_of_empty {s : RFS} {c d : Fd} (he : s.entries c = []) (h : Below s c d) : d = c := by
  induction h with
  | self => rfl
  | step _ hm ih => subst ih; rw [he] at hm; cases hm

theorem Below.mono {s s' : RFS} (hsub : ∀ d x, x ∈ s'.entries d → x ∈ s.entries d) {c d : Fd}
    (h : Below s' c d) : Below s c d := by
  induction h with
  | self => exact .self
  | step _ hm ih => exact .step ih (hsub _ _ hm)

/-- entry-wise smaller, same kinds -/
structure Sub (s s' : RFS) : Prop where
  isDir : s'.isDir = s.isDir
  sub : ∀ d, (s'.entries d).Sublist (s.entries d)

theorem Sub.mem {s s' : RFS} (h : Sub s s') (d : Fd) (x : Bytes × Fd) (hx : x ∈ s'.entries d) : x ∈ s.entries d :=
  (h.sub d).subset hx

theorem WF.of_sub {s s' : RFS} {rank : Fd → Nat} (hw : WF s rank) (h : Sub s s') : WF s' rank where
  rank_lt d n c hm := hw.rank_lt d n c (h.mem _ _ hm)
  nodup d := ((h.sub d).map (·.1)).nodup (hw.nodup d)
  names d n c hm := hw.names d n c (h.mem _ _ hm)
  one_parent d d' n n' c hm hm' := hw.one_parent d d' n n' c (h.mem _ _ hm) (h.mem _ _ hm')
  files_empty d hd := by
    have := hw.files_empty d (by rw [← h.isDir]; exact hd)
    have hs := h.sub d
    rw [this] at hs
    exact List.sublist_nil.mp hs
  nonneg d n c hm := hw.nonneg d n c (h.mem _ _ hm)
  width d := Nat.le_trans (h.sub d).length_le (hw.width d)

/-- the postcondition of `remove_all dir name`, with the frame on streams -/
structure Post (s : RFS) (dir : Fd) (name : Bytes) (c : Fd) (s' : RFS) : Prop where
  parent : s'.entries dir = (s.entries dir).filter (fun e => e.1 ≠ name)
  below : ∀ d, Below s c d → s'.entries d = []
  frame : ∀ d, ¬ Below s c d → d ≠ dir → s'.entries d = s.entries d
  isDir : s'.isDir = s.isDir
  streams : ∀ d, ¬ Below s c d → s'.streams d = s.streams d

theorem Post.toSub {s s' : RFS} {dir : Fd} {name : Bytes} {c : Fd} (h : Post s dir name c s') : Sub s s' where
  isDir := h.isDir
  sub d := by
    by_cases hd : d = dir
    · subst hd; rw [h.parent]; exact List.filter_sublist
    · by_cases hb : Below s c d
      · rw [h.below d hb]; exact List.nil_sublist _
      · rw [h.frame d hb hd]; exact List.Sublist.refl _

/-- equal up to the directory stream of `c` -/
structure Same (c : Fd) (s s' : RFS) : Prop where
  entries : s'.entries = s.entries
  isDir : s'.isDir = s.isDir
  streams : ∀ d, d ≠ c → s'.streams d = s.streams d

theorem Same.refl (c : Fd) (s : RFS) : Same c s s := ⟨rfl, rfl, fun _ _ => rfl⟩

theorem Same.trans {c : Fd} {s1 s2 s3 : RFS} (h1 : Same c s1 s2) (h2 : Same c s2 s3) : Same c s1 s3 :=
  ⟨h2.entries.trans h1.entries, h2.isDir.trans h1.isDir, fun d hd => (h2.streams d hd).trans (h1.streams d hd)⟩

theorem Same.dirOpen (c : Fd) (s : RFS) : Same c s (s.effect (.dirOpen c)) :=
  ⟨rfl, rfl, fun d hd => by simp only [RFS.effect, hd, ↓reduceIte]⟩

theorem Same.dirNext (c : Fd) (s : RFS) : Same c s (s.effect (.dirNext c)) :=
  ⟨rfl, rfl, fun d hd => by simp only [RFS.effect, hd, ↓reduceIte]⟩

theorem streams_dirOpen (c : Fd) (s : RFS) : (s.effect (.dirOpen c)).streams c = (s.entries c).map (·.1) := by
  simp only [RFS.effect, ↓reduceIte]

theorem streams_dirNext (c : Fd) (s : RFS) : (s.effect (.dirNext c)).streams c = (s.streams c).tail := by
  simp only [RFS.effect, ↓reduceIte]

theorem Same.below {c : Fd} {s s' : RFS} (h : Same c s s') {a d : Fd} : Below s' a d ↔ Below s a d :=
  ⟨Below.mono (fun d x hx => by rw [← h.entries]; exact hx), Below.mono (fun d x hx => by rw [h.entries]; exact hx)⟩

theorem Same.toSub {c : Fd} {s s' : RFS} (h : Same c s s') : Sub s s' :=
  ⟨h.isDir, fun d => by rw [h.entries]; exact List.Sublist.refl _⟩

/-- removing the entry `(n0, e0)` of `c`: what was below `c` is still below `c` or was below `e0` -/
theorem Post.below_split {t t1 : RFS} {rank : Fd → Nat} (hw : WF t rank) {c : Fd} {n0 : Bytes} {e0 : Fd}
    (hm0 : (n0, e0) ∈ t.entries c) (hp : Post t c n0 e0 t1) {d : Fd} (h : Below t c d) :
    Below t1 c d ∨ Below t e0 d := by
  induction h with
  | self => exact .inl .self
  | @step d' d n hb hm ih =>
    rcases ih with h1 | h2
    · by_cases hmem : (n, d) ∈ t1.entries d'
      · exact .inl (.step h1 hmem)
      · right
        by_cases hdc : d' = c
        · subst hdc
          rw [hp.parent] at hmem
          have hn : n = n0 := by
            apply Classical.byContradiction
            intro hne
            exact hmem (List.mem_filter.mpr ⟨hm, by simpa using hne⟩)
          subst hn
          have h1 := hw.child hm
          have h2 := hw.child hm0
          rw [h1] at h2
          cases h2
          exact .self
        · by_cases hbe : Below t e0 d'
          · exact .step hbe hm
          · rw [hp.frame d' hbe hdc] at hmem
            exact absurd hm hmem
    · exact .inr (.step h2 hm)

/-- the postcondition of scanning `c` -/
structure LoopPost (t : RFS) (c : Fd) (t' : RFS) : Prop where
  below : ∀ d, Below t c d → t'.entries d = []
  frame : ∀ d, ¬ Below t c d → t'.entries d = t.entries d
  isDir : t'.isDir = t.isDir
  streams : ∀ d, ¬ Below t c d → t'.streams d = t.streams d

theorem LoopPost.of_empty {t t' : RFS} {c : Fd} (he : t.entries c = []) (h : Same c t t') : LoopPost t c t' where
  below d hb := by rw [Below.eq_of_empty he hb, h.entries, he]
  frame d _ := by rw [h.entries]
  isDir := h.isDir
  streams d hb := h.streams d (fun hd => hb (hd ▸ .self))

theorem LoopPost.step {t t1 t2 t' : RFS} {rank : Fd → Nat} (hw : WF t rank) {c : Fd} {n0 : Bytes} {e0 : Fd}
    (hm0 : (n0, e0) ∈ t.entries c) (hp : Post t c n0 e0 t1) (hs : Same c t1 t2) (hl : LoopPost t2 c t') :
    LoopPost t c t' := by
  have hce : Below t c e0 := .step .self hm0
  have hmono : ∀ d, Below t2 c d → Below t c d := fun d hb =>
    Below.mono hp.toSub.mem (hs.below.mp hb)
  refine ⟨?_, ?_, ?_, ?_⟩
  · intro d hb
    by_cases hb2 : Below t2 c d
    · exact hl.below d hb2
    · rw [hl.frame d hb2, hs.entries]
      rcases hp.below_split hw hm0 hb with h1 | h2
      · exact absurd (hs.below.mpr h1) hb2
      · exact hp.below d h2
  · intro d hb
    have hb2 : ¬ Below t2 c d := fun h => hb (hmono d h)
    have hdc : d ≠ c := fun h => hb (h ▸ .self)
    rw [hl.frame d hb2, hs.entries, hp.frame d (fun h => hb (hce.trans h)) hdc]
  · rw [hl.isDir, hs.isDir, hp.isDir]
  · intro d hb
    have hb2 : ¬ Below t2 c d := fun h => hb (hmono d h)
    have hdc : d ≠ c := fun h => hb (h ▸ .self)
    rw [hl.streams d hb2, hs.streams d hdc, hp.streams d (fun h => hb (hce.trans h))]

theorem LoopPost.congr {s s2 t t' : RFS} {c : Fd} (h1 : Same c s s2) (hl : LoopPost s2 c t) (h2 : Same c t t') :
    LoopPost s c t' where
  below d hb := by rw [h2.entries]; exact hl.below d (h1.below.mpr hb)
  frame d hb := by rw [h2.entries, hl.frame d (fun h => hb (h1.below.mp h)), h1.entries]
  isDir := by rw [h2.isDir, hl.isDir, h1.isDir]
  streams d hb := by
    have hdc : d ≠ c := fun h => hb (h ▸ .self)
    rw [h2.streams d hdc, hl.streams d (fun h => hb (h1.below.mp h)), h1.streams d hdc]

/-! ## the directory stream -/

theorem exec_nextEntry_fin {s : RFS} {c : Fd} (sf : Nat) (h : s.streams c = []) :
    exec s (RemoveAll.nextEntry c (sf + 1)) = (s.effect (.dirNext c), Except.ok RemoveAll.DirItem.fin) := by
  rw [RemoveAll.nextEntry.eq_2]
  simp only [M.bind_def]
  rw [exec_mbind_ok _ (exec_mcall s _)]
  have ha : s.answer (.dirNext c) = .fin := by simp only [RFS.answer, h]
  rw [ha]
  rfl

theorem exec_nextEntry_entry {s : RFS} {c : Fd} (sf : Nat) {n : Bytes} {rest : List Bytes}
    (h : s.streams c = n :: rest) (h1 : n ≠ Path.dot) (h2 : n ≠ Path.dotdot) :
    exec s (RemoveAll.nextEntry c (sf + 1)) = (s.effect (.dirNext c), Except.ok (RemoveAll.DirItem.entry n)) := by
  rw [RemoveAll.nextEntry.eq_2]
  simp only [M.bind_def]
  rw [exec_mbind_ok _ (exec_mcall s _)]
  have ha : s.answer (.dirNext c) = .bytes n := by simp only [RFS.answer, h]
  rw [ha]
  simp only [h1, h2, or_self, ↓reduceIte]
  rfl

theorem children_entry (rm : Fd → Bytes → M Unit) (c : Fd) (sf : Nat) (n : Bytes) (k : Nat) :
    RemoveAll.children rm c sf (.entry n) (k + 1) =
      M.bind' (RemoveAll.ignoreEnoent (rm c n)) fun _ =>
        M.bind' (RemoveAll.nextEntry c sf) fun nxt => RemoveAll.children rm c sf nxt k := rfl

theorem children_fin (rm : Fd → Bytes → M Unit) (c : Fd) (sf : Nat) (k : Nat) :
    RemoveAll.children rm c sf .fin (k + 1) = pure () := rfl

theorem WF.same {s s' : RFS} {rank : Fd → Nat} {c : Fd} (hw : WF s rank) (h : Same c s s') : WF s' rank :=
  hw.of_sub h.toSub

/-- the `children` loop: the peeked entry and the stream together hold the names of the entries of `c` -/
theorem children_loop (rank : Fd → Nat) (c : Fd) (fuel sf : Nat)
    (IH : ∀ t n e, WF t rank → t.child c n = some e →
      ∃ t1, exec t (RemoveAll.removeAll fuel c n) = (t1, Except.ok ()) ∧ Post t c n e t1) :
    ∀ (l : List (Bytes × Fd)) (t : RFS) (n0 : Bytes) (e0 : Fd) (k : Nat), WF t rank →
      t.entries c = (n0, e0) :: l → t.streams c = l.map (·.1) → l.length + 2 ≤ k →
      ∃ t', exec t (RemoveAll.children (RemoveAll.removeAll fuel) c (sf + 1) (.entry n0) k) = (t', Except.ok ()) ∧
        LoopPost t c t' := by
  intro l
  induction l with
  | nil =>
    intro t n0 e0 k hw hent hstr hk
    obtain ⟨k, rfl⟩ : ∃ k', k = k' + 2 := ⟨k - 2, by simp only [List.length_nil] at hk; omega⟩
    have hm0 : (n0, e0) ∈ t.entries c := by rw [hent]; exact List.mem_cons_self
    obtain ⟨t1, hex, hp⟩ := IH t n0 e0 hw (hw.child hm0)
    have hnb : ¬ Below t e0 c := fun hb => by
      have := hb.rank_le hw
      have := hw.rank_lt _ _ _ hm0
      omega
    have hent1 : t1.entries c = [] := by
      rw [hp.parent, hent]; exact filter_head (hent ▸ hw.nodup c)
    have hstr1 : t1.streams c = [] := by rw [hp.streams c hnb, hstr]; rfl
    refine ⟨t1.effect (.dirNext c), ?_, ?_⟩
    · rw [children_entry, exec_mbind_ok _ (exec_ignoreEnoent_ok hex),
        exec_mbind_ok _ (exec_nextEntry_fin sf hstr1), children_fin]
      rfl
    · exact LoopPost.step hw hm0 hp (Same.dirNext c t1) (LoopPost.of_empty hent1 (Same.refl c _))
  | cons x l' ih =>
    obtain ⟨n1, e1⟩ := x
    intro t n0 e0 k hw hent hstr hk
    obtain ⟨k, rfl⟩ : ∃ k', k = k' + 1 := ⟨k - 1, by omega⟩
    have hm0 : (n0, e0) ∈ t.entries c := by rw [hent]; exact List.mem_cons_self
    obtain ⟨t1, hex, hp⟩ := IH t n0 e0 hw (hw.child hm0)
    have hnb : ¬ Below t e0 c := fun hb => by
      have := hb.rank_le hw
      have := hw.rank_lt _ _ _ hm0
      omega
    have hent1 : t1.entries c = (n1, e1) :: l' := by
      rw [hp.parent, hent]; exact filter_head (hent ▸ hw.nodup c)
    have hstr1 : t1.streams c = n1 :: l'.map (·.1) := by rw [hp.streams c hnb, hstr]; rfl
    have hw1 : WF t1 rank := hw.of_sub hp.toSub
    have hname : ProperName n1 := hw1.names c n1 e1 (by rw [hent1]; exact List.mem_cons_self)
    have hs2 := Same.dirNext c t1
    have hw2 : WF (t1.effect (.dirNext c)) rank := hw1.same hs2
    obtain ⟨t', hex', hl⟩ := ih (t1.effect (.dirNext c)) n1 e1 k hw2 (by rw [hs2.entries, hent1])
      (by rw [streams_dirNext, hstr1]; rfl) (by simp only [List.length_cons] at hk; omega)
    refine ⟨t', ?_, ?_⟩
    · rw [children_entry, exec_mbind_ok _ (exec_ignoreEnoent_ok hex),
        exec_mbind_ok _ (exec_nextEntry_entry sf hstr1 hname.2.2.1 hname.2.2.2)]
      exact hex'
    · exact LoopPost.step hw hm0 hp hs2 hl

theorem scan_succ (rm : Fd → Bytes → M Unit) (c : Fd) (sf n : Nat) :
    RemoveAll.scan rm c sf (n + 1) =
      M.bind' (M.call (.dirOpen c)) fun r =>
        match r with
        | .unit =>
          M.bind' (RemoveAll.nextEntry c sf) fun x =>
            match x with
            | .fin => pure ()
            | first => M.bind' (RemoveAll.children rm c sf first sf) fun _ => RemoveAll.scan rm c sf n
        | .err e => if e = ENOENT then pure () else throw (.os e)
        | _ => throw (.badResp "dir_open") := by
  rw [RemoveAll.scan.eq_2]
  simp only [M.bind_def]
  rfl

/-- the rescan loop on a non-empty directory: one pass removes everything, the second finds nothing -/
theorem exec_scan (rank : Fd → Nat) (c : Fd) (fuel sf m : Nat)
    (IH : ∀ t n e, WF t rank → t.child c n = some e →
      ∃ t1, exec t (RemoveAll.removeAll fuel c n) = (t1, Except.ok ()) ∧ Post t c n e t1)
    (s : RFS) (hw : WF s rank) (n0 : Bytes) (e0 : Fd) (l : List (Bytes × Fd))
    (hent : s.entries c = (n0, e0) :: l) (hsf : l.length + 2 ≤ sf) (hm : 2 ≤ m) :
    ∃ t', exec s (RemoveAll.scan (RemoveAll.removeAll fuel) c sf m) = (t', Except.ok ()) ∧ LoopPost s c t' := by
  obtain ⟨sf, rfl⟩ : ∃ k', sf = k' + 1 := ⟨sf - 1, by omega⟩
  obtain ⟨m, rfl⟩ : ∃ k', m = k' + 2 := ⟨m - 2, by omega⟩
  have hname : ProperName n0 := hw.names c n0 e0 (by rw [hent]; exact List.mem_cons_self)
  have hs1 := Same.dirOpen c s
  have hstr1 : (s.effect (.dirOpen c)).streams c = n0 :: l.map (·.1) := by
    rw [streams_dirOpen, hent]; rfl
  have hs2 := Same.dirNext c (s.effect (.dirOpen c))
  have hs12 := hs1.trans hs2
  obtain ⟨t, hex, hl⟩ := children_loop rank c fuel sf IH l _ n0 e0 (sf + 1) (hw.same hs12)
    (by rw [hs12.entries, hent]) (by rw [streams_dirNext, hstr1]; rfl) hsf
  have hentt : t.entries c = [] := hl.below c .self
  have hs3 := Same.dirOpen c t
  have hstr3 : (t.effect (.dirOpen c)).streams c = [] := by
    rw [streams_dirOpen, hentt]; rfl
  have hs4 := Same.dirNext c (t.effect (.dirOpen c))
  refine ⟨_, ?_, LoopPost.congr hs12 hl (hs3.trans hs4)⟩
  rw [scan_succ, exec_mbind_ok _ (exec_mcall s _)]
  have ha : s.answer (.dirOpen c) = .unit := rfl
  rw [ha]
  simp only []
  rw [exec_mbind_ok _ (exec_nextEntry_entry sf hstr1 hname.2.2.1 hname.2.2.2)]
  simp only []
  rw [exec_mbind_ok _ hex]
  rw [scan_succ, exec_mbind_ok _ (exec_mcall t _)]
  have ha' : t.answer (.dirOpen c) = .unit := rfl
  rw [ha']
  simp only []
  rw [exec_mbind_ok _ (exec_nextEntry_fin sf hstr3)]
  rfl

theorem exec_openSubdir {s : RFS} {d : Fd} (hd : 0 ≤ d) {n : Bytes} {c : Fd}
    (hc : s.child d n = some c) (hdir : s.isDir c = true) :
    exec s (RemoveAll.openSubdir d n) = (s, Except.ok (some c)) := by
  unfold RemoveAll.openSubdir
  simp only [M.bind_def]
  rw [exec_mbind_ok _ (exec_try_ok (exec_openat_dir hd _ _ hc hdir))]
  rfl

theorem emptyDir_def (rm : Fd → Bytes → M Unit) (dir : Fd) (name : Bytes) (subdir : Fd) (fuel : Nat) :
    RemoveAll.emptyDir rm dir name subdir fuel =
      M.bind' ((RemoveAll.scan rm subdir fuel fuel).onErr (Sys.close subdir)) fun _ =>
        M.bind' (M.try' (RemoveAll.ignoreEnoent (RemoveAll.removeInode dir name))) fun r =>
          M.bind' (M.lift (Sys.close subdir)) fun _ => M.ofExcept r := by
  unfold RemoveAll.emptyDir
  simp only [M.bind_def]
  rfl

theorem entries_removeEntry (s : RFS) (d : Fd) (n : Bytes) (x : Fd) :
    (s.removeEntry d n).entries x = if x = d then (s.entries d).filter (fun e => e.1 ≠ n) else s.entries x := rfl

theorem Post.removeEntry {s : RFS} {rank : Fd → Nat} (hw : WF s rank) {dir : Fd} {name : Bytes} {c : Fd}
    (hm : (name, c) ∈ s.entries dir) {t : RFS} (hl : LoopPost s c t) :
    Post s dir name c (t.removeEntry dir name) := by
  have hnb : ¬ Below s c dir := fun hb => by
    have := hb.rank_le hw
    have := hw.rank_lt _ _ _ hm
    omega
  refine ⟨?_, ?_, ?_, ?_, ?_⟩
  · rw [entries_removeEntry, if_pos rfl, hl.frame dir hnb]
  · intro d hb
    have hd : d ≠ dir := fun h => hnb (h ▸ hb)
    rw [entries_removeEntry, if_neg hd, hl.below d hb]
  · intro d hb hd
    rw [entries_removeEntry, if_neg hd, hl.frame d hb]
  · exact hl.isDir
  · intro d hb
    exact hl.streams d hb

theorem main (rank : Fd → Nat) : ∀ (fuel : Nat) (s : RFS) (dir : Fd) (name : Bytes) (c : Fd), WF s rank → 0 ≤ dir →
    s.child dir name = some c → rank dir + 3 ≤ fuel →
    ∃ s', exec s (RemoveAll.removeAll fuel dir name) = (s', Except.ok ()) ∧ Post s dir name c s' := by
  intro fuel
  induction fuel with
  | zero => intro s dir name c _ _ _ h; omega
  | succ fuel ih =>
    intro s dir name c hw hdir hc hfuel
    have hm := child_mem hc
    have hname := hw.names _ _ _ hm
    have hrank := hw.rank_lt _ _ _ hm
    rw [removeAll_succ hname]
    cases hd : s.isDir c with
    | false =>
      have he := hw.files_empty c hd
      refine ⟨s.removeEntry dir name, ?_, Post.removeEntry hw hm (LoopPost.of_empty he (Same.refl c s))⟩
      rw [exec_mbind_ok _ (exec_isOk_ok (exec_ignoreEnoent_ok (exec_removeInode_file hdir hc hd)))]
      rfl
    | true =>
      by_cases he : s.entries c = []
      · refine ⟨s.removeEntry dir name, ?_, Post.removeEntry hw hm (LoopPost.of_empty he (Same.refl c s))⟩
        rw [exec_mbind_ok _ (exec_isOk_ok (exec_ignoreEnoent_ok (exec_removeInode_empty hdir hc hd he)))]
        rfl
      · obtain ⟨⟨n0, e0⟩, l, hent⟩ := List.exists_cons_of_ne_nil he
        have hc0 : 0 ≤ c := hw.nonneg _ _ _ hm
        have hwid := hw.width c
        rw [hent, List.length_cons] at hwid
        have IH : ∀ t n e, WF t rank → t.child c n = some e →
            ∃ t1, exec t (RemoveAll.removeAll fuel c n) = (t1, Except.ok ()) ∧ Post t c n e t1 :=
          fun t n e hwt hce => ih t c n e hwt hc0 hce (by omega)
        obtain ⟨t, hex, hl⟩ := exec_scan rank c fuel fuel fuel IH s hw n0 e0 l hent (by omega) (by omega)
        have hnb : ¬ Below s c dir := fun hb => by
          have := hb.rank_le hw
          omega
        have hct : t.child dir name = some c := by
          unfold RFS.child; rw [hl.frame dir hnb]; exact hc
        have hdt : t.isDir c = true := by rw [hl.isDir]; exact hd
        have het : t.entries c = [] := hl.below c .self
        refine ⟨t.removeEntry dir name, ?_, Post.removeEntry hw hm hl⟩
        rw [exec_mbind_ok _ (exec_isOk_err (exec_ignoreEnoent_notempty (exec_removeInode_nonempty hdir hc hd he))
          (os_not_fatal _))]
        simp only [Bool.false_eq_true, ↓reduceIte]
        rw [exec_mbind_ok _ (exec_openSubdir hdir hc hd)]
        simp only []
        rw [emptyDir_def, exec_mbind_ok _ (exec_onErr_ok _ hex),
          exec_mbind_ok _ (exec_try_ok (exec_ignoreEnoent_ok (exec_removeInode_empty hdir hct hdt het))),
          exec_mbind_ok _ (exec_lift _ _), exec_ofExcept]
        rfl

/-- **`remove_all` removes exactly the named subtree**: on a well-formed tree, with enough fuel, the call
succeeds, the entry is gone, every directory below it is empty, the parent lost exactly that entry and no
other directory changed. -/
theorem removeAll_exact (s : RFS) (rank : Fd → Nat) (hw : WF s rank) (dir : Fd) (hdir : 0 ≤ dir) (name : Bytes) (c : Fd)
    (hc : s.child dir name = some c) (fuel : Nat) (hfuel : rank dir + 3 ≤ fuel) :
    ∃ s', exec s (RemoveAll.removeAll fuel dir name) = (s', .ok ()) ∧
      s'.entries dir = (s.entries dir).filter (fun e => e.1 ≠ name) ∧
      (∀ d, Below s c d → s'.entries d = []) ∧
      (∀ d, ¬ Below s c d → d ≠ dir → s'.entries d = s.entries d) ∧
      s'.isDir = s.isDir := by
  obtain ⟨s', hex, hp⟩ := main rank fuel s dir name c hw hdir hc hfuel
  exact ⟨s', hex, hp.parent, hp.below, hp.frame, hp.isDir⟩

/-- an entry that does not exist: nothing happens (somebody else removed it) -/
theorem removeAll_absent (s : RFS) (dir : Fd) (hdir : 0 ≤ dir) (name : Bytes) (hname : ProperName name)
    (hc : s.child dir name = none) (fuel : Nat) :
    ∃ s', exec s (RemoveAll.removeAll (fuel + 1) dir name) = (s', .ok ()) ∧ s'.entries = s.entries ∧ s'.isDir = s.isDir := by
  refine ⟨s, ?_, rfl, rfl⟩
  rw [removeAll_succ hname]
  rw [exec_mbind_ok _ (exec_isOk_ok (exec_ignoreEnoent_enoent (exec_removeInode_absent hdir hc)))]
  rfl

/-! ## the hypotheses are not vacuous: a concrete tree with a nested directory -/

namespace Example

/-- root `10` with the directory `a = 12` (file `x`, directory `y = 16` with the file `z`, and `l`) and the
file `b` -/
def s0 : RFS :=
  { entries := fun d =>
      if d = 10 then [(b!"a", 12), (b!"b", 22)]
      else if d = 12 then [(b!"x", 14), (b!"y", 16), (b!"l", 20)]
      else if d = 16 then [(b!"z", 18)] else []
    isDir := fun d => d = 10 ∨ d = 12 ∨ d = 16
    streams := fun _ => [] }

def rank0 (d : Fd) : Nat := if d = 10 then 4 else if d = 12 then 3 else if d = 16 then 1 else 0

def table : List (Fd × Bytes × Fd) :=
  [(10, b!"a", 12), (10, b!"b", 22), (12, b!"x", 14), (12, b!"y", 16), (12, b!"l", 20), (16, b!"z", 18)]

theorem entries_cases (d : Fd) :
    (d = 10 ∧ s0.entries d = [(b!"a", 12), (b!"b", 22)]) ∨
    (d = 12 ∧ s0.entries d = [(b!"x", 14), (b!"y", 16), (b!"l", 20)]) ∨
    (d = 16 ∧ s0.entries d = [(b!"z", 18)]) ∨
    (d ≠ 10 ∧ d ≠ 12 ∧ d ≠ 16 ∧ s0.entries d = []) := by
  by_cases h10 : d = 10
  · subst h10; exact .inl ⟨rfl, rfl⟩
  · by_cases h12 : d = 12
    · subst h12; exact .inr (.inl ⟨rfl, rfl⟩)
    · by_cases h16 : d = 16
      · subst h16; exact .inr (.inr (.inl ⟨rfl, rfl⟩))
      · refine .inr (.inr (.inr ⟨h10, h12, h16, ?_⟩))
        simp only [s0, h10, h12, h16, ↓reduceIte]

theorem mem_table {d : Fd} {n : Bytes} {c : Fd} (h : (n, c) ∈ s0.entries d) : (d, n, c) ∈ table := by
  rcases entries_cases d with ⟨rfl, he⟩ | ⟨rfl, he⟩ | ⟨rfl, he⟩ | ⟨_, _, _, he⟩
  all_goals
    rw [he] at h
    simp only [List.mem_cons, List.not_mem_nil, or_false, Prod.mk.injEq] at h
  · rcases h with ⟨rfl, rfl⟩ | ⟨rfl, rfl⟩ <;> decide
  · rcases h with ⟨rfl, rfl⟩ | ⟨rfl, rfl⟩ | ⟨rfl, rfl⟩ <;> decide
  · rcases h with ⟨rfl, rfl⟩ <;> decide

theorem table_forall (P : Fd → Bytes → Fd → Prop) (h : ∀ x ∈ table, P x.1 x.2.1 x.2.2) {d : Fd} {n : Bytes} {c : Fd}
    (hm : (n, c) ∈ s0.entries d) : P d n c :=
  h _ (mem_table hm)

instance (n : Bytes) : Decidable (ProperName n) := by unfold ProperName; infer_instance

theorem wf0 : WF s0 rank0 where
  rank_lt d n c hm := table_forall (fun d _ c => rank0 c < rank0 d) (by decide) hm
  nodup d := by
    rcases entries_cases d with ⟨_, he⟩ | ⟨_, he⟩ | ⟨_, he⟩ | ⟨_, _, _, he⟩ <;> rw [he] <;> decide
  names d n c hm := table_forall (fun _ n _ => ProperName n) (by decide) hm
  one_parent d d' n n' c hm hm' := by
    have h1 := table_forall (fun d n c => ∀ x ∈ table, x.2.2 = c → x.1 = d ∧ x.2.1 = n) (by decide) hm
    have h2 := h1 _ (mem_table hm') rfl
    exact ⟨h2.1.symm, h2.2.symm⟩
  files_empty d hd := by
    rcases entries_cases d with ⟨rfl, _⟩ | ⟨rfl, _⟩ | ⟨rfl, _⟩ | ⟨_, _, _, he⟩
    · exact absurd hd (by decide)
    · exact absurd hd (by decide)
    · exact absurd hd (by decide)
    · exact he
  nonneg d n c hm := table_forall (fun _ _ c => 0 ≤ c) (by decide) hm
  width d := by
    rcases entries_cases d with ⟨rfl, he⟩ | ⟨rfl, he⟩ | ⟨rfl, he⟩ | ⟨_, _, _, he⟩ <;> rw [he] <;> simp [rank0]

/-- `removeAll_exact` applies to the nested directory `a` of the example tree -/
example : ∃ s', exec s0 (RemoveAll.removeAll 7 10 b!"a") = (s', .ok ()) ∧
    s'.entries 10 = [(b!"b", 22)] ∧ s'.entries 12 = [] ∧ s'.entries 16 = [] := by
  obtain ⟨s', hex, hp, hb, _, _⟩ := removeAll_exact s0 rank0 wf0 10 (by decide) b!"a" 12 rfl 7 (by decide)
  refine ⟨s', hex, ?_, hb 12 .self, hb 16 (.step (n := b!"y") .self ?_)⟩
  · rw [hp]; decide
  · decide

end Example

end RmAll
