import Pathrs.Proofs.RmAll
import Pathrs.Proofs.Rely

/-!
# `remove_all` converges while others remove (rely/guarantee)

Same mutable tree as `RmAll.lean`, but now the environment moves between any two system calls of the
program: it may remove entries anywhere (what any number of other `remove_all` callers, or `rm -rf`, do),
never add or change one.  `RunsT` (Rely.lean) is the trace-only semantics of programs; `ValidR s t s'` says the
recorded answers of `t` are the tree's answers with such environment steps interleaved.
-/

open K RmAll

namespace RmAllRace

/-- the rely: entries only disappear (each directory's listing becomes a sublist), kinds and the private
state of open directory streams are not touched -/
structure Removes (s s' : RFS) : Prop where
  sub : ∀ d, (s'.entries d).Sublist (s.entries d)
  kinds : s'.isDir = s.isDir
  streams : s'.streams = s.streams

/-- the guarantee, on the shared part of the state (directory streams are private to the descriptor that owns
them: other callers have descriptors of their own): entries only disappeared, kinds are unchanged -/
structure OnlyRemoved (s s' : RFS) : Prop where
  sub : ∀ d, (s'.entries d).Sublist (s.entries d)
  kinds : s'.isDir = s.isDir

/-- a history the tree could have produced, with environment steps satisfying the rely before every call and at
the end -/
inductive ValidR : RFS → Hist → RFS → Prop where
  | nil {s s'} : Removes s s' → ValidR s [] s'
  | cons {s s1 s' c r t} : Removes s s1 → r = s1.answer c → ValidR (s1.effect c) t s' → ValidR s ((c, r) :: t) s'

/-- the removals the program itself performed: `unlinkat` calls the kernel acknowledged -/
def ownRemovals : Hist → List (Fd × Bytes)
  | [] => []
  | (.unlinkat d n _, .unit) :: t => (d, n) :: ownRemovals t
  | _ :: t => ownRemovals t

/-! ## the rely is a preorder; the relation the proof carries around -/

theorem Removes.refl (s : RFS) : Removes s s := ⟨fun _ => List.Sublist.refl _, rfl, rfl⟩

theorem Removes.trans {a b c : RFS} (h1 : Removes a b) (h2 : Removes b c) : Removes a c :=
  ⟨fun d => (h2.sub d).trans (h1.sub d), h2.kinds.trans h1.kinds, h2.streams.trans h1.streams⟩

/-- entries only disappeared, kinds are unchanged, and the directory streams of objects of rank `≥ k` are
untouched -/
structure Evo (rank : Fd → Nat) (k : Nat) (s s' : RFS) : Prop where
  sub : ∀ d, (s'.entries d).Sublist (s.entries d)
  kinds : s'.isDir = s.isDir
  streams : ∀ d, k ≤ rank d → s'.streams d = s.streams d

theorem Evo.refl (rank : Fd → Nat) (k : Nat) (s : RFS) : Evo rank k s s :=
  ⟨fun _ => List.Sublist.refl _, rfl, fun _ _ => rfl⟩

theorem Evo.trans {rank : Fd → Nat} {k : Nat} {a b c : RFS} (h1 : Evo rank k a b) (h2 : Evo rank k b c) :
    Evo rank k a c :=
  ⟨fun d => (h2.sub d).trans (h1.sub d), h2.kinds.trans h1.kinds,
    fun d hd => (h2.streams d hd).trans (h1.streams d hd)⟩

theorem Evo.mono {rank : Fd → Nat} {k k' : Nat} {a b : RFS} (hk : k ≤ k') (h : Evo rank k a b) : Evo rank k' a b :=
  ⟨h.sub, h.kinds, fun d hd => h.streams d (Nat.le_trans hk hd)⟩

theorem Removes.evo {rank : Fd → Nat} {k : Nat} {a b : RFS} (h : Removes a b) : Evo rank k a b :=
  ⟨h.sub, h.kinds, fun d _ => by rw [h.streams]⟩

theorem Removes.toSub {a b : RFS} (h : Removes a b) : Sub a b := ⟨h.kinds, h.sub⟩

theorem Evo.toSub {rank : Fd → Nat} {k : Nat} {a b : RFS} (h : Evo rank k a b) : Sub a b := ⟨h.kinds, h.sub⟩

theorem Evo.only {rank : Fd → Nat} {k : Nat} {a b : RFS} (h : Evo rank k a b) : OnlyRemoved a b := ⟨h.sub, h.kinds⟩

theorem _root_.RmAll.Sub.refl (s : RFS) : Sub s s := ⟨rfl, fun _ => List.Sublist.refl _⟩

theorem _root_.RmAll.Sub.trans {a b c : RFS} (h1 : Sub a b) (h2 : Sub b c) : Sub a c :=
  ⟨h2.isDir.trans h1.isDir, fun d => (h2.sub d).trans (h1.sub d)⟩

theorem _root_.RmAll.Same.evo {rank : Fd → Nat} {c : Fd} {s s' : RFS} (h : Same c s s') : Evo rank (rank c + 1) s s' :=
  ⟨fun d => by rw [h.entries]; exact List.Sublist.refl _, h.isDir,
    fun d hd => h.streams d (fun hdc => by subst hdc; omega)⟩

/-! ## facts that survive removals -/

theorem lookup_none_not_mem {n : Bytes} : ∀ {l : List (Bytes × Fd)}, l.lookup n = none → ∀ c, (n, c) ∉ l
  | [], _, _, h => by cases h
  | (a, b) :: l, h, c, hm => by
    rw [List.lookup_cons] at h
    cases hab : (n == a) with
    | true => rw [hab] at h; cases h
    | false =>
      rw [hab] at h
      rcases List.mem_cons.mp hm with heq | hin
      · have h1 : n = a := congrArg Prod.fst heq
        subst h1
        simp at hab
      · exact lookup_none_not_mem h c hin

theorem absent_stable {s s' : RFS} (h : Sub s s') {d : Fd} {n : Bytes} (ha : s.child d n = none) :
    s'.child d n = none := by
  cases hc : s'.child d n with
  | none => rfl
  | some c => exact absurd (h.mem _ _ (child_mem hc)) (lookup_none_not_mem ha c)

theorem child_back {s s' : RFS} {rank : Fd → Nat} (hw : WF s rank) (h : Sub s s') {d : Fd} {n : Bytes} {c : Fd}
    (hc : s'.child d n = some c) : s.child d n = some c :=
  hw.child (h.mem _ _ (child_mem hc))

theorem empty_stable {s s' : RFS} (h : Sub s s') {c : Fd} (he : s.entries c = []) : s'.entries c = [] := by
  have hs := h.sub c
  rw [he] at hs
  exact List.sublist_nil.mp hs

theorem _root_.RmAll.Sub.removeEntry (s : RFS) (d : Fd) (n : Bytes) : Sub s (s.removeEntry d n) :=
  ⟨rfl, fun x => by
    rw [entries_removeEntry]
    by_cases hx : x = d
    · subst hx; rw [if_pos rfl]; exact List.filter_sublist
    · rw [if_neg hx]; exact List.Sublist.refl _⟩

theorem child_removeEntry (s : RFS) (d : Fd) (n : Bytes) : (s.removeEntry d n).child d n = none := by
  cases hc : (s.removeEntry d n).child d n with
  | none => rfl
  | some c =>
    have hm := child_mem hc
    rw [entries_removeEntry, if_pos rfl] at hm
    have := (List.mem_filter.mp hm).2
    simp at this

theorem answer_unlinkat_cases (s : RFS) (d : Fd) (n : Bytes) (fl : Nat) :
    s.answer (.unlinkat d n fl) = .unit ∨ ∃ e, s.answer (.unlinkat d n fl) = .err e := by
  simp only [RFS.answer]
  repeat' split
  all_goals first | exact .inl rfl | exact .inr ⟨_, rfl⟩

theorem effect_unlinkat_sub (s : RFS) (d : Fd) (n : Bytes) (fl : Nat) : Sub s (s.effect (.unlinkat d n fl)) := by
  rcases answer_unlinkat_cases s d n fl with h | ⟨e, h⟩
  · rw [effect_unlinkat_unit h]; exact Sub.removeEntry s d n
  · rw [effect_unlinkat_err h]; exact Sub.refl s

theorem effect_unlinkat_streams (s : RFS) (d : Fd) (n : Bytes) (fl : Nat) :
    (s.effect (.unlinkat d n fl)).streams = s.streams := by
  rcases answer_unlinkat_cases s d n fl with h | ⟨e, h⟩
  · rw [effect_unlinkat_unit h]; rfl
  · rw [effect_unlinkat_err h]

theorem effect_unlinkat_removes (s : RFS) (d : Fd) (n : Bytes) (fl : Nat) : Removes s (s.effect (.unlinkat d n fl)) :=
  ⟨(effect_unlinkat_sub s d n fl).sub, (effect_unlinkat_sub s d n fl).isDir, effect_unlinkat_streams s d n fl⟩

/-! ## own removals -/

theorem own_unlink_unit (d : Fd) (n : Bytes) (fl : Nat) (t : Hist) :
    ownRemovals ((.unlinkat d n fl, .unit) :: t) = (d, n) :: ownRemovals t := rfl

theorem own_cons_err (c : Call) (e : Nat) (t : Hist) : ownRemovals ((c, .err e) :: t) = ownRemovals t := by
  cases c <;> rfl

/-- calls that change nothing and remove nothing -/
def quiet : Call → Bool
  | .gettid | .fstatat .. | .readlinkAbs .. | .close .. | .openat .. => true
  | _ => false

theorem own_cons_quiet {c : Call} (h : quiet c = true) (r : Resp) (t : Hist) :
    ownRemovals ((c, r) :: t) = ownRemovals t := by
  cases c <;> first | rfl | (simp [quiet] at h)

theorem effect_quiet {c : Call} (h : quiet c = true) (s : RFS) : s.effect c = s := by
  cases c <;> first | rfl | (simp [quiet] at h)

theorem ownRemovals_append (t1 t2 : Hist) : ownRemovals (t1 ++ t2) = ownRemovals t1 ++ ownRemovals t2 := by
  induction t1 with
  | nil => rfl
  | cons x t ih =>
    obtain ⟨c, r⟩ := x
    by_cases h : ∃ d n fl, c = .unlinkat d n fl ∧ r = .unit
    · obtain ⟨d, n, fl, rfl, rfl⟩ := h
      rw [List.cons_append, own_unlink_unit, own_unlink_unit, ih, List.cons_append]
    · have hne : ∀ t', ownRemovals ((c, r) :: t') = ownRemovals t' := by
        intro t'
        cases c <;> first | rfl | (cases r <;> first | rfl | exact absurd ⟨_, _, _, rfl, rfl⟩ h)
      rw [List.cons_append, hne, hne, ih]

def Quiet (t : Hist) : Prop := ∀ x ∈ t, quiet x.1 = true

theorem Quiet.own {t : Hist} (h : Quiet t) : ownRemovals t = [] := by
  induction t with
  | nil => rfl
  | cons x t ih =>
    obtain ⟨c, r⟩ := x
    rw [own_cons_quiet (h (c, r) List.mem_cons_self)]
    exact ih (fun y hy => h y (List.mem_cons_of_mem _ hy))

theorem Quiet.valid {t : Hist} {s s' : RFS} (h : Quiet t) (hv : ValidR s t s') : Removes s s' := by
  induction hv with
  | nil hR => exact hR
  | @cons s0 s1 s2 c r t hR hr hv ih =>
    have hq : quiet c = true := h (c, r) List.mem_cons_self
    rw [effect_quiet hq] at ih
    exact hR.trans (ih (fun y hy => h y (List.mem_cons_of_mem _ hy)))

/-! ## runs against the tree with the environment moving -/

theorem ValidR.split {s s' : RFS} {t1 t2 : Hist} (h : ValidR s (t1 ++ t2) s') :
    ∃ sm, ValidR s t1 sm ∧ ValidR sm t2 s' := by
  induction t1 generalizing s with
  | nil => exact ⟨s, .nil (Removes.refl s), h⟩
  | cons x t ih =>
    cases h with
    | cons hR hr hv =>
      obtain ⟨sm, h1, h2⟩ := ih hv
      exact ⟨sm, .cons hR hr h1, h2⟩

theorem ValidR.answers {s s' : RFS} {t : Hist} (h : ValidR s t s') : ∀ x ∈ t, ∃ s1, x.2 = RFS.answer s1 x.1 := by
  induction h with
  | nil _ => intro x hx; cases hx
  | cons hR hr hv ih =>
    intro x hx
    rcases List.mem_cons.mp hx with rfl | hx
    · exact ⟨_, hr⟩
    · exact ih x hx

/-- `p`, started in `s`, produced the history `t` and the result `r`, and the tree ended as `s'` -/
def Run {α : Type} (p : Prog α) (s : RFS) (t : Hist) (r : α) (s' : RFS) : Prop := RunsT p t r ∧ ValidR s t s'

section
variable {α β : Type} {s s' : RFS} {t : Hist}

theorem Run.ret_inv {a b : α} (h : Run (.ret a) s t b s') : t = [] ∧ b = a ∧ Removes s s' := by
  obtain ⟨hr, hv⟩ := h
  obtain ⟨rfl, rfl⟩ := RunsT.ret_inv hr
  cases hv with
  | nil hR => exact ⟨rfl, rfl, hR⟩

theorem Run.call_inv {c : Call} {k : Resp → Prog α} {a : α} (h : Run (.call c k) s t a s') :
    ∃ s1 t', Removes s s1 ∧ t = (c, s1.answer c) :: t' ∧ Run (k (s1.answer c)) (s1.effect c) t' a s' := by
  obtain ⟨hr, hv⟩ := h
  obtain ⟨r, t', rfl, hk⟩ := RunsT.call_inv hr
  cases hv with
  | @cons _ s1 _ _ _ _ hR hresp hrest =>
    subst hresp
    exact ⟨s1, t', hR, rfl, hk, hrest⟩

theorem Run.bind_inv {p : Prog α} {f : α → Prog β} {b : β} (h : Run (Prog.bind p f) s t b s') :
    ∃ t1 t2 a sm, t = t1 ++ t2 ∧ Run p s t1 a sm ∧ Run (f a) sm t2 b s' := by
  obtain ⟨hr, hv⟩ := h
  obtain ⟨t1, t2, a, rfl, h1, h2⟩ := RunsT.bind_inv hr
  obtain ⟨sm, hv1, hv2⟩ := hv.split
  exact ⟨t1, t2, a, sm, rfl, ⟨h1, hv1⟩, ⟨h2, hv2⟩⟩

theorem Run.mbind_inv' {p : M α} {f : α → M β} {r : Except Err β} (h : Run (M.bind' p f) s t r s') :
    ∃ t1 t2 x sm, t = t1 ++ t2 ∧ Run p s t1 x sm ∧
      Run (match x with | .ok a => f a | .error e => Prog.ret (.error e)) sm t2 r s' := by
  obtain ⟨hr, hv⟩ := h
  obtain ⟨t1, t2, x, rfl, h1, h2⟩ := RunsT.mbind_inv' hr
  obtain ⟨sm, hv1, hv2⟩ := hv.split
  exact ⟨t1, t2, x, sm, rfl, ⟨h1, hv1⟩, ⟨h2, hv2⟩⟩

theorem Run.try_inv {p : M α} {r : Except Err (Except Err α)} (h : Run (M.try' p) s t r s') :
    ∃ x, Run p s t x s' ∧
      ((∃ a, x = .ok a ∧ r = .ok (.ok a)) ∨
       (∃ e, x = .error e ∧ ((e.isFatal = true ∧ r = .error e) ∨ (e.isFatal = false ∧ r = .ok (.error e))))) := by
  obtain ⟨hr, hv⟩ := h
  obtain ⟨x, hx, hc⟩ := RunsT.try_inv hr
  exact ⟨x, ⟨hx, hv⟩, hc⟩

theorem Run.ofExcept_inv {x r : Except Err α} (h : Run (M.ofExcept x) s t r s') : t = [] ∧ r = x ∧ Removes s s' := by
  obtain ⟨hr, hv⟩ := h
  obtain ⟨rfl, rfl⟩ := RunsT.ofExcept_inv hr
  cases hv with
  | nil hR => exact ⟨rfl, rfl, hR⟩

theorem Run.mcall_inv {c : Call} {r : Except Err Resp} (h : Run (M.call c) s t r s') :
    ∃ s1, Removes s s1 ∧ t = [(c, s1.answer c)] ∧ r = .ok (s1.answer c) ∧ Removes (s1.effect c) s' := by
  obtain ⟨hr, hv⟩ := h
  obtain ⟨x, rfl, rfl⟩ := RunsT.mcall_inv hr
  cases hv with
  | @cons _ s1 _ _ _ _ hR hresp hrest =>
    subst hresp
    cases hrest with
    | nil hR2 => exact ⟨s1, hR, rfl, rfl, hR2⟩

end

/-! ## the diagnostic reads of the error path -/

theorem Quiet.nil : Quiet [] := fun _ hx => by cases hx

theorem Quiet.append {a b : Hist} (ha : Quiet a) (hb : Quiet b) : Quiet (a ++ b) := fun x hx =>
  (List.mem_append.mp hx).elim (ha x) (hb x)

theorem Quiet.cons {c : Call} {r : Resp} {t : Hist} (hc : quiet c = true) (ht : Quiet t) :
    Quiet ((c, r) :: t) := fun x hx => by
  rcases List.mem_cons.mp hx with rfl | hx
  · exact hc
  · exact ht x hx

/-- whatever the probes of the thread-self spellings are answered: a failing one just moves
on to the next, no error value is built -/
theorem freeze_probe_quiet : ∀ (cands : List Bytes) {t : Hist} {b : Bytes},
    RunsT (Sys.freeze.probe cands) t b → Quiet t := by
  intro cands
  induction cands with
  | nil =>
    intro t b hr
    rw [Sys.freeze.probe.eq_1] at hr
    obtain ⟨rfl, _⟩ := RunsT.ret_inv hr
    exact Quiet.nil
  | cons cand rest ih =>
    intro t b hr
    rw [Sys.freeze.probe.eq_2] at hr
    obtain ⟨r, t', rfl, hr'⟩ := RunsT.call_inv hr
    refine Quiet.cons rfl ?_
    split at hr'
    · exact ih hr'
    · obtain ⟨rfl, _⟩ := RunsT.ret_inv hr'
      exact Quiet.nil

theorem freeze_quiet (fd : Fd) {t : Hist} {u : Unit} (hr : RunsT (Sys.freeze fd) t u) : Quiet t := by
  unfold Sys.freeze at hr
  obtain ⟨t1, t2, tid, rfl, h1, h2⟩ := RunsT.bind_inv hr
  unfold Sys.gettid at h1
  obtain ⟨r1, t1', rfl, h1'⟩ := RunsT.call_inv h1
  have ht1' : t1' = [] := by
    split at h1' <;> exact (RunsT.ret_inv h1').1
  subst ht1'
  obtain ⟨t3, t4, base, rfl, h3, h4⟩ := RunsT.bind_inv h2
  refine (Quiet.cons rfl Quiet.nil).append ((freeze_probe_quiet _ h3).append ?_)
  split at h4
  · obtain ⟨rfl, _⟩ := RunsT.ret_inv h4
    exact Quiet.nil
  · obtain ⟨r5, t5, rfl, h5⟩ := RunsT.call_inv h4
    obtain ⟨rfl, _⟩ := RunsT.ret_inv h5
    exact Quiet.cons rfl Quiet.nil

theorem failWith_tree {α : Type} (d : Fd) (e : Nat) {t : Hist} {x : Except Err α}
    (hr : RunsT (Sys.failWith [d] e : M α) t x) : x = .error (.os e) ∧ Quiet t := by
  unfold Sys.failWith Sys.failWith.go at hr
  obtain ⟨t1, t2, u, rfl, h1, h2⟩ := RunsT.bind_inv hr
  have hn := freeze_quiet d h1
  unfold Sys.failWith.go at h2
  obtain ⟨rfl, rfl⟩ := RunsT.ret_inv h2
  exact ⟨rfl, by simpa using hn⟩

theorem failWith_run {α : Type} {s s' : RFS} {d : Fd} {e : Nat} {t : Hist} {x : Except Err α}
    (h : Run (Sys.failWith [d] e : M α) s t x s') : x = .error (.os e) ∧ Removes s s' ∧ ownRemovals t = [] := by
  obtain ⟨hx, hq⟩ := failWith_tree d e h.1
  exact ⟨hx, hq.valid h.2, hq.own⟩

/-! ## the wrappers -/

theorem unlinkat_run {s s' : RFS} {d : Fd} {n : Bytes} {fl : Nat} {t : Hist} {r : Except Err Unit} (hd : 0 ≤ d)
    (h : Run (Sys.unlinkat d n fl) s t r s') :
    ∃ s1, Removes s s1 ∧ Removes (s1.effect (.unlinkat d n fl)) s' ∧
      ((s1.answer (.unlinkat d n fl) = .unit ∧ r = .ok () ∧ ownRemovals t = [(d, n)]) ∨
       (∃ e, s1.answer (.unlinkat d n fl) = .err e ∧ r = .error (.os e) ∧ ownRemovals t = [])) := by
  unfold Sys.unlinkat at h
  simp only [M.bind_def] at h
  obtain ⟨ta, tb, u, sm, rfl, hh, hunit⟩ := Run.mbind_inv' h
  have hh' : Run (M.ofExcept (Sys.hotfix d)) s ta u sm := hh
  obtain ⟨rfl, hu, hR0⟩ := Run.ofExcept_inv hh'
  rw [RmAll.hotfix_ok hd] at hu
  subst hu
  simp only [] at hunit
  unfold Sys.unitCall at hunit
  simp only [M.bind_def] at hunit
  obtain ⟨tc, td, v, sn, rfl, hcall, hdisp⟩ := Run.mbind_inv' hunit
  obtain ⟨s1, hR1, rfl, rfl, hR2⟩ := Run.mcall_inv hcall
  simp only [] at hdisp
  refine ⟨s1, hR0.trans hR1, ?_⟩
  rcases answer_unlinkat_cases s1 d n fl with ha | ⟨e, ha⟩
  · rw [ha] at hdisp ⊢
    simp only [] at hdisp
    obtain ⟨rfl, rfl, hR3⟩ := Run.ret_inv hdisp
    exact ⟨hR2.trans hR3, .inl ⟨rfl, rfl, rfl⟩⟩
  · rw [ha] at hdisp ⊢
    simp only [] at hdisp
    obtain ⟨rfl, hR3, hown⟩ := failWith_run hdisp
    refine ⟨hR2.trans hR3, .inr ⟨e, rfl, rfl, ?_⟩⟩
    rw [List.nil_append, ownRemovals_append, hown, List.append_nil]
    exact own_cons_err _ _ _

theorem tryUnlinkat_run {s s' : RFS} {d : Fd} {n : Bytes} {fl : Nat} {t : Hist} {r : Except Err (Except Err Unit)}
    (hd : 0 ≤ d) (h : Run (M.try' (Sys.unlinkat d n fl)) s t r s') :
    ∃ s1, Removes s s1 ∧ Removes (s1.effect (.unlinkat d n fl)) s' ∧
      ((s1.answer (.unlinkat d n fl) = .unit ∧ r = .ok (.ok ()) ∧ ownRemovals t = [(d, n)]) ∨
       (∃ e, s1.answer (.unlinkat d n fl) = .err e ∧ r = .ok (.error (.os e)) ∧ ownRemovals t = [])) := by
  obtain ⟨x, hx, hc⟩ := Run.try_inv h
  obtain ⟨s1, hR1, hR2, hcase⟩ := unlinkat_run hd hx
  refine ⟨s1, hR1, hR2, ?_⟩
  rcases hcase with ⟨ha, rfl, hown⟩ | ⟨e, ha, rfl, hown⟩
  · rcases hc with ⟨a, _, hr⟩ | ⟨e, he, _⟩
    · exact .inl ⟨ha, hr, hown⟩
    · cases he
  · rcases hc with ⟨a, he, _⟩ | ⟨e', he, hf⟩
    · cases he
    · cases he
      rcases hf with ⟨hf, _⟩ | ⟨_, hr⟩
      · cases hf
      · exact .inr ⟨e, ha, hr, hown⟩

theorem openat_run {s s' : RFS} {d : Fd} {n : Bytes} {fl mode : Nat} {t : Hist} {r : Except Err Fd} (hd : 0 ≤ d)
    (h : Run (Sys.openat d n fl mode) s t r s') :
    ownRemovals t = [] ∧ ∃ s1, Removes s s1 ∧ Removes s1 s' ∧
      ((s1.child d n = none ∧ r = .error (.os ENOENT)) ∨
       (∃ c, s1.child d n = some c ∧ s1.isDir c = true ∧ r = .ok c) ∨
       (∃ c, s1.child d n = some c ∧ s1.isDir c = false ∧ r = .error (.os ENOTDIR))) := by
  unfold Sys.openat Sys.openatFollow at h
  simp only [M.bind_def] at h
  obtain ⟨ta, tb, u, sm, rfl, hh, hcall⟩ := Run.mbind_inv' h
  have hh' : Run (M.ofExcept (Sys.hotfix d)) s ta u sm := hh
  obtain ⟨rfl, hu, hR0⟩ := Run.ofExcept_inv hh'
  rw [RmAll.hotfix_ok hd] at hu
  subst hu
  simp only [] at hcall
  obtain ⟨tc, td, v, sn, rfl, hc, hdisp⟩ := Run.mbind_inv' hcall
  obtain ⟨s1, hR1, rfl, rfl, hR2⟩ := Run.mcall_inv hc
  simp only [] at hdisp
  have heff : s1.effect (.openat d n (fl ||| O_NOFOLLOW ||| O_CLOEXEC ||| O_NOCTTY) mode) = s1 := rfl
  rw [heff] at hR2
  cases hch : s1.child d n with
  | none =>
    have ha : s1.answer (.openat d n (fl ||| O_NOFOLLOW ||| O_CLOEXEC ||| O_NOCTTY) mode) = .err ENOENT := by
      simp only [RFS.answer, hch]
    rw [ha] at hdisp ⊢
    simp only [] at hdisp
    obtain ⟨rfl, hR3, hown⟩ := failWith_run hdisp
    refine ⟨?_, s1, hR0.trans hR1, hR2.trans hR3, .inl ⟨hch, rfl⟩⟩
    rw [List.nil_append, ownRemovals_append, hown, List.append_nil]
    exact own_cons_err _ _ _
  | some c =>
    cases hdc : s1.isDir c with
    | true =>
      have ha : s1.answer (.openat d n (fl ||| O_NOFOLLOW ||| O_CLOEXEC ||| O_NOCTTY) mode) = .fd c := by
        simp only [RFS.answer, hch, hdc, ↓reduceIte]
      rw [ha] at hdisp ⊢
      simp only [] at hdisp
      obtain ⟨rfl, rfl, hR3⟩ := Run.ret_inv hdisp
      exact ⟨own_cons_quiet rfl _ _, s1, hR0.trans hR1, hR2.trans hR3, .inr (.inl ⟨c, hch, hdc, rfl⟩)⟩
    | false =>
      have ha : s1.answer (.openat d n (fl ||| O_NOFOLLOW ||| O_CLOEXEC ||| O_NOCTTY) mode) = .err ENOTDIR := by
        simp only [RFS.answer, hch, hdc, Bool.false_eq_true, ↓reduceIte]
      rw [ha] at hdisp ⊢
      simp only [] at hdisp
      obtain ⟨rfl, hR3, hown⟩ := failWith_run hdisp
      refine ⟨?_, s1, hR0.trans hR1, hR2.trans hR3, .inr (.inr ⟨c, hch, hdc, rfl⟩)⟩
      rw [List.nil_append, ownRemovals_append, hown, List.append_nil]
      exact own_cons_err _ _ _

theorem ValidR.weaken_end {s sm s' : RFS} {t : Hist} (h : ValidR s t sm) (hR : Removes sm s') : ValidR s t s' := by
  induction h with
  | nil h0 => exact .nil (h0.trans hR)
  | cons h0 hr _ ih => exact .cons h0 hr (ih hR)

theorem Run.weaken_end {α : Type} {p : Prog α} {s sm s' : RFS} {t : Hist} {r : α} (h : Run p s t r sm)
    (hR : Removes sm s') : Run p s t r s' := ⟨h.1, h.2.weaken_end hR⟩

/-- every own removal satisfies `P` -/
def Own (P : Fd × Bytes → Prop) (t : Hist) : Prop := ∀ x ∈ ownRemovals t, P x

theorem Own.nil {P : Fd × Bytes → Prop} {t : Hist} (h : ownRemovals t = []) : Own P t := by
  intro x hx; rw [h] at hx; cases hx

theorem Own.one {P : Fd × Bytes → Prop} {t : Hist} {y : Fd × Bytes} (h : ownRemovals t = [y]) (hy : P y) : Own P t := by
  intro x hx
  rw [h] at hx
  rcases List.mem_cons.mp hx with rfl | hx
  · exact hy
  · cases hx

theorem Own.append {P : Fd × Bytes → Prop} {t1 t2 : Hist} (h1 : Own P t1) (h2 : Own P t2) : Own P (t1 ++ t2) := by
  intro x hx
  rw [ownRemovals_append] at hx
  rcases List.mem_append.mp hx with h | h
  · exact h1 x h
  · exact h2 x h

theorem Own.mono {P Q : Fd × Bytes → Prop} {t : Hist} (h : Own P t) (hpq : ∀ x, P x → Q x) : Own Q t :=
  fun x hx => hpq x (h x hx)

theorem Own.empty (P : Fd × Bytes → Prop) : Own P [] := Own.nil rfl

/-! ## `removeInode` -/

theorem removeInode_run {rank : Fd → Nat} {s s' : RFS} {dir : Fd} {name : Bytes} {t : Hist} {r : Except Err Unit}
    (hw : WF s rank) (hd : 0 ≤ dir) (h : Run (RemoveAll.removeInode dir name) s t r s') :
    Removes s s' ∧ Own (fun x => x = (dir, name)) t ∧
      ((r = .ok () ∧ s'.child dir name = none) ∨ (r = .error (.os ENOENT) ∧ s'.child dir name = none) ∨
       (r = .error (.os ENOTEMPTY) ∧ ∃ c, s.child dir name = some c ∧ s.isDir c = true ∧ s.entries c ≠ [])) := by
  unfold RemoveAll.removeInode at h
  simp only [M.bind_def] at h
  obtain ⟨t1, t2, x, sm, rfl, h1, h2⟩ := Run.mbind_inv' h
  obtain ⟨s1, hR1, hR2, hcase⟩ := tryUnlinkat_run hd h1
  have hE1 := effect_unlinkat_removes s1 dir name 0
  rcases hcase with ⟨ha, rfl, hown1⟩ | ⟨e, ha, rfl, hown1⟩
  · simp only [] at h2
    obtain ⟨rfl, rfl, hR3⟩ := Run.ret_inv h2
    refine ⟨hR1.trans (hE1.trans (hR2.trans hR3)), (Own.one (P := fun x => x = (dir, name)) hown1 rfl).append (Own.empty _), .inl ⟨rfl, ?_⟩⟩
    refine absent_stable (hR2.trans hR3).toSub ?_
    rw [effect_unlinkat_unit ha]
    exact child_removeEntry _ _ _
  · simp only [] at h2
    obtain ⟨t3, t4, y, sn, rfl, h3, h4⟩ := Run.mbind_inv' h2
    obtain ⟨s2, hR3, hR4, hcase2⟩ := tryUnlinkat_run hd h3
    have hE2 := effect_unlinkat_removes s2 dir name AT_REMOVEDIR
    rw [effect_unlinkat_err ha] at hR2 hE1
    have hw1 : WF s1 rank := hw.of_sub hR1.toSub
    have h12 : Removes s1 s2 := hR2.trans hR3
    rcases hcase2 with ⟨ha2, rfl, hown2⟩ | ⟨e2, ha2, rfl, hown2⟩
    · simp only [] at h4
      obtain ⟨rfl, rfl, hR5⟩ := Run.ret_inv h4
      refine ⟨hR1.trans (h12.trans (hE2.trans (hR4.trans hR5))),
        (Own.nil hown1).append ((Own.one (P := fun x => x = (dir, name)) hown2 rfl).append (Own.empty _)), .inl ⟨rfl, ?_⟩⟩
      refine absent_stable (hR4.trans hR5).toSub ?_
      rw [effect_unlinkat_unit ha2]
      exact child_removeEntry _ _ _
    · simp only [] at h4
      rw [effect_unlinkat_err ha2] at hR4 hE2
      have key : (e2 = ENOENT ∧ s2.child dir name = none) ∨
          (e2 = ENOTEMPTY ∧ ∃ c, s.child dir name = some c ∧ s.isDir c = true ∧ s.entries c ≠ []) := by
        cases hch2 : s2.child dir name with
        | none =>
          rw [answer_unlink_none _ hch2] at ha2
          cases ha2
          exact .inl ⟨rfl, rfl⟩
        | some c =>
          right
          have hch1 : s1.child dir name = some c := child_back hw1 h12.toSub hch2
          have hch0 : s.child dir name = some c := child_back hw hR1.toSub hch1
          cases hdc : s1.isDir c with
          | false =>
            rw [answer_unlink0_file hch1 hdc] at ha
            cases ha
          | true =>
            have hdc2 : s2.isDir c = true := by rw [h12.kinds]; exact hdc
            have hdc0 : s.isDir c = true := by rw [← hR1.kinds]; exact hdc
            by_cases he : s2.entries c = []
            · rw [answer_rmdir_empty hch2 hdc2 he] at ha2
              cases ha2
            · rw [answer_rmdir_nonempty hch2 hdc2 he] at ha2
              cases ha2
              exact ⟨rfl, c, hch0, hdc0, fun h0 => he (empty_stable (hR1.trans h12).toSub h0)⟩
      have hown : Own (fun x => x = (dir, name)) (t1 ++ (t3 ++ t4)) := by
        have h4' := h4
        have ht4 : t4 = [] := by
          by_cases hc : Err.os e2 = Err.os ENOTDIR
          · rw [if_pos hc] at h4'; exact (Run.ret_inv h4').1
          · rw [if_neg hc] at h4'; exact (Run.ret_inv h4').1
        subst ht4
        exact (Own.nil hown1).append ((Own.nil hown2).append (Own.empty _))
      rcases key with ⟨rfl, hnone⟩ | ⟨rfl, hc⟩
      · have hne : ¬ (Err.os ENOENT = Err.os ENOTDIR) := by decide
        rw [if_neg hne] at h4
        obtain ⟨rfl, rfl, hR5⟩ := Run.ret_inv h4
        exact ⟨hR1.trans (h12.trans (hR4.trans hR5)), hown,
          .inr (.inl ⟨rfl, absent_stable (hR4.trans hR5).toSub hnone⟩)⟩
      · have hne : ¬ (Err.os ENOTEMPTY = Err.os ENOTDIR) := by decide
        rw [if_neg hne] at h4
        obtain ⟨rfl, rfl, hR5⟩ := Run.ret_inv h4
        exact ⟨hR1.trans (h12.trans (hR4.trans hR5)), hown, .inr (.inr ⟨rfl, hc⟩)⟩

theorem ignoreEnoent_inv {p : M Unit} {s s' : RFS} {t : Hist} {r : Except Err Unit}
    (h : Run (RemoveAll.ignoreEnoent p) s t r s') :
    ∃ x, Run p s t x s' ∧ (x = .ok () → r = .ok ()) ∧
      (∀ e, x = .error (.os e) → r = if e = ENOENT then .ok () else .error (.os e)) := by
  unfold RemoveAll.ignoreEnoent at h
  simp only [M.bind_def] at h
  obtain ⟨t1, t2, x1, sm, rfl, h1, h2⟩ := Run.mbind_inv' h
  obtain ⟨x, hx, hc⟩ := Run.try_inv h1
  rcases hc with ⟨a, rfl, rfl⟩ | ⟨e, rfl, ⟨hf, rfl⟩ | ⟨hf, rfl⟩⟩
  · simp only [] at h2
    obtain ⟨rfl, rfl, hR⟩ := Run.ret_inv h2
    refine ⟨_, by rw [List.append_nil]; exact hx.weaken_end hR, fun _ => rfl, fun e he => by cases he⟩
  · simp only [] at h2
    obtain ⟨rfl, rfl, hR⟩ := Run.ret_inv h2
    refine ⟨_, by rw [List.append_nil]; exact hx.weaken_end hR, (fun he => by cases he), fun e' he => ?_⟩
    cases he
    cases hf
  · simp only [] at h2
    have ht2 : t2 = [] ∧ Removes sm s' ∧ ∀ e', e = .os e' → r = if e' = ENOENT then .ok () else .error (.os e') := by
      cases e with
      | os e' =>
        simp only [] at h2
        by_cases hc : e' = ENOENT
        · rw [if_pos hc] at h2
          obtain ⟨rfl, rfl, hR⟩ := Run.ret_inv h2
          exact ⟨rfl, hR, fun e'' he => by cases he; rw [if_pos hc]⟩
        · rw [if_neg hc] at h2
          obtain ⟨rfl, rfl, hR⟩ := Run.ret_inv h2
          exact ⟨rfl, hR, fun e'' he => by cases he; rw [if_neg hc]⟩
      | _ =>
        simp only [] at h2
        obtain ⟨rfl, rfl, hR⟩ := Run.ret_inv h2
        exact ⟨rfl, hR, fun e'' he => by cases he⟩
    obtain ⟨rfl, hR, hr⟩ := ht2
    refine ⟨_, by rw [List.append_nil]; exact hx.weaken_end hR, (fun he => by cases he), fun e' he => ?_⟩
    cases he
    exact hr e' rfl

theorem isOk_inv {α : Type} {p : M α} {s s' : RFS} {t : Hist} {r : Except Err Bool} (h : Run (M.isOk p) s t r s') :
    ∃ x, Run p s t x s' ∧ ((∃ a, x = .ok a) → r = .ok true) ∧
      (∀ e, x = .error e → e.isFatal = false → r = .ok false) := by
  unfold M.isOk at h
  simp only [M.bind_def] at h
  obtain ⟨t1, t2, x1, sm, rfl, h1, h2⟩ := Run.mbind_inv' h
  obtain ⟨x, hx, hc⟩ := Run.try_inv h1
  rcases hc with ⟨a, rfl, rfl⟩ | ⟨e, rfl, ⟨hf, rfl⟩ | ⟨hf, rfl⟩⟩
  · simp only [] at h2
    obtain ⟨rfl, rfl, hR⟩ := Run.ret_inv h2
    exact ⟨_, by rw [List.append_nil]; exact hx.weaken_end hR, fun _ => rfl, fun e he => by cases he⟩
  · simp only [] at h2
    obtain ⟨rfl, rfl, hR⟩ := Run.ret_inv h2
    refine ⟨Except.error e, by rw [List.append_nil]; exact hx.weaken_end hR, (fun ⟨a, ha⟩ => by cases ha), fun e' he hf' => ?_⟩
    cases he
    rw [hf] at hf'
    cases hf'
  · simp only [] at h2
    obtain ⟨rfl, rfl, hR⟩ := Run.ret_inv h2
    exact ⟨Except.error e, by rw [List.append_nil]; exact hx.weaken_end hR, (fun ⟨a, ha⟩ => by cases ha), fun e' _ _ => rfl⟩

/-- the first attempt of `remove_all`: the entry is gone, or it is a directory that was not empty -/
theorem removed_run {rank : Fd → Nat} {s s' : RFS} {dir : Fd} {name : Bytes} {t : Hist} {r : Except Err Bool}
    (hw : WF s rank) (hd : 0 ≤ dir)
    (h : Run (M.isOk (RemoveAll.ignoreEnoent (RemoveAll.removeInode dir name))) s t r s') :
    Removes s s' ∧ Own (fun x => x = (dir, name)) t ∧
      ((r = .ok true ∧ s'.child dir name = none) ∨
       (r = .ok false ∧ ∃ c, s.child dir name = some c ∧ s.isDir c = true ∧ s.entries c ≠ [])) := by
  obtain ⟨x, hx, hok, herr⟩ := isOk_inv h
  obtain ⟨y, hy, hyok, hyerr⟩ := ignoreEnoent_inv hx
  obtain ⟨hR, hown, hcase⟩ := removeInode_run hw hd hy
  refine ⟨hR, hown, ?_⟩
  rcases hcase with ⟨rfl, habs⟩ | ⟨rfl, habs⟩ | ⟨rfl, hc⟩
  · exact .inl ⟨hok ⟨(), hyok rfl⟩, habs⟩
  · have := hyerr ENOENT rfl
    rw [if_pos rfl] at this
    exact .inl ⟨hok ⟨(), this⟩, habs⟩
  · have := hyerr ENOTEMPTY rfl
    rw [if_neg (by decide)] at this
    exact .inr ⟨herr _ this rfl, hc⟩

/-- the last attempt of `remove_all`, once the directory is empty -/
theorem removeFinal_run {rank : Fd → Nat} {s s' : RFS} {dir : Fd} {name : Bytes} {t : Hist} {r : Except Err Unit}
    (hw : WF s rank) (hd : 0 ≤ dir) (hempty : ∀ c, s.child dir name = some c → s.entries c = [])
    (h : Run (RemoveAll.ignoreEnoent (RemoveAll.removeInode dir name)) s t r s') :
    Removes s s' ∧ Own (fun x => x = (dir, name)) t ∧ r = .ok () ∧ s'.child dir name = none := by
  obtain ⟨y, hy, hyok, hyerr⟩ := ignoreEnoent_inv h
  obtain ⟨hR, hown, hcase⟩ := removeInode_run hw hd hy
  refine ⟨hR, hown, ?_⟩
  rcases hcase with ⟨rfl, habs⟩ | ⟨rfl, habs⟩ | ⟨rfl, c, hc, _, hne⟩
  · exact ⟨hyok rfl, habs⟩
  · have := hyerr ENOENT rfl
    rw [if_pos rfl] at this
    exact ⟨this, habs⟩
  · exact absurd (hempty c hc) hne

theorem openSubdir_run {s s' : RFS} {d : Fd} {n : Bytes} {t : Hist} {r : Except Err (Option Fd)} (hd : 0 ≤ d)
    (h : Run (RemoveAll.openSubdir d n) s t r s') :
    ownRemovals t = [] ∧ ∃ s1, Removes s s1 ∧ Removes s1 s' ∧
      ((s1.child d n = none ∧ r = .ok none) ∨
       (∃ c, s1.child d n = some c ∧ s1.isDir c = true ∧ r = .ok (some c)) ∨
       (∃ c, s1.child d n = some c ∧ s1.isDir c = false)) := by
  unfold RemoveAll.openSubdir at h
  simp only [M.bind_def] at h
  obtain ⟨t1, t2, x1, sm, rfl, h1, h2⟩ := Run.mbind_inv' h
  obtain ⟨x, hx, hc⟩ := Run.try_inv h1
  obtain ⟨hown, s1, hR1, hR2, hcase⟩ := openat_run hd hx
  rcases hcase with ⟨hch, rfl⟩ | ⟨c, hch, hdc, rfl⟩ | ⟨c, hch, hdc, rfl⟩
  · rcases hc with ⟨a, he, _⟩ | ⟨e, he, ⟨hf, _⟩ | ⟨_, rfl⟩⟩
    · cases he
    · cases he; cases hf
    · cases he
      simp only [↓reduceIte] at h2
      obtain ⟨rfl, rfl, hR3⟩ := Run.ret_inv h2
      exact ⟨by rw [List.append_nil]; exact hown, s1, hR1, hR2.trans hR3, .inl ⟨hch, rfl⟩⟩
  · rcases hc with ⟨a, he, rfl⟩ | ⟨e, he, _⟩
    · cases he
      simp only [] at h2
      obtain ⟨rfl, rfl, hR3⟩ := Run.ret_inv h2
      exact ⟨by rw [List.append_nil]; exact hown, s1, hR1, hR2.trans hR3, .inr (.inl ⟨c, hch, hdc, rfl⟩)⟩
    · cases he
  · have ht2 : t2 = [] ∧ Removes sm s' := by
      rcases hc with ⟨a, he, _⟩ | ⟨e, he, ⟨hf, _⟩ | ⟨_, rfl⟩⟩
      · cases he
      · cases he; cases hf
      · cases he
        simp only [] at h2
        rw [if_neg (by decide)] at h2
        obtain ⟨rfl, _, hR3⟩ := Run.ret_inv h2
        exact ⟨rfl, hR3⟩
    obtain ⟨rfl, hR3⟩ := ht2
    exact ⟨by rw [List.append_nil]; exact hown, s1, hR1, hR2.trans hR3, .inr (.inr ⟨c, hch, hdc⟩)⟩

/-! ## the directory stream -/

theorem nextEntry_nil {rank : Fd → Nat} {s s' : RFS} {c : Fd} {sf : Nat} {t : Hist} {r : Except Err RemoveAll.DirItem}
    (hs : s.streams c = []) (h : Run (RemoveAll.nextEntry c (sf + 1)) s t r s') :
    r = .ok .fin ∧ s'.streams c = [] ∧ Evo rank (rank c + 1) s s' ∧ ownRemovals t = [] := by
  rw [RemoveAll.nextEntry.eq_2] at h
  simp only [M.bind_def] at h
  obtain ⟨t1, t2, x, sm, rfl, h1, h2⟩ := Run.mbind_inv' h
  obtain ⟨s1, hR1, rfl, rfl, hR2⟩ := Run.mcall_inv h1
  have ha : s1.answer (.dirNext c) = .fin := by simp only [RFS.answer, hR1.streams, hs]
  rw [ha] at h2 ⊢
  simp only [] at h2
  obtain ⟨rfl, rfl, hR3⟩ := Run.ret_inv h2
  refine ⟨rfl, ?_, hR1.evo.trans ((Same.dirNext c s1).evo.trans (hR2.trans hR3).evo), rfl⟩
  rw [(hR2.trans hR3).streams, streams_dirNext, hR1.streams, hs]
  rfl

theorem nextEntry_cons {rank : Fd → Nat} {s s' : RFS} {c : Fd} {sf : Nat} {t : Hist} {r : Except Err RemoveAll.DirItem}
    {n : Bytes} {rest : List Bytes} (hs : s.streams c = n :: rest) (hn1 : n ≠ Path.dot) (hn2 : n ≠ Path.dotdot)
    (h : Run (RemoveAll.nextEntry c (sf + 1)) s t r s') :
    r = .ok (.entry n) ∧ s'.streams c = rest ∧ Evo rank (rank c + 1) s s' ∧ ownRemovals t = [] := by
  rw [RemoveAll.nextEntry.eq_2] at h
  simp only [M.bind_def] at h
  obtain ⟨t1, t2, x, sm, rfl, h1, h2⟩ := Run.mbind_inv' h
  obtain ⟨s1, hR1, rfl, rfl, hR2⟩ := Run.mcall_inv h1
  have ha : s1.answer (.dirNext c) = .bytes n := by simp only [RFS.answer, hR1.streams, hs]
  rw [ha] at h2 ⊢
  simp only [hn1, hn2, or_self, ↓reduceIte] at h2
  obtain ⟨rfl, rfl, hR3⟩ := Run.ret_inv h2
  refine ⟨rfl, ?_, hR1.evo.trans ((Same.dirNext c s1).evo.trans (hR2.trans hR3).evo), rfl⟩
  rw [(hR2.trans hR3).streams, streams_dirNext, hR1.streams, hs]
  rfl

/-! ## the `children` loop and the rescan loop -/

theorem children_run (rank : Fd → Nat) (c : Fd) (fuel sf : Nat)
    (IH : ∀ (s s' : RFS) (n : Bytes) (t : Hist) (r : Except Err Unit), WF s rank → ProperName n →
      Run (RemoveAll.removeAll fuel c n) s t r s' →
      r = .ok () ∧ s'.child c n = none ∧ Evo rank (rank c) s s' ∧ Own (fun x => Below s c x.1) t) :
    ∀ (l : List Bytes) (n0 : Bytes) (k : Nat) (s s' : RFS) (t : Hist) (r : Except Err Unit), WF s rank →
      (∀ n ∈ n0 :: l, ProperName n) → s.streams c = l → l.length + 2 ≤ k →
      Run (RemoveAll.children (RemoveAll.removeAll fuel) c (sf + 1) (.entry n0) k) s t r s' →
      r = .ok () ∧ (∀ n ∈ n0 :: l, s'.child c n = none) ∧ Evo rank (rank c + 1) s s' ∧
        Own (fun x => Below s c x.1) t := by
  intro l
  induction l with
  | nil =>
    intro n0 k s s' t r hw hpn hstr hk h
    obtain ⟨k, rfl⟩ : ∃ k', k = k' + 2 := ⟨k - 2, by simp only [List.length_nil] at hk; omega⟩
    rw [children_entry] at h
    obtain ⟨t1, t2, x, sm, rfl, h1, h2⟩ := Run.mbind_inv' h
    obtain ⟨y, hy, hyok, _⟩ := ignoreEnoent_inv h1
    obtain ⟨rfl, habs, hE1, hown1⟩ := IH _ _ _ _ _ hw (hpn n0 List.mem_cons_self) hy
    have hx := hyok rfl
    subst hx
    simp only [] at h2
    obtain ⟨t3, t4, x3, sn, rfl, h3, h4⟩ := Run.mbind_inv' h2
    have hstrm : sm.streams c = [] := by rw [hE1.streams c (Nat.le_refl _), hstr]
    obtain ⟨rfl, hstrn, hE2, hown2⟩ := nextEntry_nil (rank := rank) hstrm h3
    simp only [] at h4
    rw [children_fin] at h4
    obtain ⟨rfl, rfl, hR⟩ := Run.ret_inv h4
    have hE23 : Evo rank (rank c + 1) sm s' := hE2.trans hR.evo
    refine ⟨rfl, ?_, (hE1.mono (Nat.le_succ _)).trans hE23, hown1.append ((Own.nil hown2).append (Own.empty _))⟩
    intro n hn
    rcases List.mem_cons.mp hn with rfl | hn
    · exact absent_stable hE23.toSub habs
    · cases hn
  | cons n1 l' ih =>
    intro n0 k s s' t r hw hpn hstr hk h
    obtain ⟨k, rfl⟩ : ∃ k', k = k' + 1 := ⟨k - 1, by omega⟩
    rw [children_entry] at h
    obtain ⟨t1, t2, x, sm, rfl, h1, h2⟩ := Run.mbind_inv' h
    obtain ⟨y, hy, hyok, _⟩ := ignoreEnoent_inv h1
    obtain ⟨rfl, habs, hE1, hown1⟩ := IH _ _ _ _ _ hw (hpn n0 List.mem_cons_self) hy
    have hx := hyok rfl
    subst hx
    simp only [] at h2
    obtain ⟨t3, t4, x3, sn, rfl, h3, h4⟩ := Run.mbind_inv' h2
    have hstrm : sm.streams c = n1 :: l' := by rw [hE1.streams c (Nat.le_refl _), hstr]
    have hp1 : ProperName n1 := hpn n1 (List.mem_cons_of_mem _ List.mem_cons_self)
    obtain ⟨rfl, hstrn, hE2, hown2⟩ := nextEntry_cons (rank := rank) hstrm hp1.2.2.1 hp1.2.2.2 h3
    simp only [] at h4
    have hE12 : Evo rank (rank c + 1) s sn := (hE1.mono (Nat.le_succ _)).trans hE2
    have hwn : WF sn rank := hw.of_sub hE12.toSub
    obtain ⟨rfl, habs', hE3, hown3⟩ := ih n1 k sn s' t4 r hwn (fun n hn => hpn n (List.mem_cons_of_mem _ hn)) hstrn
      (by simp only [List.length_cons] at hk; omega) h4
    refine ⟨rfl, ?_, hE12.trans hE3, hown1.append ((Own.nil hown2).append
      (hown3.mono (fun x hx => Below.mono hE12.toSub.mem hx)))⟩
    intro n hn
    rcases List.mem_cons.mp hn with rfl | hn
    · exact absent_stable (hE2.trans hE3).toSub habs
    · exact habs' n hn

theorem Run.onErr_ok {α : Type} {p : M α} {cl : Prog Unit} {s s' : RFS} {t : Hist} {r : Except Err α}
    (h : Run (M.onErr p cl) s t r s') :
    ∃ t1 t2 x sm, t = t1 ++ t2 ∧ Run p s t1 x sm ∧ (∀ a, x = .ok a → t2 = [] ∧ r = .ok a ∧ Removes sm s') := by
  unfold M.onErr at h
  obtain ⟨t1, t2, x, sm, rfl, h1, h2⟩ := Run.bind_inv h
  refine ⟨t1, t2, x, sm, rfl, h1, ?_⟩
  intro a ha
  subst ha
  simp only [] at h2
  exact Run.ret_inv h2

theorem entries_nil_of_absent {s1 s : RFS} {c : Fd} (hsub : Sub s1 s)
    (hall : ∀ n ∈ (s1.entries c).map (·.1), s.child c n = none) : s.entries c = [] := by
  apply List.eq_nil_iff_forall_not_mem.mpr
  intro x hx
  obtain ⟨n, e⟩ := x
  have hm1 : (n, e) ∈ s1.entries c := hsub.mem _ _ hx
  exact lookup_none_not_mem (hall n (List.mem_map.mpr ⟨(n, e), hm1, rfl⟩)) e hx

theorem scan_empty {rank : Fd → Nat} {rm : Fd → Bytes → M Unit} {c : Fd} {sf m : Nat} {s s' : RFS} {t : Hist}
    {r : Except Err Unit} (he : s.entries c = []) (h : Run (RemoveAll.scan rm c (sf + 1) (m + 1)) s t r s') :
    r = .ok () ∧ s'.entries c = [] ∧ Evo rank (rank c + 1) s s' ∧ ownRemovals t = [] := by
  rw [scan_succ] at h
  obtain ⟨t1, t2, x, sm, rfl, h1, h2⟩ := Run.mbind_inv' h
  obtain ⟨s1, hR1, rfl, rfl, hR2⟩ := Run.mcall_inv h1
  have ha : s1.answer (.dirOpen c) = .unit := rfl
  rw [ha] at h2 ⊢
  simp only [] at h2
  obtain ⟨t3, t4, x3, sn, rfl, h3, h4⟩ := Run.mbind_inv' h2
  have hstrm : sm.streams c = [] := by
    rw [hR2.streams, streams_dirOpen, empty_stable hR1.toSub he]
    rfl
  obtain ⟨rfl, _, hE2, hown2⟩ := nextEntry_nil (rank := rank) hstrm h3
  simp only [] at h4
  obtain ⟨rfl, rfl, hR⟩ := Run.ret_inv h4
  have hE : Evo rank (rank c + 1) s s' :=
    hR1.evo.trans ((Same.dirOpen c s1).evo.trans (hR2.evo.trans (hE2.trans hR.evo)))
  refine ⟨rfl, empty_stable hE.toSub he, hE, ?_⟩
  rw [ownRemovals_append, ownRemovals_append, hown2]
  rfl

theorem scan_run (rank : Fd → Nat) (c : Fd) (fuel sf m : Nat)
    (IH : ∀ (s s' : RFS) (n : Bytes) (t : Hist) (r : Except Err Unit), WF s rank → ProperName n →
      Run (RemoveAll.removeAll fuel c n) s t r s' →
      r = .ok () ∧ s'.child c n = none ∧ Evo rank (rank c) s s' ∧ Own (fun x => Below s c x.1) t)
    (s s' : RFS) (t : Hist) (r : Except Err Unit) (hw : WF s rank) (hsf : (s.entries c).length + 2 ≤ sf + 1)
    (h : Run (RemoveAll.scan (RemoveAll.removeAll fuel) c (sf + 1) (m + 2)) s t r s') :
    r = .ok () ∧ s'.entries c = [] ∧ Evo rank (rank c + 1) s s' ∧ Own (fun x => Below s c x.1) t := by
  rw [scan_succ] at h
  obtain ⟨t1, t2, x, sm, rfl, h1, h2⟩ := Run.mbind_inv' h
  obtain ⟨s1, hR1, rfl, rfl, hR2⟩ := Run.mcall_inv h1
  have ha : s1.answer (.dirOpen c) = .unit := rfl
  rw [ha] at h2 ⊢
  simp only [] at h2
  obtain ⟨t3, t4, x3, sn, rfl, h3, h4⟩ := Run.mbind_inv' h2
  have hEm : Evo rank (rank c + 1) s sm := hR1.evo.trans ((Same.dirOpen c s1).evo.trans hR2.evo)
  have hown1 : ownRemovals [(Call.dirOpen c, Resp.unit)] = [] := rfl
  have hw1 : WF s1 rank := hw.of_sub hR1.toSub
  cases hent : s1.entries c with
  | nil =>
    have hstrm : sm.streams c = [] := by
      rw [hR2.streams, streams_dirOpen, hent]
      rfl
    obtain ⟨rfl, _, hE2, hown2⟩ := nextEntry_nil (rank := rank) hstrm h3
    simp only [] at h4
    obtain ⟨rfl, rfl, hR⟩ := Run.ret_inv h4
    have hE : Evo rank (rank c + 1) s1 s' := (Same.dirOpen c s1).evo.trans (hR2.evo.trans (hE2.trans hR.evo))
    exact ⟨rfl, empty_stable hE.toSub hent, hR1.evo.trans hE,
      (Own.nil hown1).append ((Own.nil hown2).append (Own.empty _))⟩
  | cons x0 l =>
    obtain ⟨n0, e0⟩ := x0
    have hstrm : sm.streams c = n0 :: l.map (·.1) := by
      rw [hR2.streams, streams_dirOpen, hent]
      rfl
    have hpn : ∀ n ∈ n0 :: l.map (·.1), ProperName n := by
      intro n hn
      have : n ∈ (s1.entries c).map (·.1) := by rw [hent]; exact hn
      obtain ⟨⟨n', e'⟩, hm, rfl⟩ := List.mem_map.mp this
      exact hw1.names c n' e' hm
    have hp0 := hpn n0 List.mem_cons_self
    obtain ⟨rfl, hstrn, hE2, hown2⟩ := nextEntry_cons (rank := rank) hstrm hp0.2.2.1 hp0.2.2.2 h3
    simp only [] at h4
    obtain ⟨t5, t6, x5, s5, rfl, h5, h6⟩ := Run.mbind_inv' h4
    have hEn : Evo rank (rank c + 1) s sn := hEm.trans hE2
    have hwn : WF sn rank := hw.of_sub hEn.toSub
    have hlen : (l.map (·.1)).length + 2 ≤ sf + 1 := by
      have h1 := (hR1.sub c).length_le
      rw [hent, List.length_cons] at h1
      rw [List.length_map]
      omega
    obtain ⟨rfl, habs, hE3, hown3⟩ := children_run rank c fuel sf IH (l.map (·.1)) n0 (sf + 1) sn s5 t5 x5 hwn hpn hstrn
      hlen h5
    simp only [] at h6
    have h1n : Sub s1 sn := ((Same.dirOpen c s1).evo (rank := rank)).toSub.trans ((hR2.evo.trans hE2).toSub (rank := rank) (k := rank c + 1))
    have he5 : s5.entries c = [] := by
      apply entries_nil_of_absent (h1n.trans hE3.toSub)
      intro n hn
      rw [hent] at hn
      exact habs n hn
    obtain ⟨rfl, he', hE4, hown4⟩ := scan_empty (rank := rank) he5 h6
    exact ⟨rfl, he', hEn.trans (hE3.trans hE4), (Own.nil hown1).append ((Own.nil hown2).append
      ((hown3.mono (fun x hx => Below.mono hEn.toSub.mem hx)).append (Own.nil hown4)))⟩

/-! ## `removeAll` -/

theorem main (rank : Fd → Nat) : ∀ (fuel : Nat) (s s' : RFS) (dir : Fd) (name : Bytes) (t : Hist) (r : Except Err Unit),
    WF s rank → 0 ≤ dir → ProperName name → rank dir + 3 ≤ fuel → Run (RemoveAll.removeAll fuel dir name) s t r s' →
    r = .ok () ∧ s'.child dir name = none ∧ Evo rank (rank dir) s s' ∧
      Own (fun x => x = (dir, name) ∨ ∃ c, s.child dir name = some c ∧ Below s c x.1) t := by
  intro fuel
  induction fuel with
  | zero => intro s s' dir name t r _ _ _ h; omega
  | succ fuel ih =>
    intro s s' dir name t r hw hdir hname hfuel h
    rw [removeAll_succ hname] at h
    obtain ⟨t1, t2, x, sm, rfl, h1, h2⟩ := Run.mbind_inv' h
    obtain ⟨hR1, hown1, hcase⟩ := removed_run hw hdir h1
    have hown1' : Own (fun x => x = (dir, name) ∨ ∃ c, s.child dir name = some c ∧ Below s c x.1) t1 :=
      hown1.mono (fun x hx => .inl hx)
    rcases hcase with ⟨rfl, habs⟩ | ⟨rfl, c, hc, hdc, hne⟩
    · simp only [↓reduceIte] at h2
      obtain ⟨rfl, rfl, hR⟩ := Run.ret_inv h2
      exact ⟨rfl, absent_stable hR.toSub habs, (hR1.trans hR).evo, hown1'.append (Own.empty _)⟩
    · simp only [Bool.false_eq_true, ↓reduceIte] at h2
      obtain ⟨t3, t4, x3, sn, rfl, h3, h4⟩ := Run.mbind_inv' h2
      obtain ⟨hown3, s1, hR2, hR3, hcase3⟩ := openSubdir_run hdir h3
      have h01 : Removes s s1 := hR1.trans hR2
      have h0n : Removes s sn := h01.trans hR3
      rcases hcase3 with ⟨hch, rfl⟩ | ⟨c', hch, hdc', rfl⟩ | ⟨c', hch, hdc'⟩
      · simp only [] at h4
        obtain ⟨rfl, rfl, hR⟩ := Run.ret_inv h4
        exact ⟨rfl, absent_stable (hR3.trans hR).toSub hch, (h0n.trans hR).evo,
          hown1'.append ((Own.nil hown3).append (Own.empty _))⟩
      · have hcc : c' = c := by
          have := child_back hw h01.toSub hch
          rw [hc] at this
          exact (Option.some.inj this).symm
        subst hcc
        simp only [] at h4
        rw [emptyDir_def] at h4
        have hm := child_mem hc
        have hrank := hw.rank_lt _ _ _ hm
        have hc0 : 0 ≤ c' := hw.nonneg _ _ _ hm
        have hwn : WF sn rank := hw.of_sub h0n.toSub
        obtain ⟨f', rfl⟩ : ∃ f', fuel = f' + 2 := ⟨fuel - 2, by omega⟩
        have IH : ∀ (s s' : RFS) (n : Bytes) (t : Hist) (r : Except Err Unit), WF s rank → ProperName n →
            Run (RemoveAll.removeAll (f' + 2) c' n) s t r s' →
            r = .ok () ∧ s'.child c' n = none ∧ Evo rank (rank c') s s' ∧ Own (fun x => Below s c' x.1) t := by
          intro u u' n tt rr hwu hpn hrun
          obtain ⟨hr, habs, hE, hown⟩ := ih u u' c' n tt rr hwu hc0 hpn (by omega) hrun
          refine ⟨hr, habs, hE, hown.mono ?_⟩
          intro x hx
          rcases hx with rfl | ⟨e, he, hb⟩
          · exact .self
          · exact (Below.step .self (child_mem he)).trans hb
        obtain ⟨t5, t6, x5, s5, rfl, h5, h6⟩ := Run.mbind_inv' h4
        obtain ⟨t7, t8, x7, s7, rfl, h7, h8⟩ := Run.onErr_ok h5
        have hwid := hwn.width c'
        obtain ⟨rfl, he7, hE7, hown7⟩ := scan_run rank c' (f' + 2) (f' + 1) f' IH sn s7 t7 x7 hwn (by omega) h7
        obtain ⟨rfl, rfl, hR8⟩ := h8 () rfl
        simp only [] at h6
        obtain ⟨t9, t10, x9, s9, rfl, h9, h10⟩ := Run.mbind_inv' h6
        obtain ⟨y, hy, hyc⟩ := Run.try_inv h9
        have hE5 : Evo rank (rank dir) s s5 := h0n.evo.trans ((hE7.mono (by omega)).trans hR8.evo)
        have hw5 : WF s5 rank := hw.of_sub hE5.toSub
        have he5 : s5.entries c' = [] := empty_stable hR8.toSub he7
        obtain ⟨hR9, hown9, rfl, habs9⟩ := removeFinal_run hw5 hdir (by
          intro c2 hc2
          have := child_back hw hE5.toSub hc2
          rw [hc] at this
          cases this
          exact he5) hy
        have hx9 : x9 = .ok (.ok ()) := by
          rcases hyc with ⟨a, _, hx⟩ | ⟨e, he, _⟩
          · exact hx
          · cases he
        subst hx9
        simp only [] at h10
        obtain ⟨t11, t12, x11, s11, rfl, h11, h12⟩ := Run.mbind_inv' h10
        have hq : Quiet t11 ∧ x11 = .ok () := by
          obtain ⟨a, ha, hx⟩ := RunsT.lift_inv h11.1
          unfold Sys.close at ha
          obtain ⟨rr, tt, rfl, hk⟩ := RunsT.call_inv ha
          obtain ⟨rfl, rfl⟩ := RunsT.ret_inv hk
          refine ⟨?_, hx⟩
          intro z hz
          rcases List.mem_cons.mp hz with rfl | hz
          · rfl
          · cases hz
        obtain ⟨hq11, rfl⟩ := hq
        have hR11 : Removes s9 s11 := hq11.valid h11.2
        simp only [] at h12
        obtain ⟨rfl, rfl, hR12⟩ := Run.ofExcept_inv h12
        have hown : Own (fun x => x = (dir, name) ∨ ∃ c, s.child dir name = some c ∧ Below s c x.1) (t7 ++ []) :=
          (hown7.mono (fun x hx => .inr ⟨c', hc, Below.mono h0n.toSub.mem hx⟩)).append (Own.empty _)
        exact ⟨rfl, absent_stable (hR11.trans hR12).toSub habs9,
          hE5.trans (hR9.trans (hR11.trans hR12)).evo,
          hown1'.append ((Own.nil hown3).append (hown.append
            ((hown9.mono (fun x hx => .inl hx)).append ((Own.nil hq11.own).append (Own.empty _)))))⟩
      · have hcc : c' = c := by
          have := child_back hw h01.toSub hch
          rw [hc] at this
          exact (Option.some.inj this).symm
        subst hcc
        rw [h01.kinds, hdc] at hdc'
        cases hdc'

/-- **Convergence under concurrent removal**: whatever the others remove meanwhile, `remove_all` succeeds, the
named entry is absent afterwards, the whole history only removed entries (so any number of callers compose), and
everything the call itself removed is the named entry or lies below it (in the initial tree). -/
theorem removeAll_converges (s s' : RFS) (rank : Fd → Nat) (hw : WF s rank) (dir : Fd) (hdir : 0 ≤ dir) (name : Bytes)
    (hname : ProperName name) (fuel : Nat) (hfuel : rank dir + 3 ≤ fuel) (t : Hist) (r : Except Err Unit)
    (hr : RunsT (RemoveAll.removeAll fuel dir name) t r) (hv : ValidR s t s') :
    r = .ok () ∧ s'.child dir name = none ∧ OnlyRemoved s s' ∧
      ∀ d n, (d, n) ∈ ownRemovals t →
        (d = dir ∧ n = name) ∨ (∃ c, s.child dir name = some c ∧ Below s c d) := by
  obtain ⟨h1, h2, h3, h4⟩ := main rank fuel s s' dir name t r hw hdir hname hfuel ⟨hr, hv⟩
  refine ⟨h1, h2, h3.only, ?_⟩
  intro d n hm
  rcases h4 (d, n) hm with heq | hb
  · exact .inl ⟨congrArg Prod.fst heq, congrArg Prod.snd heq⟩
  · exact .inr hb

/-! ## the hypotheses are not vacuous -/

/-- the solitary run on the example tree of `RmAll.lean`: `remove_all` of the file `b` in the root `10` while the
environment does nothing is a `RunsT`/`ValidR` history, and the theorem applies to it -/
example : ∃ t r s', RunsT (RemoveAll.removeAll 7 10 b!"b") t r ∧ ValidR Example.s0 t s' ∧
    t = [(Call.unlinkat 10 b!"b" 0, Resp.unit)] ∧ r = .ok () ∧ s'.child 10 b!"b" = none := by
  let o : Oracle := fun _ _ => .unit
  obtain ⟨t, ht, hr⟩ := RunsT.of_trace (RemoveAll.removeAll 7 10 b!"b") o []
  have hte : t = [(Call.unlinkat 10 b!"b" 0, Resp.unit)] := by
    have : (Prog.trace o (RemoveAll.removeAll 7 10 b!"b") []).1 = _ := ht
    simp only [List.nil_append] at this
    rw [← this]
    rfl
  have hv : ValidR Example.s0 [(Call.unlinkat 10 b!"b" 0, Resp.unit)]
      (Example.s0.effect (Call.unlinkat 10 b!"b" 0)) :=
    .cons (Removes.refl _) (by decide) (.nil (Removes.refl _))
  subst hte
  have hconv := removeAll_converges _ _ Example.rank0 Example.wf0 10 (by decide) b!"b" (by decide) 7 (by decide) _ _ hr hv
  exact ⟨_, _, _, hr, hv, rfl, hconv.1, hconv.2.1⟩

/-- running alone from `s` is one of the histories: the environment's steps may all be trivial -/
theorem exists_idle {α : Type} (p : Prog α) : ∀ s : RFS, ∃ t, RunsT p t (exec s p).2 ∧ ValidR s t (exec s p).1 := by
  induction p with
  | ret a => intro s; exact ⟨[], .ret a, .nil (Removes.refl s)⟩
  | call c k ih =>
    intro s
    obtain ⟨t, h1, h2⟩ := ih (s.answer c) (s.effect c)
    exact ⟨(c, s.answer c) :: t, .call c k _ t _ h1, .cons (Removes.refl s) rfl h2⟩

theorem ValidR.prepend {s0 s s' : RFS} {t : Hist} (hR : Removes s0 s) (h : ValidR s t s') : ValidR s0 t s' := by
  cases h with
  | nil h0 => exact .nil (hR.trans h0)
  | cons h0 hr hv => exact .cons (hR.trans h0) hr hv

/-- a racing history on the same tree: somebody else removes the file `x` inside the directory `a` first, then
`remove_all` of `a` (which still holds a sub-directory with a file, and another file) runs; the theorem applies -/
example : ∃ t r s', RunsT (RemoveAll.removeAll 7 10 b!"a") t r ∧ ValidR Example.s0 t s' ∧
    r = .ok () ∧ s'.child 10 b!"a" = none ∧ OnlyRemoved Example.s0 s' := by
  have henv : Removes Example.s0 (Example.s0.removeEntry 12 b!"x") :=
    ⟨(Sub.removeEntry Example.s0 12 b!"x").sub, rfl, rfl⟩
  obtain ⟨t, hr, hv⟩ := exists_idle (RemoveAll.removeAll 7 10 b!"a") (Example.s0.removeEntry 12 b!"x")
  have hv0 := hv.prepend henv
  have hconv := removeAll_converges _ _ Example.rank0 Example.wf0 10 (by decide) b!"a" (by decide) 7 (by decide) _ _ hr hv0
  exact ⟨t, _, _, hr, hv0, hconv.1, hconv.2.1, hconv.2.2.1⟩

end RmAllRace
