import Pathrs.Root

/-!
# Runs: the relational semantics of interaction trees

`Runs p h h' a`: there is a sequence of answers along which `p`, started with
history `h`, ends with history `h'` and result `a`.  A statement
`∀ h' a, Runs p h h' a → …` therefore quantifies over every environment.
-/

inductive Runs : Prog α → Hist → Hist → α → Prop where
  | ret (a : α) (h : Hist) : Runs (.ret a) h h a
  | call (c : Call) (k : Resp → Prog α) (r : Resp) (h h' : Hist) (a : α) :
      Runs (k r) (h ++ [(c, r)]) h' a → Runs (.call c k) h h' a

namespace Runs

theorem ret_inv {a b : α} {h h' : Hist} (hr : Runs (.ret a) h h' b) : h' = h ∧ b = a := by
  cases hr; exact ⟨rfl, rfl⟩

theorem call_inv {c : Call} {k : Resp → Prog α} {h h' : Hist} {a : α} (hr : Runs (.call c k) h h' a) :
    ∃ r, Runs (k r) (h ++ [(c, r)]) h' a := by
  cases hr with
  | call _ _ r _ _ _ hk => exact ⟨r, hk⟩

/-- a run only ever extends the history -/
theorem isPrefix {p : Prog α} {h h' : Hist} {a : α} (hr : Runs p h h' a) : h <+: h' := by
  induction hr with
  | ret a h => exact List.prefix_refl _
  | call c k r h h' a _ ih => exact List.IsPrefix.trans (List.prefix_append _ _) ih

theorem bind_inv {p : Prog α} {f : α → Prog β} {h h' : Hist} {b : β}
    (hr : Runs (Prog.bind p f) h h' b) : ∃ hm a, Runs p h hm a ∧ Runs (f a) hm h' b := by
  induction p generalizing h with
  | ret a => exact ⟨h, a, .ret a h, hr⟩
  | call c k ih =>
    obtain ⟨r, hk⟩ := call_inv hr
    obtain ⟨hm, a, h1, h2⟩ := ih r hk
    exact ⟨hm, a, .call c k r h hm a h1, h2⟩

theorem bind_intro {p : Prog α} {f : α → Prog β} {h hm h' : Hist} {a : α} {b : β}
    (h1 : Runs p h hm a) (h2 : Runs (f a) hm h' b) : Runs (Prog.bind p f) h h' b := by
  induction h1 with
  | ret a h => exact h2
  | call c k r h hm a _ ih => exact .call c _ r h h' b (ih h2)

/-- connection with oracles: a trace is a run -/
theorem of_trace (p : Prog α) (o : Oracle) (h : Hist) :
    Runs p h (p.trace o h).1 (p.trace o h).2 := by
  induction p generalizing h with
  | ret a => exact .ret a h
  | call c k ih => exact .call c k (o h c) h _ _ (ih _ _)

/-! ## The monad `M` -/

theorem mbind_inv {p : M α} {f : α → M β} {h h' : Hist} {r : Except Err β}
    (hr : Runs (M.bind' p f) h h' r) :
    (∃ hm a, Runs p h hm (.ok a) ∧ Runs (f a) hm h' r) ∨ (∃ e, Runs p h h' (.error e) ∧ r = .error e) := by
  unfold M.bind' at hr
  obtain ⟨hm, x, h1, h2⟩ := bind_inv hr
  cases x with
  | ok a => exact Or.inl ⟨hm, a, h1, h2⟩
  | error e =>
    obtain ⟨rfl, rfl⟩ := ret_inv h2
    exact Or.inr ⟨e, h1, rfl⟩

/-- a successful bind: both parts succeeded -/
theorem mbind_ok {p : M α} {f : α → M β} {h h' : Hist} {b : β}
    (hr : Runs (M.bind' p f) h h' (.ok b)) :
    ∃ hm a, Runs p h hm (.ok a) ∧ Runs (f a) hm h' (.ok b) := by
  rcases mbind_inv hr with ⟨hm, a, h1, h2⟩ | ⟨e, _, he⟩
  · exact ⟨hm, a, h1, h2⟩
  · cases he

theorem lift_inv {p : Prog α} {h h' : Hist} {r : Except Err α} (hr : Runs (M.lift p) h h' r) :
    ∃ a, Runs p h h' a ∧ r = .ok a := by
  unfold M.lift at hr
  obtain ⟨hm, a, h1, h2⟩ := bind_inv hr
  obtain ⟨rfl, rfl⟩ := ret_inv h2
  exact ⟨a, h1, rfl⟩

theorem call_ok_inv {c : Call} {h h' : Hist} {r : Except Err Resp} (hr : Runs (M.call c) h h' r) :
    ∃ x, h' = h ++ [(c, x)] ∧ r = .ok x := by
  unfold M.call Prog.perform at hr
  obtain ⟨a, h1, rfl⟩ := lift_inv hr
  obtain ⟨x, hx⟩ := call_inv h1
  obtain ⟨hh, ha⟩ := ret_inv hx
  exact ⟨x, hh, by rw [ha]⟩

theorem ofExcept_inv {x : Except Err α} {h h' : Hist} {r : Except Err α}
    (hr : Runs (M.ofExcept x) h h' r) : h' = h ∧ r = x := by
  cases x with
  | ok a => exact ret_inv hr
  | error e => exact ret_inv hr

theorem onErr_ok {p : M α} {c : Prog Unit} {h h' : Hist} {a : α}
    (hr : Runs (M.onErr p c) h h' (.ok a)) : Runs p h h' (.ok a) := by
  unfold M.onErr at hr
  obtain ⟨hm, x, h1, h2⟩ := bind_inv hr
  cases x with
  | ok a' =>
    obtain ⟨rfl, he⟩ := ret_inv h2
    cases he
    exact h1
  | error e =>
    obtain ⟨_, _, _, h3⟩ := bind_inv h2
    obtain ⟨_, he⟩ := ret_inv h3
    cases he

theorem try_inv {p : M α} {h h' : Hist} {r : Except Err (Except Err α)}
    (hr : Runs (M.try' p) h h' r) :
    ∃ x, Runs p h h' x ∧
      ((∃ a, x = .ok a ∧ r = .ok (.ok a)) ∨
       (∃ e, x = .error e ∧ ((e.isFatal = true ∧ r = .error e) ∨ (e.isFatal = false ∧ r = .ok (.error e))))) := by
  unfold M.try' at hr
  obtain ⟨hm, x, h1, h2⟩ := bind_inv hr
  cases x with
  | ok a =>
    obtain ⟨rfl, rfl⟩ := ret_inv h2
    exact ⟨_, h1, Or.inl ⟨a, rfl, rfl⟩⟩
  | error e =>
    by_cases hf : e.isFatal = true
    · simp only [hf, ↓reduceIte] at h2
      obtain ⟨rfl, rfl⟩ := ret_inv h2
      exact ⟨_, h1, Or.inr ⟨e, rfl, Or.inl ⟨hf, rfl⟩⟩⟩
    · simp only [hf] at h2
      obtain ⟨rfl, rfl⟩ := ret_inv h2
      exact ⟨_, h1, Or.inr ⟨e, rfl, Or.inr ⟨by simpa using hf, rfl⟩⟩⟩

end Runs
