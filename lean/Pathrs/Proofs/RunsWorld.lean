import Pathrs.Proofs.Runs
import Pathrs.Kernel.World

/-!
# Runs whose answers come from a world

`Runs` quantifies over every environment; `Prog.run w` is the one environment `World.answer w`.
A run all of whose new answers are the world's is that evaluation.
-/

open K

/-- every answer of this stretch of history is the world's -/
def AnswersFrom (w : World) (l : Hist) : Prop := ∀ x ∈ l, x.2 = w.answer x.1

namespace Runs

theorem world_det {α : Type} {w : World} {p : Prog α} {h h' : Hist} {a : α} (hr : Runs p h h' a) :
    ∀ l, h' = h ++ l → AnswersFrom w l → a = p.run w := by
  induction hr with
  | ret a h => intro _ _ _; rfl
  | call c k r h h' a hk ih =>
    intro l hl ha
    obtain ⟨t, ht⟩ := Runs.isPrefix hk
    have hl' : l = (c, r) :: t := by
      rw [← ht, List.append_assoc] at hl
      exact (List.append_cancel_left hl).symm
    have hr : r = w.answer c := ha (c, r) (by rw [hl']; exact List.mem_cons_self)
    have := ih t (by rw [← ht]) (fun x hx => ha x (by rw [hl']; exact List.mem_cons_of_mem _ hx))
    rw [this, hr]
    rfl

end Runs
