import Pathrs.Root

/-!
# A safety logic for interaction trees

`Safe D p Q`: under every environment whose answers are *sane* (a returned
descriptor is never negative — the one kernel fact this logic assumes), every
call `p` makes satisfies `D` and every result satisfies `Q`.
-/

/-- the kernel never returns a negative descriptor -/
def Resp.sane : Resp → Prop
  | .fd n => 0 ≤ n
  | _ => True

def Safe (D : Call → Prop) : Prog α → (α → Prop) → Prop
  | .ret a, Q => Q a
  | .call c k, Q => D c ∧ ∀ r, r.sane → Safe D (k r) Q

namespace Safe

variable {D : Call → Prop}

theorem ret {a : α} {Q : α → Prop} (h : Q a) : Safe D (.ret a) Q := h

theorem mono {p : Prog α} {Q Q' : α → Prop} (h : Safe D p Q) (hq : ∀ a, Q a → Q' a) :
    Safe D p Q' := by
  induction p with
  | ret a => exact hq a h
  | call c k ih => exact ⟨h.1, fun r hr => ih r (h.2 r hr)⟩

theorem bind {p : Prog α} {f : α → Prog β} {Q' : α → Prop} {Q : β → Prop}
    (hp : Safe D p Q') (hf : ∀ a, Q' a → Safe D (f a) Q) : Safe D (Prog.bind p f) Q := by
  induction p with
  | ret a => exact hf a hp
  | call c k ih => exact ⟨hp.1, fun r hr => ih r (hp.2 r hr)⟩

/-- a program that satisfies `Safe` with any postcondition also satisfies it with `True` -/
theorem weaken {p : Prog α} {Q : α → Prop} (h : Safe D p Q) : Safe D p (fun _ => True) :=
  mono h (fun _ _ => trivial)

theorem call {c : Call} {k : Resp → Prog α} {Q : α → Prop} (hc : D c)
    (hk : ∀ r, r.sane → Safe D (k r) Q) : Safe D (.call c k) Q := ⟨hc, hk⟩

/-- connection to runs: every call of the trace under a sane oracle satisfies `D` -/
theorem trace_calls {p : Prog α} {Q : α → Prop} (hp : Safe D p Q) (o : Oracle)
    (hsane : ∀ h c, (o h c).sane) (h : Hist) (hh : ∀ cr ∈ h, D cr.1) :
    (∀ cr ∈ (p.trace o h).1, D cr.1) ∧ Q (p.trace o h).2 := by
  induction p generalizing h with
  | ret a => exact ⟨hh, hp⟩
  | call c k ih =>
    apply ih _ (hp.2 _ (hsane h c))
    intro cr hcr
    rcases List.mem_append.mp hcr with h1 | h1
    · exact hh cr h1
    · simp at h1; subst h1; exact hp.1

end Safe

/-! ## The monad `M` -/

namespace Safe

variable {D : Call → Prop}

theorem mbind {p : M α} {f : α → M β} {Q' : Except Err α → Prop} {Q : Except Err β → Prop}
    (hp : Safe D p Q') (hf : ∀ a, Q' (.ok a) → Safe D (f a) Q)
    (he : ∀ e, Q' (.error e) → Q (.error e)) : Safe D (M.bind' p f) Q := by
  unfold M.bind'
  apply bind hp
  intro r hr
  cases r with
  | ok a => exact hf a hr
  | error e => exact he e hr

theorem mlift {p : Prog α} {Q : Except Err α → Prop} (hp : Safe D p (fun a => Q (.ok a))) :
    Safe D (M.lift p) Q := by
  unfold M.lift
  exact bind hp (fun a ha => ha)

theorem mcall {c : Call} {Q : Except Err Resp → Prop} (hc : D c)
    (hq : ∀ r, r.sane → Q (.ok r)) : Safe D (M.call c) Q := by
  unfold M.call Prog.perform
  exact mlift ⟨hc, fun r hr => hq r hr⟩

theorem ofExcept {x : Except Err α} {Q : Except Err α → Prop} (h : Q x) :
    Safe D (M.ofExcept x) Q := by
  cases x <;> exact h

theorem onErr {p : M α} {c : Prog Unit} {Q : Except Err α → Prop}
    (hp : Safe D p Q) (hc : Safe D c (fun _ => True)) (he : ∀ e e', Q (.error e) → Q (.error e')) :
    Safe D (M.onErr p c) Q := by
  unfold M.onErr
  apply bind hp
  intro r hr
  cases r with
  | ok a => exact hr
  | error e => exact bind hc (fun _ _ => he e e hr)

theorem try' {p : M α} {Q : Except Err α → Prop} {Q' : Except Err (Except Err α) → Prop}
    (hp : Safe D p Q) (hok : ∀ a, Q (.ok a) → Q' (.ok (.ok a)))
    (herr : ∀ e, Q (.error e) → Q' (.ok (.error e)) ∧ Q' (.error e)) :
    Safe D (M.try' p) Q' := by
  unfold M.try'
  apply bind hp
  intro r hr
  cases r with
  | ok a => exact hok a hr
  | error e =>
    by_cases hf : e.isFatal
    · simp [hf]; exact (herr e hr).2
    · simp [hf]; exact (herr e hr).1

end Safe

/-- Postcondition "a returned descriptor is non-negative". -/
def FdOk : Except Err Fd → Prop := fun r => ∀ fd, r = .ok fd → 0 ≤ fd

/-- Postcondition for results that carry no descriptor. -/
def Any {α : Type} : α → Prop := fun _ => True
