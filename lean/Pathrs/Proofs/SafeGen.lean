import Pathrs.Proofs.SafeSys

/-!
# The syscall wrappers, for an arbitrary predicate on calls

The same lemmas as `SafeSys.lean`, but for any predicate `D` that accepts the
diagnostic calls made while error values are built (`DiagOk`).  The
call-specific obligation is a hypothesis of each lemma.
-/

open K

/-- `D` accepts everything the error-message machinery and descriptor bookkeeping do -/
structure DiagOk (D : Call → Prop) : Prop where
  gettid : D .gettid
  geteuid : D .geteuid
  probe : ∀ p, startsWith p b!"/proc/" → D (.fstatat AT_FDCWD p STAT_FLAGS)
  readlinkAbs : ∀ p, startsWith p b!"/proc/" → D (.readlinkAbs p)
  close : ∀ fd, D (.close fd)
  dup : ∀ fd, D (.dup fd 3)

theorem discDiagOk (b : Bool) : DiagOk (Disc b) where
  gettid := trivial
  geteuid := trivial
  probe := fun p hp => ⟨rfl, Or.inr ⟨rfl, hp⟩⟩
  readlinkAbs := fun p hp => hp
  close := fun _ => trivial
  dup := fun _ => rfl

namespace G

variable {D : Call → Prop}

theorem gettid_safe (hD : DiagOk D) : Safe D Sys.gettid (fun _ => True) := by
  unfold Sys.gettid
  refine ⟨hD.gettid, fun r _ => ?_⟩
  dsimp only
  split <;> exact trivial

theorem geteuid_safe (hD : DiagOk D) : Safe D Sys.geteuid (fun _ => True) := by
  unfold Sys.geteuid
  refine ⟨hD.geteuid, fun r _ => ?_⟩
  dsimp only
  split <;> exact trivial

theorem freeze_probe_safe (hD : DiagOk D) :
    ∀ cands, Safe D (Sys.freeze.probe cands) (fun _ => True) := by
  intro cands
  induction cands with
  | nil => rw [Sys.freeze.probe.eq_1]; exact trivial
  | cons cand rest ih =>
    rw [Sys.freeze.probe.eq_2]
    refine ⟨hD.probe _ (startsWith_proc cand), fun r _ => ?_⟩
    dsimp only
    split
    · exact ih
    · exact trivial

theorem freeze_safe (hD : DiagOk D) (fd : Fd) : Safe D (Sys.freeze fd) (fun _ => True) := by
  unfold Sys.freeze
  apply Safe.bind (gettid_safe hD)
  intro tid _
  apply Safe.bind (freeze_probe_safe hD _)
  intro x _
  split
  · exact trivial
  · exact ⟨hD.readlinkAbs _ (startsWith_proc4 _ _ _), fun _ _ => trivial⟩

theorem failWith_go_safe (hD : DiagOk D) {α : Type} (e : Nat) (Q : Except Err α → Prop)
    (hq : ∀ e', Q (.error e')) : ∀ fds, Safe D (Sys.failWith.go (α := α) e fds) Q := by
  intro fds
  induction fds with
  | nil => unfold Sys.failWith.go; exact hq _
  | cons fd rest ih =>
    unfold Sys.failWith.go
    apply Safe.bind (freeze_safe hD fd)
    intro _ _
    exact ih

theorem failWith_safe (hD : DiagOk D) {α : Type} (fds : List Fd) (e : Nat) (Q : Except Err α → Prop)
    (hq : ∀ e', Q (.error e')) : Safe D (Sys.failWith (α := α) fds e) Q := by
  unfold Sys.failWith
  exact failWith_go_safe hD e Q hq fds

/-- generic shape of a wrapper: `hotfix`, one call, result dispatch -/
theorem wrapper_safe {α : Type} (dir : Fd) (c : Call) (k : Resp → M α) (Q : Except Err α → Prop)
    (hq : ErrOk Q) (hc : (dir = AT_FDCWD ∨ 0 ≤ dir) → D c)
    (hk : ∀ r, r.sane → Safe D (k r) Q) :
    Safe D (M.bind' (M.ofExcept (Sys.hotfix dir)) fun _ => M.bind' (M.call c) k) Q := by
  rcases hotfix_cases dir with ⟨h, hd⟩ | ⟨e, h⟩
  · rw [h]
    apply Safe.mbind (Q' := fun _ => True) (Safe.ofExcept trivial)
    · intro _ _
      apply Safe.mbind (Q' := fun r => ∀ x, r = .ok x → x.sane) (Safe.mcall (hc hd) ?_)
      · intro r hr; exact hk r (hr r rfl)
      · intro e _; exact hq e
      · intro r hr x hx; cases hx; exact hr
    · intro e _; exact hq e
  · rw [h]
    apply Safe.mbind (Q' := fun r => r = .error e) (Safe.ofExcept rfl)
    · intro a ha; cases ha
    · intro e' _; exact hq e'

theorem openatFollow_safe (hD : DiagOk D) (dir : Fd) (name : Bytes) (flags mode : Nat)
    (hc : (dir = AT_FDCWD ∨ 0 ≤ dir) → D (.openat dir name (flags ||| O_CLOEXEC ||| O_NOCTTY) mode)) :
    Safe D (Sys.openatFollow dir name flags mode) FdOk := by
  unfold Sys.openatFollow
  apply wrapper_safe dir _ _ FdOk FdOk_err hc
  intro r hr
  split
  · rename_i n; intro fd h; cases h; exact hr
  · exact failWith_safe hD _ _ _ FdOk_err
  · exact FdOk_err _

/-- `openat`: the call made carries `flags ||| O_NOFOLLOW ||| O_CLOEXEC ||| O_NOCTTY` -/
theorem openat_safe (hD : DiagOk D) (dir : Fd) (name : Bytes) (flags mode : Nat)
    (hc : (dir = AT_FDCWD ∨ 0 ≤ dir) →
      D (.openat dir name (flags ||| O_NOFOLLOW ||| O_CLOEXEC ||| O_NOCTTY) mode)) :
    Safe D (Sys.openat dir name flags mode) FdOk := by
  unfold Sys.openat
  exact openatFollow_safe hD dir name _ mode hc

theorem openat2_safe (hD : DiagOk D) (dir : Fd) (path : Bytes) (flags resolve : Nat)
    (hc : (dir = AT_FDCWD ∨ 0 ≤ dir) →
      D (.openat2 dir (Path.toCString path) (flags ||| O_CLOEXEC) 0 resolve OPEN_HOW_SIZE)) :
    Safe D (Sys.openat2 dir path flags resolve) FdOk := by
  unfold Sys.openat2
  split
  · apply Safe.mbind (Q' := fun _ => True) (Safe.ofExcept trivial)
    · intro _ _; exact failWith_safe hD _ _ _ FdOk_err
    · intro e _; exact FdOk_err e
  apply wrapper_safe dir _ _ FdOk FdOk_err hc
  intro r hr
  split
  · intro fd h; cases h; exact hr
  · exact failWith_safe hD _ _ _ FdOk_err
  · exact FdOk_err _

theorem readlinkat_safe (hD : DiagOk D) (dir : Fd) (name : Bytes)
    (hc : (dir = AT_FDCWD ∨ 0 ≤ dir) → D (.readlinkat dir name READLINK_BUF)) :
    Safe D (Sys.readlinkat dir name) (fun _ => True) := by
  unfold Sys.readlinkat
  apply wrapper_safe dir _ _ _ (fun _ => trivial) hc
  intro r _
  split
  · split
    · exact failWith_safe hD _ _ _ (fun _ => trivial)
    · exact trivial
  · exact failWith_safe hD _ _ _ (fun _ => trivial)
  · exact trivial

theorem fstatat_safe (hD : DiagOk D) (dir : Fd) (name : Bytes)
    (hc : (dir = AT_FDCWD ∨ 0 ≤ dir) → D (.fstatat dir name STAT_FLAGS)) :
    Safe D (Sys.fstatat dir name) (fun _ => True) := by
  unfold Sys.fstatat
  apply wrapper_safe dir _ _ _ (fun _ => trivial) hc
  intro r _
  split
  · exact trivial
  · exact failWith_safe hD _ _ _ (fun _ => trivial)
  · exact trivial

theorem statx_safe (hD : DiagOk D) (dir : Fd) (name : Bytes) (mask : Nat)
    (hc : (dir = AT_FDCWD ∨ 0 ≤ dir) → D (.statx dir name STAT_FLAGS mask)) :
    Safe D (Sys.statx dir name mask) (fun _ => True) := by
  unfold Sys.statx
  apply wrapper_safe dir _ _ _ (fun _ => trivial) hc
  intro r _
  split
  · exact trivial
  · exact failWith_safe hD _ _ _ (fun _ => trivial)
  · exact trivial

theorem fstatfs_safe (hD : DiagOk D) (fd : Fd) (hc : (fd = AT_FDCWD ∨ 0 ≤ fd) → D (.fstatfs fd)) :
    Safe D (Sys.fstatfs fd) (fun _ => True) := by
  unfold Sys.fstatfs
  apply wrapper_safe fd _ _ _ (fun _ => trivial) hc
  intro r _
  split
  · exact trivial
  · exact failWith_safe hD _ _ _ (fun _ => trivial)
  · exact trivial

theorem unitCall_safe (hD : DiagOk D) (c : Call) (fds : List Fd) (site : String) (hc : D c) :
    Safe D (Sys.unitCall c fds site) (fun _ => True) := by
  unfold Sys.unitCall
  apply Safe.mbind (Q' := fun _ => True) (Safe.mcall hc (fun _ _ => trivial))
  · intro r _
    split
    · exact trivial
    · exact failWith_safe hD _ _ _ (fun _ => trivial)
    · exact trivial
  · intro _ _; trivial

theorem unlinkat_safe (hD : DiagOk D) (dir : Fd) (name : Bytes) (flags : Nat)
    (hc : D (.unlinkat dir name flags)) : Safe D (Sys.unlinkat dir name flags) (fun _ => True) := by
  unfold Sys.unlinkat
  apply Safe.mbind (Q' := fun _ => True) (Safe.ofExcept trivial)
  · intro _ _; exact unitCall_safe hD _ _ _ hc
  · intro _ _; trivial

theorem mkdirat_safe (hD : DiagOk D) (dir : Fd) (name : Bytes) (mode : Nat)
    (hc : D (.mkdirat dir name mode)) : Safe D (Sys.mkdirat dir name mode) (fun _ => True) := by
  unfold Sys.mkdirat
  apply Safe.mbind (Q' := fun _ => True) (Safe.ofExcept trivial)
  · intro _ _; exact unitCall_safe hD _ _ _ hc
  · intro _ _; trivial

theorem close_safe (hD : DiagOk D) (fd : Fd) : Safe D (Sys.close fd) (fun _ => True) :=
  ⟨hD.close fd, fun _ _ => trivial⟩

theorem closeAll_safe (hD : DiagOk D) (fds : List Fd) : Safe D (Sys.closeAll fds) (fun _ => True) := by
  unfold Sys.closeAll
  generalize fds.eraseDups = l
  induction l with
  | nil => exact trivial
  | cons fd rest ih => exact Safe.bind (close_safe hD fd) (fun _ _ => ih)

theorem dup_safe (hD : DiagOk D) (fd : Fd) : Safe D (Sys.dup fd) FdOk := by
  unfold Sys.dup
  apply Safe.mbind (Q' := fun r => ∀ x, r = .ok x → x.sane) (Safe.mcall (hD.dup fd) ?_)
  · intro r hr
    split
    · intro fd h; cases h; exact hr _ rfl
    · exact FdOk_err _
    · exact FdOk_err _
  · intro e _; exact FdOk_err e
  · intro r hr x hx; cases hx; exact hr

theorem isOk_safe {α : Type} {p : M α} {Q : Except Err α → Prop} (hp : Safe D p Q) :
    Safe D (M.isOk p) (fun _ => True) := by
  unfold M.isOk
  apply Safe.mbind (Q' := fun _ => True)
  · exact Safe.try' hp (fun _ _ => trivial) (fun _ _ => ⟨trivial, trivial⟩)
  · intro r _; cases r <;> exact trivial
  · intro _ _; trivial

theorem try_any {α : Type} {p : M α} {Q : Except Err α → Prop} (hp : Safe D p Q) :
    Safe D (M.try' p) (fun _ => True) :=
  Safe.try' hp (fun _ _ => trivial) (fun _ _ => ⟨trivial, trivial⟩)

theorem try_fd {p : M Fd} (hp : Safe D p FdOk) :
    Safe D (M.try' p) (fun r => ∀ x, r = .ok x → FdOk x) := by
  apply Safe.try' hp
  · intro a ha x hx; cases hx; exact ha
  · intro e _
    exact ⟨fun x hx => by cases hx; exact FdOk_err e, fun x hx => by cases hx⟩

theorem onErr_fd {p : M Fd} {c : Prog Unit} (hp : Safe D p FdOk)
    (hc : Safe D c (fun _ => True)) : Safe D (M.onErr p c) FdOk :=
  Safe.onErr hp hc (fun _ e' _ => FdOk_err e')

theorem onErr_any {α : Type} {p : M α} {c : Prog Unit} (hp : Safe D p (fun _ => True))
    (hc : Safe D c (fun _ => True)) : Safe D (M.onErr p c) (fun _ => True) :=
  Safe.onErr hp hc (fun _ _ _ => trivial)

theorem lift_any {α : Type} {p : Prog α} (hp : Safe D p (fun _ => True)) :
    Safe D (M.lift p) (fun _ => True) :=
  Safe.mlift hp

theorem lift_then_throw {α : Type} {p : Prog Unit} {e : Err} {Q : Except Err α → Prop} (hq : ErrOk Q)
    (hp : Safe D p (fun _ => True)) :
    Safe D (M.bind' (M.lift p) fun _ => (throw e : M α)) Q := by
  apply Safe.mbind (Q' := fun _ => True) (lift_any hp)
  · intro _ _; exact hq _
  · intro e _; exact hq e

end G
