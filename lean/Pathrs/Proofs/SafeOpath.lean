import Pathrs.Proofs.SafeProcfs

/-!
# The emulated in-root resolver obeys the discipline (with no follow-open at all)
-/

open K

variable {b : Bool}

def Lookup.handle : Lookup Fd → Fd
  | .complete h => h
  | .part h _ _ => h

/-- every directory kept on the symlink stack is a real descriptor -/
def StackOk (s : SStack) : Prop := ∀ e ∈ s, 0 ≤ e.dir

/-- the handle of a lookup result (and every stack entry) is a real descriptor -/
def WalkOk : Except Err (Lookup Fd × SStack) → Prop :=
  fun r => ∀ l s, r = .ok (l, s) → 0 ≤ l.handle ∧ StackOk s

theorem mem_of_mem_dropLast' {α} (l : List α) (x : α) (h : x ∈ l.dropLast) : x ∈ l :=
  (List.dropLast_sublist l).subset h

theorem mem_of_mem_dropWhile' {α} (l : List α) (p : α → Bool) (x : α) (h : x ∈ l.dropWhile p) :
    x ∈ l :=
  (List.dropWhile_sublist (l := l) p).subset h

theorem StackOk_dropLast {s : SStack} (h : StackOk s) : StackOk s.dropLast :=
  fun e he => h e (mem_of_mem_dropLast' _ _ he)

theorem StackOk_doPop {s s' : SStack} {part : Bytes} (h : StackOk s) (hp : s.doPop part = .ok s') :
    StackOk s' := by
  unfold SStack.doPop at hp
  split at hp
  · cases hp; exact h
  · split at hp
    · cases hp
    · rename_i e he
      split at hp
      · cases hp
      · split at hp
        · cases hp
        · cases hp
          intro x hx
          rcases List.mem_append.mp hx with h1 | h1
          · exact StackOk_dropLast h x h1
          · simp at h1; subst h1
            exact h e (List.mem_of_getLast? he)

theorem StackOk_trim {s : SStack} (h : StackOk s) : StackOk s.trim := by
  unfold SStack.trim
  intro e he
  have : e ∈ s.reverse := mem_of_mem_dropWhile' _ _ _ (List.mem_reverse.mp he)
  exact h e (List.mem_reverse.mp this)

theorem StackOk_doPush {s : SStack} (h : StackOk s) (dir : Fd) (hd : 0 ≤ dir) (r t : Bytes) :
    StackOk (s.doPush dir r t) := by
  unfold SStack.doPush
  intro e he
  rcases List.mem_append.mp he with h1 | h1
  · exact h e h1
  · simp at h1; subst h1; exact hd

theorem StackOk_popPart {s s' : SStack} {part : Bytes} (h : StackOk s) (hp : s.popPart part = .ok s') :
    StackOk s' := by
  unfold SStack.popPart at hp
  split at hp
  · cases hp; exact h
  · cases hp
  · rename_i s1 h1; cases hp; exact StackOk_trim (StackOk_doPop h h1)

theorem StackOk_swapLink {s s' : SStack} {part : Bytes} {dir : Fd} {r t : Bytes} (h : StackOk s)
    (hd : 0 ≤ dir) (hp : s.swapLink part dir r t = .ok s') : StackOk s' := by
  unfold SStack.swapLink at hp
  split at hp
  · cases hp; exact StackOk_doPush h dir hd r t
  · rename_i s1 h1; cases hp; exact StackOk_doPush (StackOk_doPop h h1) dir hd r t
  · cases hp

theorem StackOk_stackOp {cfg : Opath.WalkCfg} {s s' : SStack} {f : SStack → Except SErr SStack}
    (h : StackOk s) (hf : ∀ s1, f s = .ok s1 → StackOk s1)
    (hp : Opath.stackOp cfg s f = .ok s') : StackOk s' := by
  unfold Opath.stackOp at hp
  split at hp
  · split at hp
    · rename_i s1 h1; cases hp; exact hf _ h1
    · cases hp
  · cases hp; exact h

theorem WalkOk_err : ErrOk WalkOk := fun e l s h => by cases h

theorem checkCurrent_safe (env : Env) (cur root : Fd) (expected : List Bytes) (hp : 0 ≤ env.proc.fd) :
    Safe (Disc b) (Opath.checkCurrent env cur root expected) (fun _ => True) := by
  unfold Opath.checkCurrent
  apply Safe.mbind (Q' := fun _ => True) (asUnsafePath_safe env root hp)
  · intro rootPath _
    apply Safe.mbind (Q' := fun _ => True) (asUnsafePath_safe env cur hp)
    · intro curPath _
      split
      · exact trivial
      · apply Safe.mbind (Q' := fun _ => True) (asUnsafePath_safe env root hp)
        · intro _ _; split <;> exact trivial
        · intro _ _; trivial
    · intro _ _; trivial
  · intro _ _; trivial

theorem mayFollowLink_safe (env : Env) (dir link : Fd) (hd : 0 ≤ dir) (hl : 0 ≤ link) :
    Safe (Disc b) (Opath.mayFollowLink env dir link) (fun _ => True) := by
  unfold Opath.mayFollowLink
  apply Safe.mbind (Q' := fun _ => True) (Safe.mlift geteuid_safe)
  · intro _ _
    apply Safe.mbind (Q' := fun _ => True) (fstatat_safe dir [] hd (Or.inl single_nil))
    · intro _ _
      apply Safe.mbind (Q' := fun _ => True) (fstatat_safe link [] hl (Or.inl single_nil))
      · intro _ _; split <;> exact trivial
      · intro _ _; trivial
    · intro _ _; trivial
  · intro _ _; trivial

theorem releaseMany_safe (cands held : List Fd) :
    Safe (Disc b) (Opath.releaseMany cands held) (fun _ => True) := by
  unfold Opath.releaseMany
  exact closeAll_safe _

theorem exitPartial_safe (cfg : Opath.WalkCfg) (st : Opath.WalkSt) (extra : List Fd) (rem : Bytes)
    (e : Err) (hc : 0 ≤ st.cur) (hs : StackOk st.stack) :
    Safe (Disc b) (Opath.exitPartial cfg st extra rem e) WalkOk := by
  unfold Opath.exitPartial
  apply Safe.mbind (Q' := fun _ => True) (lift_any (releaseMany_safe _ _))
  · intro _ _ l s h; cases h; exact ⟨hc, hs⟩
  · intro e _; exact WalkOk_err e

theorem lift_then_throw {α : Type} {p : Prog Unit} {e : Err} {Q : Except Err α → Prop} (hq : ErrOk Q)
    (hp : Safe (Disc b) p (fun _ => True)) :
    Safe (Disc b) (M.bind' (M.lift p) fun _ => (throw e : M α)) Q := by
  apply Safe.mbind (Q' := fun _ => True) (lift_any hp)
  · intro _ _; exact hq _
  · intro e _; exact hq e

theorem walk_safe (env : Env) (cfg : Opath.WalkCfg) (st : Opath.WalkSt)
    (hp : 0 ≤ env.proc.fd) (hroot : 0 ≤ cfg.root) (hcur : 0 ≤ st.cur) (hrem : ∀ c ∈ st.rem, single c)
    (hstk : StackOk st.stack) :
    Safe (Disc b) (Opath.walk env cfg st) WalkOk := by
  fun_induction Opath.walk env cfg st with
  | case1 st hrem' =>
    apply Safe.mbind (Q' := fun _ => True)
      (onErr_any (checkCurrent_safe env _ _ _ hp) (closeAll_safe _))
    · intro _ _
      apply Safe.mbind (Q' := FdOk)
      · split
        · exact onErr_fd (openat_safe cfg.root Path.dot _ 0 hroot single_dot) (closeAll_safe _)
        · intro fd h; cases h; exact hcur
      · intro res hres
        apply Safe.mbind (Q' := fun _ => True) (lift_any (releaseMany_safe _ _))
        · intro _ _ l s h; cases h; exact ⟨hres res rfl, hstk⟩
        · intro e _; exact WalkOk_err e
      · intro e _; exact WalkOk_err e
    · intro e _; exact WalkOk_err e
  | case2 =>
    exact lift_then_throw WalkOk_err (closeAll_safe _)
  | case3 st part0 rest hrem' remaining hdd stack' ih =>
    apply Safe.mbind (Q' := fun _ => True) (lift_any (releaseMany_safe _ _))
    · intro _ _
      apply ih hroot
      · rw [hrem'] at hrem
        exact fun c h => hrem c (List.mem_cons_of_mem _ h)
      · exact StackOk_stackOp hstk (fun s1 h1 => StackOk_popPart hstk h1) (by assumption)
    · intro e _; exact WalkOk_err e
  | case4 st part0 rest hrem' remaining hdd part expected' ih1 ih2 =>
    rw [hrem'] at hrem
    have hpart : single part := by
      simp only [part]
      split
      · exact single_dot
      · exact hrem part0 List.mem_cons_self
    have hrest : ∀ c ∈ rest, single c := fun c h => hrem c (List.mem_cons_of_mem _ h)
    apply Safe.mbind (Q' := fun r => ∀ x, r = .ok x → FdOk x)
      (try_fd (openat_safe st.cur part _ 0 hcur hpart))
    · intro r hr
      split
      · exact exitPartial_safe cfg st [] remaining _ hcur hstk
      · rename_i next
        have hn : 0 ≤ next := hr _ rfl next rfl
        dsimp only
        apply Safe.mbind (Q' := fun _ => True)
        · apply onErr_any _ (closeAll_safe _)
          split
          · exact checkCurrent_safe env _ _ _ hp
          · exact trivial
        · intro _ _
          apply Safe.mbind (Q' := fun _ => True)
            (onErr_any (fstatat_safe next [] hn (Or.inl single_nil)) (closeAll_safe _))
          · intro md _
            split
            · split
              · exact lift_then_throw WalkOk_err (closeAll_safe _)
              · rename_i stack' hst
                apply Safe.mbind (Q' := fun _ => True) (lift_any (releaseMany_safe _ _))
                · intro _ _; exact ih1 next stack' hn hrest (StackOk_stackOp hstk (fun s1 h1 => StackOk_popPart hstk h1) hst)
                · intro e _; exact WalkOk_err e
            · split
              · apply Safe.mbind (Q' := fun _ => True) (lift_any (releaseMany_safe _ _))
                · intro _ _
                  apply Safe.mbind (Q' := fun _ => True)
                    (onErr_any (checkCurrent_safe env _ _ _ hp) (closeAll_safe _))
                  · intro _ _
                    apply Safe.mbind (Q' := fun _ => True) (lift_any (releaseMany_safe _ _))
                    · intro _ _ l s h; cases h; exact ⟨hn, hstk⟩
                    · intro e _; exact WalkOk_err e
                  · intro e _; exact WalkOk_err e
                · intro e _; exact WalkOk_err e
              · split
                · exact exitPartial_safe cfg st [next] remaining _ hcur hstk
                · apply Safe.mbind (Q' := fun _ => True)
                    (onErr_any (mayFollowLink_safe env st.cur next hcur hn) (closeAll_safe _))
                  · intro _ _
                    split
                    · exact exitPartial_safe cfg st [next] remaining _ hcur hstk
                    · apply Safe.mbind (Q' := fun _ => True)
                        (onErr_any (readlinkat_safe next hn) (closeAll_safe _))
                      · intro target _
                        apply Safe.mbind (Q' := fun _ => True)
                        · apply onErr_any _ (closeAll_safe _)
                          split
                          · exact isMagiclinkFilesystem_safe next hn
                          · exact trivial
                        · intro magic _
                          split
                          · exact lift_then_throw WalkOk_err (closeAll_safe _)
                          · split
                            · exact lift_then_throw WalkOk_err (closeAll_safe _)
                            · rename_i stack' hst
                              apply Safe.mbind (Q' := fun _ => True) (lift_any (releaseMany_safe _ _))
                              · intro _ _
                                apply ih2 (by assumption) target stack'
                                · dsimp only; split
                                  · exact hroot
                                  · exact hcur
                                · intro c hcm
                                  rcases List.mem_append.mp hcm with h | h
                                  · exact rawComponents_single target c h
                                  · exact hrest c h
                                · exact StackOk_stackOp hstk
                                    (fun s1 h1 => StackOk_swapLink hstk hcur h1) hst
                              · intro e _; exact WalkOk_err e
                        · intro e _; exact WalkOk_err e
                      · intro e _; exact WalkOk_err e
                  · intro e _; exact WalkOk_err e
          · intro e _; exact WalkOk_err e
        · intro e _; exact WalkOk_err e
    · intro e _; exact WalkOk_err e

theorem doResolve_safe (env : Env) (root : Fd) (path : Bytes) (rflags : Nat) (nofollow useStack : Bool)
    (hp : 0 ≤ env.proc.fd) :
    Safe (Disc b) (Opath.doResolve env root path rflags nofollow useStack) WalkOk := by
  unfold Opath.doResolve
  apply Safe.mbind (Q' := FdOk) (dup_safe root)
  · intro rd hrd
    have h0 : 0 ≤ rd := hrd rd rfl
    split
    · intro l s h; cases h; exact ⟨h0, fun e he => by cases he⟩
    · exact walk_safe env _ _ hp h0 h0 (rawComponents_single path) (fun e he => by cases he)
  · intro e _; exact WalkOk_err e

theorem opath_resolve_safe (env : Env) (root : Fd) (path : Bytes) (rflags : Nat) (nofollow : Bool)
    (hp : 0 ≤ env.proc.fd) : Safe (Disc b) (Opath.resolve env root path rflags nofollow) FdOk := by
  unfold Opath.resolve
  apply Safe.mbind (Q' := WalkOk) (doResolve_safe env root path rflags nofollow false hp)
  · intro res hres
    obtain ⟨l, s⟩ := res
    dsimp only
    split
    · rename_i h; intro fd hfd; cases hfd; exact (hres _ _ rfl).1
    · apply Safe.mbind (Q' := fun _ => True) (lift_any (close_safe _))
      · intro _ _; exact FdOk_err _
      · intro e _; exact FdOk_err e
  · intro e _; exact FdOk_err e

/-- a lookup result whose handle is a real descriptor -/
def LookupOk : Except Err (Lookup Fd) → Prop := fun r => ∀ l, r = .ok l → 0 ≤ l.handle

theorem LookupOk_err : ErrOk LookupOk := fun e l h => by cases h


theorem opath_resolvePartial_safe (env : Env) (root : Fd) (path : Bytes) (rflags : Nat) (nofollow : Bool)
    (hp : 0 ≤ env.proc.fd) :
    Safe (Disc b) (Opath.resolvePartial env root path rflags nofollow) LookupOk := by
  unfold Opath.resolvePartial
  apply Safe.mbind (Q' := WalkOk) (doResolve_safe env root path rflags nofollow true hp)
  · intro res hres
    obtain ⟨l, s⟩ := res
    have hl := hres l s rfl
    dsimp only
    split
    · rename_i h
      apply Safe.mbind (Q' := fun _ => True) (lift_any (releaseMany_safe _ _))
      · intro _ _ l' hl'; cases hl'; exact hl.1
      · intro e _; exact LookupOk_err e
    · rename_i h rem e
      split
      · rename_i h2 rem2 rest hpop
        have h2ok : 0 ≤ h2 := by
          unfold SStack.popTopSymlink at hpop
          split at hpop
          · cases hpop
          · rename_i e0 rest0
            cases hpop
            exact hl.2 e0 List.mem_cons_self
        apply Safe.mbind (Q' := fun _ => True) (lift_any (releaseMany_safe _ _))
        · intro _ _ l' hl'; cases hl'; exact h2ok
        · intro e _; exact LookupOk_err e
      · intro l' hl'; cases hl'; exact hl.1
  · intro e _; exact LookupOk_err e
