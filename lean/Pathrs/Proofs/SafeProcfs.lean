import Pathrs.Proofs.SafeSys
import Pathrs.Proofs.PathLemmas

/-!
# The procfs layer obeys the discipline
-/

open K

variable {b : Bool}

theorem isOk_safe {α : Type} {p : M α} {Q : Except Err α → Prop} (hp : Safe (Disc b) p Q) :
    Safe (Disc b) (M.isOk p) (fun _ => True) := by
  unfold M.isOk
  apply Safe.mbind (Q' := fun _ => True)
  · exact Safe.try' hp (fun _ _ => trivial) (fun _ _ => ⟨trivial, trivial⟩)
  · intro r _; cases r <;> exact trivial
  · intro _ _; trivial

/-- `try'` with a postcondition that forgets everything -/
theorem try_any {α : Type} {p : M α} {Q : Except Err α → Prop} (hp : Safe (Disc b) p Q) :
    Safe (Disc b) (M.try' p) (fun _ => True) :=
  Safe.try' hp (fun _ _ => trivial) (fun _ _ => ⟨trivial, trivial⟩)

/-- `try'` keeping `FdOk` for the inner success value -/
theorem try_fd {p : M Fd} (hp : Safe (Disc b) p FdOk) :
    Safe (Disc b) (M.try' p) (fun r => ∀ x, r = .ok x → FdOk x) := by
  apply Safe.try' hp
  · intro a ha x hx; cases hx; exact ha
  · intro e _
    exact ⟨fun x hx => by cases hx; exact FdOk_err e, fun x hx => by cases hx⟩

theorem single_probe (tid : Nat) : ∀ c ∈ Sys.threadSelfCandidates tid, single c ∨ isProcProbe c := by
  intro c hc
  simp [Sys.threadSelfCandidates] at hc
  rcases hc with rfl | rfl | rfl
  · right; left; rfl
  · right; right; right
    refine ⟨by simp [List.isPrefixOf], ?_⟩
    simpa using decimal_allDigits tid
  · right; right; left; rfl

theorem intoPath_probe_safe (root : Fd) (hr : 0 ≤ root) (cands : List Bytes)
    (hc : ∀ c ∈ cands, single c ∨ isProcProbe c) :
    Safe (Disc b) (Procfs.intoPath.probe root cands) (fun _ => True) := by
  induction cands with
  | nil => unfold Procfs.intoPath.probe; exact trivial
  | cons c rest ih =>
    unfold Procfs.intoPath.probe
    apply Safe.mbind (Q' := fun _ => True)
      (Safe.mlift (existsAt_safe root c hr (hc c List.mem_cons_self)))
    · intro ok _
      split
      · exact trivial
      · exact ih (fun c' h' => hc c' (List.mem_cons_of_mem _ h'))
    · intro _ _; trivial

theorem intoPath_safe (base : Procfs.Base) (root : Fd) (hr : 0 ≤ root) :
    Safe (Disc b) (Procfs.intoPath base root) (fun _ => True) := by
  unfold Procfs.intoPath
  split
  · exact trivial
  · exact trivial
  · apply Safe.mbind (Q' := fun _ => True) (Safe.mlift gettid_safe)
    · intro tid _
      exact intoPath_probe_safe root hr _ (single_probe tid)
    · intro _ _; trivial

theorem fetchMntId_safe (dir : Fd) (path : Bytes) (hd : 0 ≤ dir) (hp : single path) :
    Safe (Disc b) (Procfs.fetchMntId dir path) (fun _ => True) := by
  unfold Procfs.fetchMntId
  apply Safe.mbind (Q' := fun _ => True) (try_any (statx_safe dir path _ hd hp))
  · intro r _
    split
    · exact trivial
    · split <;> exact trivial
    · exact trivial
  · intro _ _; trivial

theorem verifySameMnt_safe (m : Option Nat) (dir : Fd) (path : Bytes) (hd : 0 ≤ dir) (hp : single path) :
    Safe (Disc b) (Procfs.verifySameMnt m dir path) (fun _ => True) := by
  unfold Procfs.verifySameMnt
  apply Safe.mbind (Q' := fun _ => True) (fetchMntId_safe dir path hd hp)
  · intro _ _; split <;> exact trivial
  · intro _ _; trivial

theorem verifyIsProcfs_safe (fd : Fd) (hd : 0 ≤ fd) :
    Safe (Disc b) (Procfs.verifyIsProcfs fd) (fun _ => True) := by
  unfold Procfs.verifyIsProcfs
  apply Safe.mbind (Q' := fun _ => True) (fstatfs_safe fd hd)
  · intro _ _; split <;> exact trivial
  · intro _ _; trivial

theorem verifySameProcfsMnt_safe (h : ProcH) (fd : Fd) (hd : 0 ≤ fd) :
    Safe (Disc b) (Procfs.verifySameProcfsMnt h fd) (fun _ => True) := by
  unfold Procfs.verifySameProcfsMnt
  apply Safe.mbind (Q' := fun _ => True) (verifySameMnt_safe _ fd [] hd single_nil)
  · intro _ _; exact verifyIsProcfs_safe fd hd
  · intro _ _; trivial

theorem hasAll_beneath (rflags : Nat) :
    hasAll (RESOLVE_BENEATH ||| RESOLVE_NO_MAGICLINKS ||| RESOLVE_NO_XDEV ||| rflags)
      (RESOLVE_BENEATH ||| RESOLVE_NO_XDEV ||| RESOLVE_NO_MAGICLINKS) = true :=
  hasAll_or_mono _ _ _ (by decide)

theorem openat2Resolve_safe (env : Env) (root : Fd) (path : Bytes) (oflags rflags : Nat) (hr : 0 ≤ root) :
    Safe (Disc b) (Procfs.openat2Resolve env root path oflags rflags) FdOk := by
  unfold Procfs.openat2Resolve
  split
  · exact FdOk_err _
  · exact openat2_safe root path oflags _ hr (Or.inr (hasAll_beneath rflags))

theorem onErr_fd {p : M Fd} {c : Prog Unit} (hp : Safe (Disc b) p FdOk)
    (hc : Safe (Disc b) c (fun _ => True)) : Safe (Disc b) (M.onErr p c) FdOk :=
  Safe.onErr hp hc (fun _ e' _ => FdOk_err e')

theorem onErr_any {α : Type} {p : M α} {c : Prog Unit} (hp : Safe (Disc b) p (fun _ => True))
    (hc : Safe (Disc b) c (fun _ => True)) : Safe (Disc b) (M.onErr p c) (fun _ => True) :=
  Safe.onErr hp hc (fun _ _ _ => trivial)

theorem lift_any {α : Type} {p : Prog α} (hp : Safe (Disc b) p (fun _ => True)) :
    Safe (Disc b) (M.lift p) (fun _ => True) :=
  Safe.mlift hp

theorem opathFinal_safe (m : Option Nat) (oflags : Nat) (cur next : Fd) (part : Bytes) (isLink : Bool)
    (hc : 0 ≤ cur) (hp : single part) :
    Safe (Disc b) (Procfs.opathFinal m oflags cur next part isLink)
      (fun r => ∀ o, r = .ok o → ∀ fd, o = some fd → 0 ≤ fd) := by
  unfold Procfs.opathFinal
  apply Safe.mbind (Q' := fun r => ∀ x, r = .ok x → FdOk x) (try_fd (openat_safe cur part _ 0 hc hp))
  · intro r hr
    split
    · rename_i fin
      have hfin : 0 ≤ fin := hr _ rfl fin rfl
      apply Safe.mbind (Q' := fun _ => True)
        (onErr_any (verifySameMnt_safe m fin [] hfin single_nil) (closeAll_safe _))
      · intro _ _
        apply Safe.mbind (Q' := fun _ => True) (lift_any (closeAll_safe _))
        · intro _ _ o ho fd hfd; cases ho; cases hfd; exact hfin
        · intro e _ o ho; cases ho
      · intro e _ o ho; cases ho
    · split
      · apply Safe.mbind (Q' := fun _ => True) (lift_any (closeAll_safe _))
        · intro _ _ o ho; cases ho
        · intro e _ o ho; cases ho
      · intro o ho fd hfd; cases ho; cases hfd
  · intro e _ o ho; cases ho

theorem throw_fd (e : Err) : Safe (Disc b) (throw e : M Fd) FdOk := FdOk_err e

theorem opathLoop_safe (m : Option Nat) (oflags rflags : Nat) (cur : Fd) (rem : List Bytes) (links : Nat)
    (hc : 0 ≤ cur) (hrem : ∀ c ∈ rem, single c) :
    Safe (Disc b) (Procfs.opathLoop m oflags rflags cur rem links) FdOk := by
  fun_induction Procfs.opathLoop m oflags rflags cur rem links with
  | case1 cur links => intro fd h; cases h; exact hc
  | case2 cur links part0 rest part hdd =>
    apply Safe.mbind (Q' := fun _ => True) (lift_any (close_safe cur))
    · intro _ _; exact FdOk_err _
    · intro e _; exact FdOk_err e
  | case3 cur links part0 rest part hdd ih1 ih2 =>
    have hpart : single part := by
      simp only [part]
      split
      · exact single_dot
      · exact hrem part0 List.mem_cons_self
    have hrest : ∀ c ∈ rest, single c := fun c h => hrem c (List.mem_cons_of_mem _ h)
    apply Safe.mbind (Q' := FdOk) (onErr_fd (openat_safe cur part _ 0 hc hpart) (close_safe cur))
    · intro next hnext
      have hn : 0 ≤ next := hnext next rfl
      apply Safe.mbind (Q' := fun _ => True)
        (onErr_any (verifySameMnt_safe m next [] hn single_nil) (closeAll_safe _))
      · intro _ _
        apply Safe.mbind (Q' := fun _ => True)
          (onErr_any (fstatat_safe next [] hn (Or.inl single_nil)) (closeAll_safe _))
        · intro st _
          apply Safe.mbind (Q' := fun r => ∀ o, r = .ok o → ∀ fd, o = some fd → 0 ≤ fd)
          · split
            · exact opathFinal_safe m oflags cur next part _ hc hpart
            · intro o ho fd hfd; cases ho; cases hfd
          · intro fin hfin
            split
            · rename_i fd
              intro fd' h; cases h; exact hfin _ rfl fd rfl
            · split
              · apply Safe.mbind (Q' := fun _ => True) (lift_any (close_safe cur))
                · intro _ _; exact ih1 next hn hrest
                · intro e _; exact FdOk_err e
              · split
                · apply Safe.mbind (Q' := fun _ => True) (lift_any (closeAll_safe _))
                  · intro _ _; exact FdOk_err _
                  · intro e _; exact FdOk_err e
                · split
                  · apply Safe.mbind (Q' := fun _ => True) (lift_any (closeAll_safe _))
                    · intro _ _; exact FdOk_err _
                    · intro e _; exact FdOk_err e
                  · apply Safe.mbind (Q' := fun _ => True)
                      (onErr_any (readlinkat_safe next hn) (closeAll_safe _))
                    · intro target _
                      split
                      · apply Safe.mbind (Q' := fun _ => True) (lift_any (closeAll_safe _))
                        · intro _ _; exact FdOk_err _
                        · intro e _; exact FdOk_err e
                      · apply Safe.mbind (Q' := fun _ => True) (lift_any (close_safe next))
                        · intro _ _
                          apply ih2 (by assumption) target hc
                          intro c hcm
                          rcases List.mem_append.mp hcm with h | h
                          · exact rawComponents_single target c h
                          · exact hrest c h
                        · intro e _; exact FdOk_err e
                    · intro e _; exact FdOk_err e
          · intro e _; exact FdOk_err e
        · intro e _; exact FdOk_err e
      · intro e _; exact FdOk_err e
    · intro e _; exact FdOk_err e

theorem opathResolve_safe (root : Fd) (path : Bytes) (oflags rflags : Nat) (hr : 0 ≤ root) :
    Safe (Disc b) (Procfs.opathResolve root path oflags rflags) FdOk := by
  unfold Procfs.opathResolve
  split
  · exact FdOk_err _
  apply Safe.mbind (Q' := fun _ => True) (fetchMntId_safe root [] hr single_nil)
  · intro m _
    apply Safe.mbind (Q' := FdOk) (dup_safe root)
    · intro cur hcur
      exact opathLoop_safe m oflags rflags cur _ 0 (hcur cur rfl) (rawComponents_single path)
    · intro e _; exact FdOk_err e
  · intro e _; exact FdOk_err e

theorem resolve_safe (env : Env) (emulated : Bool) (root : Fd) (path : Bytes) (oflags rflags : Nat)
    (hr : 0 ≤ root) : Safe (Disc b) (Procfs.resolve env emulated root path oflags rflags) FdOk := by
  unfold Procfs.resolve
  split
  · exact FdOk_err _
  · split
    · exact opathResolve_safe root path oflags rflags hr
    · exact openat2Resolve_safe env root path oflags rflags hr

/-- a procfs handle whose descriptor is a real descriptor -/
def ProcHOk : Except Err ProcH → Prop := fun r => ∀ h, r = .ok h → 0 ≤ h.fd

theorem ProcHOk_err : ErrOk ProcHOk := fun e h hh => by cases hh

theorem fstatOrPanic_safe (inner : Fd) (hi : 0 ≤ inner) :
    Safe (Disc b) (Procfs.fstatOrPanic inner) (fun _ => True) := by
  unfold Procfs.fstatOrPanic
  exact onErr_any (fstatat_safe inner [] hi (Or.inl single_nil)) (close_safe _)

theorem missing_safe (inner : Fd) (name : Bytes) (hi : 0 ≤ inner) (hn : single name) :
    Safe (Disc b) (Procfs.missing inner name) (fun _ => True) := by
  unfold Procfs.missing
  apply Safe.mbind (Q' := fun _ => True) (Safe.mcall ⟨hi, hn, rfl⟩ (fun _ _ => trivial))
  · intro r _; split <;> exact trivial
  · intro _ _; trivial

theorem probeSubset_safe (inner : Fd) (hi : 0 ≤ inner) :
    Safe (Disc b) (Procfs.probeSubset inner) (fun _ => True) := by
  unfold Procfs.probeSubset
  apply Safe.mbind (Q' := fun _ => True) (missing_safe inner _ hi (by decide))
  · intro m1 _
    split
    · exact trivial
    · exact missing_safe inner _ hi (by decide)
  · intro _ _; trivial

theorem tryFromFd_safe (env : Env) (inner : Fd) (hi : 0 ≤ inner) :
    Safe (Disc b) (Procfs.tryFromFd env inner) ProcHOk := by
  unfold Procfs.tryFromFd
  apply Safe.mbind (Q' := fun _ => True) (onErr_any (verifyIsProcfs_safe inner hi) (close_safe _))
  · intro _ _
    apply Safe.mbind (Q' := fun _ => True) (fstatOrPanic_safe inner hi)
    · intro st _
      split
      · apply Safe.mbind (Q' := fun _ => True) (lift_any (close_safe _))
        · intro _ _; exact ProcHOk_err _
        · intro e _; exact ProcHOk_err e
      · apply Safe.mbind (Q' := fun _ => True)
          (onErr_any (fetchMntId_safe inner [] hi single_nil) (close_safe _))
        · intro mnt _
          apply Safe.mbind (Q' := fun _ => True) (probeSubset_safe inner hi)
          · intro sub _ h hh; cases hh; exact hi
          · intro e _; exact ProcHOk_err e
        · intro e _; exact ProcHOk_err e
    · intro e _; exact ProcHOk_err e
  · intro e _; exact ProcHOk_err e

theorem ProcH_bind {p : M ProcH} {f : ProcH → M ProcH}
    (hp : Safe (Disc b) p ProcHOk) (hf : ∀ h, 0 ≤ h.fd → Safe (Disc b) (f h) ProcHOk) :
    Safe (Disc b) (M.bind' p f) ProcHOk :=
  Safe.mbind hp (fun h hh => hf h (hh h rfl)) (fun e _ => ProcHOk_err e)

theorem fdcall_safe (c : Call) (hc : Disc b c) (site : String) :
    Safe (Disc b) (do
      match ← M.call c with
      | .fd n => pure n
      | .err e => throw (.os e)
      | _ => throw (.badResp site) : M Fd) FdOk := by
  refine Safe.mbind (Q' := fun r => ∀ x, r = .ok x → x.sane) (Safe.mcall hc ?_) ?_ ?_
  · intro r hr x hx; cases hx; exact hr
  · intro r hr
    split
    · intro fd h; cases h; exact hr _ rfl
    · exact FdOk_err _
    · exact FdOk_err _
  · intro e _; exact FdOk_err e

theorem fsopen_safe : Safe (Disc b) (Sys.fsopen b!"proc" FSOPEN_CLOEXEC) FdOk := by
  unfold Sys.fsopen
  exact fdcall_safe (.fsopen b!"proc" FSOPEN_CLOEXEC) ⟨rfl, by decide⟩ _

theorem fsconfigSetString_safe (sfd : Fd) (k v : Bytes) (hs : 0 ≤ sfd) :
    Safe (Disc b) (Sys.fsconfigSetString sfd k v) (fun _ => True) := by
  unfold Sys.fsconfigSetString
  apply Safe.mbind (Q' := fun _ => True) (Safe.ofExcept trivial)
  · intro _ _; exact unitCall_safe (.fsconfigSetString sfd k v) _ _ hs
  · intro _ _; trivial

theorem setSubsetOptions_safe (sfd : Fd) (subset : Bool) (hs : 0 ≤ sfd) :
    Safe (Disc b) (Procfs.setSubsetOptions sfd subset) (fun _ => True) := by
  unfold Procfs.setSubsetOptions
  split
  · apply Safe.mbind (Q' := fun _ => True) (try_any (fsconfigSetString_safe sfd _ _ hs))
    · intro _ _
      apply Safe.mbind (Q' := fun _ => True) (try_any (fsconfigSetString_safe sfd _ _ hs))
      · intro _ _; exact trivial
      · intro _ _; trivial
    · intro _ _; trivial
  · exact trivial

theorem fsconfigCreate_safe (sfd : Fd) (hs : 0 ≤ sfd) :
    Safe (Disc b) (Sys.fsconfigCreate sfd) (fun _ => True) := by
  unfold Sys.fsconfigCreate
  apply Safe.mbind (Q' := fun _ => True) (Safe.ofExcept trivial)
  · intro _ _; exact unitCall_safe (.fsconfigCreate sfd) _ _ hs
  · intro _ _; trivial

theorem fsmount_safe (sfd : Fd) (f a : Nat) (hs : 0 ≤ sfd) (hf : hasAll f FSMOUNT_CLOEXEC = true) :
    Safe (Disc b) (Sys.fsmount sfd f a) FdOk := by
  unfold Sys.fsmount
  apply wrapper_safe sfd (.fsmount sfd f a) _ FdOk FdOk_err (fun _ => ⟨hs, hf⟩)
  intro r hr
  split
  · intro fd h; cases h; exact hr
  · exact failWith_safe _ _ _ FdOk_err
  · exact FdOk_err _

theorem newFsopen_safe (env : Env) (subset : Bool) :
    Safe (Disc b) (Procfs.newFsopen env subset) ProcHOk := by
  unfold Procfs.newFsopen
  apply Safe.mbind (Q' := FdOk) fsopen_safe
  · intro sfd hsfd
    have hs : 0 ≤ sfd := hsfd sfd rfl
    apply Safe.mbind (Q' := fun _ => True) (setSubsetOptions_safe sfd subset hs)
    · intro _ _
      apply Safe.mbind (Q' := fun _ => True) (onErr_any (fsconfigCreate_safe sfd hs) (close_safe _))
      · intro _ _
        apply Safe.mbind (Q' := FdOk) (onErr_fd (fsmount_safe sfd _ _ hs (by decide)) (close_safe _))
        · intro mnt hmnt
          apply ProcH_bind (Safe.onErr (tryFromFd_safe env mnt (hmnt mnt rfl)) (close_safe _)
            (fun _ e' _ => ProcHOk_err e'))
          intro h hh
          apply Safe.mbind (Q' := fun _ => True) (lift_any (close_safe _))
          · intro _ _ h' hh'; cases hh'; exact hh
          · intro e _; exact ProcHOk_err e
        · intro e _; exact ProcHOk_err e
      · intro e _; exact ProcHOk_err e
    · intro e _; exact ProcHOk_err e
  · intro e _; exact ProcHOk_err e

theorem newOpenTree_safe (env : Env) (flags : Nat) :
    Safe (Disc b) (Procfs.newOpenTree env flags) ProcHOk := by
  unfold Procfs.newOpenTree
  have hcx : hasAll (OPEN_TREE_CLONE ||| OPEN_TREE_CLOEXEC ||| flags) OPEN_TREE_CLOEXEC = true :=
    hasAll_or_mono _ _ _ (by decide)
  have hopen : Safe (Disc b) (Sys.openTree AT_FDCWD b!"/proc" (OPEN_TREE_CLONE ||| OPEN_TREE_CLOEXEC ||| flags)) FdOk := by
    unfold Sys.openTree
    apply wrapper_safe AT_FDCWD (.openTree AT_FDCWD b!"/proc" (OPEN_TREE_CLONE ||| OPEN_TREE_CLOEXEC ||| flags)) _ FdOk FdOk_err (fun _ => ⟨rfl, rfl, hcx⟩)
    intro r hr
    split
    · intro fd h; cases h; exact hr
    · exact failWith_safe _ _ _ FdOk_err
    · exact FdOk_err _
  apply Safe.mbind (Q' := FdOk) hopen
  · intro fd hfd; exact tryFromFd_safe env fd (hfd fd rfl)
  · intro e _; exact ProcHOk_err e

theorem newUnsafeOpen_safe (env : Env) : Safe (Disc b) (Procfs.newUnsafeOpen env) ProcHOk := by
  unfold Procfs.newUnsafeOpen
  apply Safe.mbind (Q' := FdOk) (openat_proc_safe _ _)
  · intro fd hfd; exact tryFromFd_safe env fd (hfd fd rfl)
  · intro e _; exact ProcHOk_err e

theorem orElse_safe {α : Type} {p q : M α} {Q : Except Err α → Prop} (hq' : ErrOk Q)
    (hp : Safe (Disc b) p Q) (hq : Safe (Disc b) q Q) : Safe (Disc b) (Procfs.orElse p q) Q := by
  unfold Procfs.orElse
  apply Safe.mbind (Q' := fun r => ∀ x, r = .ok x → Q x)
  · apply Safe.try' hp
    · intro a ha x hx; cases hx; exact ha
    · intro e _; exact ⟨fun x hx => by cases hx; exact hq' e, fun x hx => by cases hx⟩
  · intro r hr
    split
    · exact hr _ rfl
    · exact hq
  · intro e _; exact hq' e

theorem new_safe (env : Env) : Safe (Disc b) (Procfs.new env) ProcHOk := by
  unfold Procfs.new
  exact orElse_safe ProcHOk_err (newFsopen_safe env true)
    (orElse_safe ProcHOk_err (newOpenTree_safe env _) (newUnsafeOpen_safe env))

theorem newUnmasked_safe (env : Env) : Safe (Disc b) (Procfs.newUnmasked env) ProcHOk := by
  unfold Procfs.newUnmasked
  exact orElse_safe ProcHOk_err (newFsopen_safe env false)
    (orElse_safe ProcHOk_err (newOpenTree_safe env _) (newUnsafeOpen_safe env))

theorem openBase_safe (env : Env) (h : ProcH) (base : Procfs.Base) (hh : 0 ≤ h.fd) :
    Safe (Disc b) (Procfs.openBase env h base) FdOk := by
  unfold Procfs.openBase
  apply Safe.mbind (Q' := fun _ => True) (intoPath_safe base h.fd hh)
  · intro path _
    apply Safe.mbind (Q' := FdOk) (resolve_safe env h.emulated h.fd path _ 0 hh)
    · intro fd hfd
      have hf : 0 ≤ fd := hfd fd rfl
      apply Safe.mbind (Q' := fun _ => True)
        (onErr_any (verifySameProcfsMnt_safe h fd hf) (close_safe _))
      · intro _ _ fd' h'; cases h'; exact hf
      · intro e _; exact FdOk_err e
    · intro e _; exact FdOk_err e
  · intro e _; exact FdOk_err e

theorem lookupVerified_safe (env : Env) (h : ProcH) (basedir : Fd) (subpath : Bytes) (oflags : Nat)
    (hb : 0 ≤ basedir) : Safe (Disc b) (Procfs.lookupVerified env h basedir subpath oflags) FdOk := by
  unfold Procfs.lookupVerified
  apply Safe.mbind (Q' := FdOk) (resolve_safe env h.emulated basedir subpath _ 0 hb)
  · intro fd hfd
    have hf : 0 ≤ fd := hfd fd rfl
    apply Safe.mbind (Q' := fun _ => True)
      (onErr_any (verifySameProcfsMnt_safe h fd hf) (close_safe _))
    · intro _ _ fd' h'; cases h'; exact hf
    · intro e _; exact FdOk_err e
  · intro e _; exact FdOk_err e

theorem retryUnmasked_safe (env : Env) (again : ProcH → M Fd) (basedir : Fd) (e : Err)
    (hagain : ∀ h2, 0 ≤ h2.fd → Safe (Disc b) (again h2) FdOk) :
    Safe (Disc b) (Procfs.retryUnmasked env again basedir e) FdOk := by
  unfold Procfs.retryUnmasked
  apply Safe.mbind (Q' := fun r => ∀ x, r = .ok x → ProcHOk x)
  · apply Safe.try' (newUnmasked_safe env)
    · intro a ha x hx; cases hx; exact ha
    · intro e' _; exact ⟨fun x hx => by cases hx; exact ProcHOk_err e', fun x hx => by cases hx⟩
  · intro r hr
    split
    · apply Safe.mbind (Q' := fun _ => True) (lift_any (close_safe _))
      · intro _ _; exact FdOk_err _
      · intro e _; exact FdOk_err e
    · rename_i h2
      have h2ok : 0 ≤ h2.fd := hr _ rfl h2 rfl
      split
      · apply Safe.mbind (Q' := fun _ => True) (lift_any (closeAll_safe _))
        · intro _ _; exact FdOk_err _
        · intro e _; exact FdOk_err e
      · apply Safe.mbind (Q' := fun r => ∀ x, r = .ok x → FdOk x) (try_fd (hagain h2 h2ok))
        · intro r2 hr2
          apply Safe.mbind (Q' := fun _ => True) (lift_any (closeAll_safe _))
          · intro _ _; exact Safe.ofExcept (hr2 _ rfl)
          · intro e _; exact FdOk_err e
        · intro e _; exact FdOk_err e
  · intro e _; exact FdOk_err e

theorem openStep_safe (env : Env) (again : ProcH → Nat → M Fd) (h : ProcH) (base : Procfs.Base)
    (subpath : Bytes) (oflags : Nat) (hh : 0 ≤ h.fd)
    (hagain : ∀ h2 fl, 0 ≤ h2.fd → Safe (Disc b) (again h2 fl) FdOk) :
    Safe (Disc b) (Procfs.openStep env again h base subpath oflags) FdOk := by
  unfold Procfs.openStep
  apply Safe.mbind (Q' := FdOk) (openBase_safe env h base hh)
  · intro basedir hbd
    have hb : 0 ≤ basedir := hbd basedir rfl
    apply Safe.mbind (Q' := fun r => ∀ x, r = .ok x → FdOk x)
      (try_fd (lookupVerified_safe env h basedir subpath _ hb))
    · intro first hfirst'
      split
      · apply Safe.mbind (Q' := fun _ => True) (lift_any (close_safe _))
        · intro _ _; exact hfirst' _ rfl
        · intro e _; exact FdOk_err e
      · split
        · exact retryUnmasked_safe env _ basedir _ (fun h2 h2ok => hagain h2 _ h2ok)
        · apply Safe.mbind (Q' := fun _ => True) (lift_any (close_safe _))
          · intro _ _; exact FdOk_err _
          · intro e _; exact FdOk_err e
    · intro e _; exact FdOk_err e
  · intro e _; exact FdOk_err e

theorem openH_safe (env : Env) (fuel : Nat) : ∀ (h : ProcH) (base : Procfs.Base) (subpath : Bytes)
    (oflags : Nat), 0 ≤ h.fd → Safe (Disc b) (Procfs.openH env fuel h base subpath oflags) FdOk := by
  induction fuel with
  | zero => intro h base subpath oflags _; unfold Procfs.openH; exact FdOk_err _
  | succ n ih =>
    intro h base subpath oflags hh
    unfold Procfs.openH
    exact openStep_safe env _ h base subpath oflags hh (fun h2 fl h2ok => ih h2 base subpath fl h2ok)

theorem readlinkH_safe (env : Env) (h : ProcH) (base : Procfs.Base) (subpath : Bytes) (hh : 0 ≤ h.fd) :
    Safe (Disc b) (Procfs.readlinkH env h base subpath) (fun _ => True) := by
  unfold Procfs.readlinkH
  apply Safe.mbind (Q' := FdOk) (openH_safe env _ h base subpath _ hh)
  · intro link hl
    apply Safe.mbind (Q' := fun _ => True) (try_any (readlinkat_safe link (hl link rfl)))
    · intro r _
      apply Safe.mbind (Q' := fun _ => True) (lift_any (close_safe _))
      · intro _ _; exact Safe.ofExcept trivial
      · intro _ _; trivial
    · intro _ _; trivial
  · intro _ _; trivial

theorem asUnsafePath_safe (env : Env) (fd : Fd) (hp : 0 ≤ env.proc.fd) :
    Safe (Disc b) (Procfs.asUnsafePath env fd) (fun _ => True) := by
  unfold Procfs.asUnsafePath
  apply Safe.mbind (Q' := fun _ => True) (Safe.ofExcept trivial)
  · intro sub _; exact readlinkH_safe env env.proc _ sub hp
  · intro _ _; trivial

/-- the following half of `open_follow` contains the one `openat` without `O_NOFOLLOW`, hence `Disc true` -/
theorem openFollowTail_safe (env : Env) (h : ProcH) (base : Procfs.Base) (subpath : Bytes) (fl : Nat)
    (hh : 0 ≤ h.fd) : Safe (Disc true) (Procfs.openFollowTail env h base subpath fl) FdOk := by
  unfold Procfs.openFollowTail
  apply Safe.mbind (Q' := fun r => ∀ d n, r = .ok (d, some n) → single n)
  · apply Safe.ofExcept
    intro d n hdn
    exact pathSplit_single hdn
  · intro pr hpr
    obtain ⟨parent, trailing⟩ := pr
    dsimp only
    split
    · exact FdOk_err _
    · rename_i trailing
      have ht : single trailing := hpr parent trailing rfl
      apply Safe.mbind (Q' := FdOk) (openH_safe env _ h base parent _ hh)
      · intro pfd hpfd
        have hpf : 0 ≤ pfd := hpfd pfd rfl
        apply Safe.mbind (Q' := fun _ => True)
          (onErr_any (fetchMntId_safe pfd [] hpf single_nil) (close_safe _))
        · intro pm _
          apply Safe.mbind (Q' := fun _ => True)
            (onErr_any (verifySameMnt_safe pm pfd trailing hpf ht) (close_safe _))
          · intro _ _
            have hfollow : Safe (Disc true) (Sys.openatFollow pfd trailing fl 0) FdOk := by
              apply openatFollow_safe
              intro _
              refine Or.inr (Or.inl ⟨rfl, hpf, ht, ?_⟩)
              have : ∀ f, f ||| O_CLOEXEC ||| O_NOCTTY = f ||| (O_CLOEXEC ||| O_NOCTTY) := by
                intro f; simp [Nat.or_assoc]
              rw [this]
              exact hasAll_or_left _ _
            apply Safe.mbind (Q' := fun r => ∀ x, r = .ok x → FdOk x) (try_fd hfollow)
            · intro r hr
              apply Safe.mbind (Q' := fun _ => True) (lift_any (close_safe _))
              · intro _ _; exact Safe.ofExcept (hr _ rfl)
              · intro e _; exact FdOk_err e
            · intro e _; exact FdOk_err e
          · intro e _; exact FdOk_err e
        · intro e _; exact FdOk_err e
      · intro e _; exact FdOk_err e
  · intro e _; exact FdOk_err e

theorem openFollowH_safe (env : Env) (h : ProcH) (base : Procfs.Base) (subpath : Bytes) (oflags : Nat)
    (hh : 0 ≤ h.fd) : Safe (Disc true) (Procfs.openFollowH env h base subpath oflags) FdOk := by
  unfold Procfs.openFollowH
  dsimp only
  generalize (if (Path.stripTrailingSlash subpath).2 = true then oflags ||| O_DIRECTORY else oflags) = fl
  split
  · exact FdOk_err _
  apply Safe.mbind (Q' := fun _ => True) (try_any (readlinkH_safe env h base _ hh))
  · intro probe _
    split
    · split
      · exact openH_safe env _ h base _ _ hh
      · split
        · exact openFollowTail_safe env h base _ fl hh
        · exact FdOk_err _
    · exact openFollowTail_safe env h base _ fl hh
  · intro e _; exact FdOk_err e

theorem reopen_safe (env : Env) (fd : Fd) (flags : Nat) (hf : 0 ≤ fd) (hp : 0 ≤ env.proc.fd) :
    Safe (Disc true) (Procfs.reopen env fd flags) FdOk := by
  unfold Procfs.reopen
  split
  · exact FdOk_err _
  · apply Safe.mbind (Q' := fun _ => True) (fstatat_safe fd [] hf (Or.inl single_nil))
    · intro st _
      split
      · exact FdOk_err _
      · apply Safe.mbind (Q' := fun _ => True) (Safe.ofExcept trivial)
        · intro sub _; exact openFollowH_safe env env.proc _ sub _ hp
        · intro e _; exact FdOk_err e
    · intro e _; exact FdOk_err e

theorem isMagiclinkFilesystem_safe (fd : Fd) (hf : 0 ≤ fd) :
    Safe (Disc b) (Procfs.isMagiclinkFilesystem fd) (fun _ => True) := by
  unfold Procfs.isMagiclinkFilesystem
  apply Safe.mbind (Q' := fun _ => True) (fstatfs_safe fd hf)
  · intro _ _; exact trivial
  · intro _ _; trivial
