import Pathrs.Proofs.SafeOpath

/-!
# The kernel resolver, `remove_all` and the `Root` operations obey the discipline
-/

open K

variable {b : Bool}

theorem hasAll_inroot (rflags : Nat) :
    hasAll (RESOLVE_IN_ROOT ||| RESOLVE_NO_MAGICLINKS ||| rflags)
      (RESOLVE_IN_ROOT ||| RESOLVE_NO_MAGICLINKS) = true :=
  hasAll_or_mono _ _ _ (by decide)

theorem openat2_openOnce_safe (env : Env) (root : Fd) (path : Bytes) (rflags oflags : Nat) (hr : 0 ≤ root) :
    Safe (Disc b) (Openat2.openOnce env root path rflags oflags) FdOk := by
  unfold Openat2.openOnce
  split
  · exact FdOk_err _
  · exact openat2_safe root path _ _ hr (Or.inl (hasAll_inroot rflags))

theorem resolveLoop_safe (root : Fd) (path : Bytes) (oflags rflags : Nat) (hr : 0 ≤ root) (n : Nat) :
    Safe (Disc b) (Openat2.resolveLoop root path oflags
      (RESOLVE_IN_ROOT ||| RESOLVE_NO_MAGICLINKS ||| rflags) n) FdOk := by
  induction n with
  | zero => unfold Openat2.resolveLoop; exact FdOk_err _
  | succ n ih =>
    unfold Openat2.resolveLoop
    apply Safe.mbind (Q' := fun r => ∀ x, r = .ok x → FdOk x)
      (try_fd (openat2_safe root path oflags _ hr (Or.inl (hasAll_inroot rflags))))
    · intro r hr'
      split
      · exact hr' _ rfl
      · split
        · exact FdOk_err _
        · split
          · exact ih
          · exact FdOk_err _
      · exact FdOk_err _
    · intro e _; exact FdOk_err e

theorem openat2_resolve_safe (env : Env) (root : Fd) (path : Bytes) (rflags : Nat) (nofollow : Bool)
    (hr : 0 ≤ root) : Safe (Disc b) (Openat2.resolve env root path rflags nofollow) FdOk := by
  unfold Openat2.resolve
  split
  · exact FdOk_err _
  · exact resolveLoop_safe root path _ rflags hr 16

theorem openat2_probe_safe (env : Env) (root : Fd) (rflags : Nat) (nofollow : Bool) (hr : 0 ≤ root) :
    ∀ (anc : List (Bytes × Option Bytes)) (e : Err),
      Safe (Disc b) (Openat2.probe env root rflags nofollow anc e) LookupOk := by
  intro anc
  induction anc with
  | nil => intro e; unfold Openat2.probe; exact LookupOk_err _
  | cons pr rest ih =>
    intro e
    obtain ⟨p, remaining⟩ := pr
    unfold Openat2.probe
    split
    · exact LookupOk_err _
    · apply Safe.mbind (Q' := fun r => ∀ x, r = .ok x → FdOk x)
        (try_fd (openat2_resolve_safe env root p rflags nofollow hr))
      · intro r hr'
        split
        · rename_i h; intro l hl; cases hl; exact hr' _ rfl h rfl
        · exact ih _
      · intro e _; exact LookupOk_err e

theorem openat2_resolvePartial_safe (env : Env) (root : Fd) (path : Bytes) (rflags : Nat)
    (nofollow : Bool) (hr : 0 ≤ root) :
    Safe (Disc b) (Openat2.resolvePartial env root path rflags nofollow) LookupOk := by
  unfold Openat2.resolvePartial
  apply Safe.mbind (Q' := fun r => ∀ x, r = .ok x → FdOk x)
    (try_fd (openat2_resolve_safe env root path rflags nofollow hr))
  · intro r hr'
    split
    · rename_i h; intro l hl; cases hl; exact hr' _ rfl h rfl
    · exact openat2_probe_safe env root rflags nofollow hr _ _
  · intro e _; exact LookupOk_err e

theorem resolver_resolve_safe (env : Env) (r : Resolver) (root : Fd) (path : Bytes) (nofollow : Bool)
    (hr : 0 ≤ root) (hp : 0 ≤ env.proc.fd) :
    Safe (Disc b) (Resolver.resolve env r root path nofollow) FdOk := by
  unfold Resolver.resolve
  split
  · exact opath_resolve_safe env root path _ nofollow hp
  · exact openat2_resolve_safe env root path _ nofollow hr

theorem resolver_resolvePartial_safe (env : Env) (r : Resolver) (root : Fd) (path : Bytes)
    (nofollow : Bool) (hr : 0 ≤ root) (hp : 0 ≤ env.proc.fd) :
    Safe (Disc b) (Resolver.resolvePartial env r root path nofollow) LookupOk := by
  unfold Resolver.resolvePartial
  split
  · exact opath_resolvePartial_safe env root path _ nofollow hp
  · exact openat2_resolvePartial_safe env root path _ nofollow hr

theorem Safe.toTrue {α : Type} {p : Prog α} {Q : α → Prop} (h : Safe (Disc false) p Q) :
    Safe (Disc true) p Q := by
  induction p with
  | ret a => exact h
  | call c k ih => exact ⟨Disc.weaken h.1, fun r hr => ih r (h.2 r hr)⟩

theorem resolver_openOnce_safe (env : Env) (r : Resolver) (root : Fd) (path : Bytes) (flags : Nat)
    (hr : 0 ≤ root) (hp : 0 ≤ env.proc.fd) :
    Safe (Disc true) (Resolver.openOnce env r root path flags) FdOk := by
  unfold Resolver.openOnce
  split
  · exact FdOk_err _
  · split
    · exact openat2_openOnce_safe env root path _ _ hr
    · apply Safe.mbind (Q' := FdOk) (resolver_resolve_safe env r root path _ hr hp)
      · intro handle hh
        have h0 : 0 ≤ handle := hh handle rfl
        apply Safe.mbind (Q' := fun _ => True)
          (onErr_any (fstatat_safe handle [] h0 (Or.inl single_nil)) (close_safe _))
        · intro st _
          split
          · split
            · exact lift_then_throw FdOk_err (close_safe _)
            · split
              · intro fd h; cases h; exact h0
              · exact lift_then_throw FdOk_err (close_safe _)
          · apply Safe.mbind (Q' := fun r => ∀ x, r = .ok x → FdOk x)
              (try_fd (reopen_safe env handle flags h0 hp))
            · intro res hres
              apply Safe.mbind (Q' := fun _ => True) (lift_any (close_safe _))
              · intro _ _; exact Safe.ofExcept (hres _ rfl)
              · intro e _; exact FdOk_err e
            · intro e _; exact FdOk_err e
        · intro e _; exact FdOk_err e
      · intro e _; exact FdOk_err e

/-! ## `remove_all` -/

theorem ignoreEnoent_safe {p : M Unit} (hp : Safe (Disc b) p (fun _ => True)) :
    Safe (Disc b) (RemoveAll.ignoreEnoent p) (fun _ => True) := by
  unfold RemoveAll.ignoreEnoent
  apply Safe.mbind (Q' := fun _ => True) (try_any hp)
  · intro r _
    split
    · exact trivial
    · split <;> exact trivial
    · exact trivial
  · intro _ _; trivial

theorem unlinkat_safe (dir : Fd) (name : Bytes) (flags : Nat) (hd : 0 ≤ dir) (hn : single name) :
    Safe (Disc b) (Sys.unlinkat dir name flags) (fun _ => True) := by
  unfold Sys.unlinkat
  apply Safe.mbind (Q' := fun _ => True) (Safe.ofExcept trivial)
  · intro _ _; exact unitCall_safe (.unlinkat dir name flags) _ _ ⟨hd, hn⟩
  · intro _ _; trivial

theorem removeInode_safe (dir : Fd) (name : Bytes) (hd : 0 ≤ dir) (hn : single name) :
    Safe (Disc b) (RemoveAll.removeInode dir name) (fun _ => True) := by
  unfold RemoveAll.removeInode
  apply Safe.mbind (Q' := fun _ => True) (try_any (unlinkat_safe dir name 0 hd hn))
  · intro r _
    split
    · exact trivial
    · apply Safe.mbind (Q' := fun _ => True) (try_any (unlinkat_safe dir name _ hd hn))
      · intro r2 _
        split
        · exact trivial
        · split <;> exact trivial
      · intro _ _; trivial
  · intro _ _; trivial

theorem nextEntry_safe (fd : Fd) (hf : 0 ≤ fd) (n : Nat) :
    Safe (Disc b) (RemoveAll.nextEntry fd n) (fun _ => True) := by
  induction n with
  | zero => unfold RemoveAll.nextEntry; exact trivial
  | succ n ih =>
    unfold RemoveAll.nextEntry
    apply Safe.mbind (Q' := fun _ => True) (Safe.mcall (c := .dirNext fd) hf (fun _ _ => trivial))
    · intro r _
      split
      · split
        · exact ih
        · exact trivial
      · exact trivial
      · exact trivial
      · exact trivial
    · intro _ _; trivial

theorem children_safe (rm : Fd → Bytes → M Unit) (subdir : Fd) (sf : Nat) (hs : 0 ≤ subdir)
    (hrm : ∀ name, Safe (Disc b) (rm subdir name) (fun _ => True)) :
    ∀ (n : Nat) (first : RemoveAll.DirItem),
      Safe (Disc b) (RemoveAll.children rm subdir sf first n) (fun _ => True) := by
  intro n
  induction n with
  | zero => intro first; unfold RemoveAll.children; exact trivial
  | succ n ih =>
    intro first
    cases first with
    | fin => unfold RemoveAll.children; exact trivial
    | err e => unfold RemoveAll.children; exact trivial
    | entry child =>
      unfold RemoveAll.children
      apply Safe.mbind (Q' := fun _ => True) (ignoreEnoent_safe (hrm child))
      · intro _ _
        apply Safe.mbind (Q' := fun _ => True) (nextEntry_safe subdir hs sf)
        · intro nxt _; exact ih nxt
        · intro _ _; trivial
      · intro _ _; trivial

theorem scan_safe (rm : Fd → Bytes → M Unit) (subdir : Fd) (sf : Nat) (hs : 0 ≤ subdir)
    (hrm : ∀ name, Safe (Disc b) (rm subdir name) (fun _ => True)) (n : Nat) :
    Safe (Disc b) (RemoveAll.scan rm subdir sf n) (fun _ => True) := by
  induction n with
  | zero => unfold RemoveAll.scan; exact trivial
  | succ n ih =>
    unfold RemoveAll.scan
    apply Safe.mbind (Q' := fun _ => True) (Safe.mcall (c := .dirOpen subdir) hs (fun _ _ => trivial))
    · intro r _
      split
      · apply Safe.mbind (Q' := fun _ => True) (nextEntry_safe subdir hs sf)
        · intro first _
          split
          · exact trivial
          · apply Safe.mbind (Q' := fun _ => True) (children_safe rm subdir sf hs hrm sf _)
            · intro _ _; exact ih
            · intro _ _; trivial
        · intro _ _; trivial
      · split <;> exact trivial
      · exact trivial
    · intro _ _; trivial

theorem openSubdir_safe (dir : Fd) (name : Bytes) (hd : 0 ≤ dir) (hn : single name) :
    Safe (Disc b) (RemoveAll.openSubdir dir name)
      (fun r => ∀ o, r = .ok o → ∀ fd, o = some fd → 0 ≤ fd) := by
  unfold RemoveAll.openSubdir
  apply Safe.mbind (Q' := fun r => ∀ x, r = .ok x → FdOk x)
    (try_fd (openat_safe dir name O_DIRECTORY 0 hd hn))
  · intro r hr
    split
    · rename_i fd; intro o ho fd' hfd'; cases ho; cases hfd'; exact hr _ rfl fd rfl
    · split
      · intro o ho fd' hfd'; cases ho; cases hfd'
      · intro o ho; cases ho
    · intro o ho; cases ho
  · intro e _ o ho; cases ho

theorem emptyDir_safe (rm : Fd → Bytes → M Unit) (dir : Fd) (name : Bytes) (subdir : Fd) (fuel : Nat)
    (hd : 0 ≤ dir) (hn : single name) (hs : 0 ≤ subdir)
    (hrm : ∀ nm, Safe (Disc b) (rm subdir nm) (fun _ => True)) :
    Safe (Disc b) (RemoveAll.emptyDir rm dir name subdir fuel) (fun _ => True) := by
  unfold RemoveAll.emptyDir
  apply Safe.mbind (Q' := fun _ => True)
    (onErr_any (scan_safe rm subdir fuel hs hrm fuel) (close_safe _))
  · intro _ _
    apply Safe.mbind (Q' := fun _ => True)
      (try_any (ignoreEnoent_safe (removeInode_safe dir name hd hn)))
    · intro r _
      apply Safe.mbind (Q' := fun _ => True) (lift_any (close_safe _))
      · intro _ _; exact Safe.ofExcept trivial
      · intro _ _; trivial
    · intro _ _; trivial
  · intro _ _; trivial

theorem removeAll_safe (fuel : Nat) : ∀ (dir : Fd) (name : Bytes), 0 ≤ dir →
    Safe (Disc b) (RemoveAll.removeAll fuel dir name) (fun _ => True) := by
  induction fuel with
  | zero => intro dir name _; unfold RemoveAll.removeAll; exact trivial
  | succ n ih =>
    intro dir name hd
    unfold RemoveAll.removeAll
    split
    · exact trivial
    · rename_i hslash
      have hn : single name := by simpa [single] using hslash
      split
      · exact trivial
      · apply Safe.mbind (Q' := fun _ => True) (isOk_safe (ignoreEnoent_safe (removeInode_safe dir name hd hn)))
        · intro removed _
          split
          · exact trivial
          · apply Safe.mbind (Q' := fun r => ∀ o, r = .ok o → ∀ fd, o = some fd → 0 ≤ fd)
              (openSubdir_safe dir name hd hn)
            · intro sub hsub
              split
              · exact trivial
              · rename_i subdir
                have hs : 0 ≤ subdir := hsub _ rfl subdir rfl
                exact emptyDir_safe _ dir name subdir n hd hn hs (fun nm => ih subdir nm hs)
            · intro _ _; trivial
        · intro _ _; trivial

/-! ## `Root` operations -/

/-- (parent descriptor, final name) with a real descriptor and a single-component name -/
def ParentOk : Except Err (Fd × Option Bytes) → Prop :=
  fun r => ∀ d n, r = .ok (d, n) → 0 ≤ d ∧ ∀ nm, n = some nm → single nm

theorem ParentOk_err : ErrOk ParentOk := fun e d n h => by cases h

theorem resolveParent_safe (env : Env) (root : Root) (path : Bytes) (hr : 0 ≤ root.fd)
    (hp : 0 ≤ env.proc.fd) : Safe (Disc b) (Root.resolveParent env root path) ParentOk := by
  unfold Root.resolveParent
  apply Safe.mbind (Q' := fun r => ∀ d n, r = .ok (d, some n) → single n)
  · apply Safe.ofExcept
    intro d n hdn
    exact pathSplit_single hdn
  · intro pr hpr
    obtain ⟨parent, name⟩ := pr
    dsimp only
    apply Safe.mbind (Q' := FdOk) (resolver_resolve_safe env root.resolver root.fd parent false hr hp)
    · intro dir hdir d n h
      cases h
      refine ⟨hdir dir rfl, ?_⟩
      intro nm hnm; subst hnm
      exact hpr parent nm rfl
    · intro e _; exact ParentOk_err e
  · intro e _; exact ParentOk_err e

theorem root_resolve_safe (env : Env) (root : Root) (path : Bytes) (nofollow : Bool) (hr : 0 ≤ root.fd)
    (hp : 0 ≤ env.proc.fd) : Safe (Disc b) (Root.resolve env root path nofollow) FdOk :=
  resolver_resolve_safe env root.resolver root.fd path nofollow hr hp

theorem root_openSubpath_safe (env : Env) (root : Root) (path : Bytes) (flags : Nat) (hr : 0 ≤ root.fd)
    (hp : 0 ≤ env.proc.fd) : Safe (Disc true) (Root.openSubpath env root path flags) FdOk :=
  resolver_openOnce_safe env root.resolver root.fd path flags hr hp

theorem root_readlink_safe (env : Env) (root : Root) (path : Bytes) (hr : 0 ≤ root.fd)
    (hp : 0 ≤ env.proc.fd) : Safe (Disc b) (Root.readlink env root path) (fun _ => True) := by
  unfold Root.readlink
  apply Safe.mbind (Q' := FdOk) (root_resolve_safe env root path true hr hp)
  · intro link hl
    apply Safe.mbind (Q' := fun _ => True) (try_any (readlinkat_safe link (hl link rfl)))
    · intro r _
      apply Safe.mbind (Q' := fun _ => True) (lift_any (close_safe _))
      · intro _ _; exact Safe.ofExcept trivial
      · intro _ _; trivial
    · intro _ _; trivial
  · intro _ _; trivial

theorem mknodat_safe (dir : Fd) (name : Bytes) (mode dev : Nat) (hd : 0 ≤ dir) (hn : single name) :
    Safe (Disc b) (Sys.mknodat dir name mode dev) (fun _ => True) := by
  unfold Sys.mknodat
  apply Safe.mbind (Q' := fun _ => True) (Safe.ofExcept trivial)
  · intro _ _; exact unitCall_safe (.mknodat dir name mode dev) _ _ ⟨hd, hn⟩
  · intro _ _; trivial

theorem mkdirat_safe (dir : Fd) (name : Bytes) (mode : Nat) (hd : 0 ≤ dir) (hn : single name) :
    Safe (Disc b) (Sys.mkdirat dir name mode) (fun _ => True) := by
  unfold Sys.mkdirat
  apply Safe.mbind (Q' := fun _ => True) (Safe.ofExcept trivial)
  · intro _ _; exact unitCall_safe (.mkdirat dir name mode) _ _ ⟨hd, hn⟩
  · intro _ _; trivial

theorem symlinkat_safe (target : Bytes) (dir : Fd) (name : Bytes) (hd : 0 ≤ dir) (hn : single name) :
    Safe (Disc b) (Sys.symlinkat target dir name) (fun _ => True) := by
  unfold Sys.symlinkat
  apply Safe.mbind (Q' := fun _ => True) (Safe.ofExcept trivial)
  · intro _ _; exact unitCall_safe (.symlinkat target dir name) _ _ ⟨hd, hn⟩
  · intro _ _; trivial

theorem two_hotfix {α : Type} (a c : Fd) (k : M α) (Q : Except Err α → Prop) (hq : ErrOk Q)
    (hk : Safe (Disc b) k Q) :
    Safe (Disc b) (M.bind' (M.ofExcept (Sys.hotfix a)) fun _ =>
      M.bind' (M.ofExcept (Sys.hotfix c)) fun _ => k) Q := by
  apply Safe.mbind (Q' := fun _ => True) (Safe.ofExcept trivial)
  · intro _ _
    apply Safe.mbind (Q' := fun _ => True) (Safe.ofExcept trivial)
    · intro _ _; exact hk
    · intro e _; exact hq e
  · intro e _; exact hq e

theorem linkat_safe (od : Fd) (on : Bytes) (nd : Fd) (nn : Bytes) (hod : 0 ≤ od) (hnd : 0 ≤ nd)
    (hon : single on) (hnn : single nn) :
    Safe (Disc b) (Sys.linkat od on nd nn 0) (fun _ => True) := by
  unfold Sys.linkat
  exact two_hotfix od nd _ _ (fun _ => trivial)
    (unitCall_safe (.linkat od on nd nn 0) _ _ ⟨hod, hnd, hon, hnn, rfl⟩)

theorem renameat_safe (od : Fd) (on : Bytes) (nd : Fd) (nn : Bytes) (hod : 0 ≤ od) (hnd : 0 ≤ nd)
    (hon : single on) (hnn : single nn) :
    Safe (Disc b) (Sys.renameat od on nd nn) (fun _ => True) := by
  unfold Sys.renameat
  exact two_hotfix od nd _ _ (fun _ => trivial)
    (unitCall_safe (.renameat od on nd nn) _ _ ⟨hod, hnd, hon, hnn⟩)

theorem renameat2_safe (od : Fd) (on : Bytes) (nd : Fd) (nn : Bytes) (flags : Nat) (hod : 0 ≤ od)
    (hnd : 0 ≤ nd) (hon : single on) (hnn : single nn) :
    Safe (Disc b) (Sys.renameat2 od on nd nn flags) (fun _ => True) := by
  unfold Sys.renameat2
  split
  · exact renameat_safe od on nd nn hod hnd hon hnn
  · exact two_hotfix od nd _ _ (fun _ => trivial)
      (unitCall_safe (.renameat2 od on nd nn flags) _ _ ⟨hod, hnd, hon, hnn⟩)

theorem createCall_safe (env : Env) (root : Root) (dir : Fd) (name : Bytes) (ty : InodeType)
    (hd : 0 ≤ dir) (hn : single name) (hr : 0 ≤ root.fd) (hp : 0 ≤ env.proc.fd) :
    Safe (Disc b) (Root.createCall env root dir name ty) (fun _ => True) := by
  cases ty with
  | file perm => exact mknodat_safe dir name _ _ hd hn
  | directory perm => exact mkdirat_safe dir name _ hd hn
  | symlink target => exact symlinkat_safe target dir name hd hn
  | fifo perm => exact mknodat_safe dir name _ _ hd hn
  | charDev perm dev => exact mknodat_safe dir name _ _ hd hn
  | blockDev perm dev => exact mknodat_safe dir name _ _ hd hn
  | hardlink target =>
    unfold Root.createCall
    apply Safe.mbind (Q' := ParentOk) (resolveParent_safe env root target hr hp)
    · intro pr hpr
      obtain ⟨olddir, oldname⟩ := pr
      have ho := hpr olddir oldname rfl
      dsimp only
      split
      · exact lift_then_throw (fun _ => trivial) (close_safe _)
      · rename_i oldname
        apply Safe.mbind (Q' := fun _ => True)
          (try_any (linkat_safe olddir oldname dir name ho.1 hd (ho.2 oldname rfl) hn))
        · intro r _
          apply Safe.mbind (Q' := fun _ => True) (lift_any (close_safe _))
          · intro _ _; exact Safe.ofExcept trivial
          · intro _ _; trivial
        · intro _ _; trivial
    · intro _ _; trivial

/-- generic shape: resolve the parent, refuse a trailing slash, run `body`, drop the parent -/
theorem withParent_safe {α : Type} (env : Env) (root : Root) (path : Bytes) (hr : 0 ≤ root.fd)
    (hp : 0 ≤ env.proc.fd) (body : Fd → Bytes → M α) (Q : Except Err α → Prop) (hq : ErrOk Q)
    (hbody : ∀ dir name, 0 ≤ dir → single name → Safe (Disc b) (body dir name) Q) :
    Safe (Disc b) (do
      let (dir, name) ← Root.resolveParent env root path
      match name with
      | none =>
        (Sys.close dir : Prog Unit)
        throw .invalidArgument
      | some name =>
        let r ← M.try' (body dir name)
        (Sys.close dir : Prog Unit)
        M.ofExcept r : M α) Q := by
  apply Safe.mbind (Q' := ParentOk) (resolveParent_safe env root path hr hp)
  · intro pr hpr
    obtain ⟨dir, name⟩ := pr
    have ho := hpr dir name rfl
    dsimp only
    split
    · exact lift_then_throw hq (close_safe _)
    · rename_i name
      apply Safe.mbind (Q' := fun r => ∀ x, r = .ok x → Q x)
      · apply Safe.try' (hbody dir name ho.1 (ho.2 name rfl))
        · intro a ha x hx; cases hx; exact ha
        · intro e _; exact ⟨fun x hx => by cases hx; exact hq e, fun x hx => by cases hx⟩
      · intro r hr'
        apply Safe.mbind (Q' := fun _ => True) (lift_any (close_safe _))
        · intro _ _; exact Safe.ofExcept (hr' _ rfl)
        · intro e _; exact hq e
      · intro e _; exact hq e
  · intro e _; exact hq e

theorem root_create_safe (env : Env) (root : Root) (path : Bytes) (ty : InodeType) (hr : 0 ≤ root.fd)
    (hp : 0 ≤ env.proc.fd) : Safe (Disc b) (Root.create env root path ty) (fun _ => True) := by
  unfold Root.create
  exact withParent_safe env root path hr hp (fun dir name => Root.createCall env root dir name ty) _
    (fun _ => trivial) (fun dir name hd hn => createCall_safe env root dir name ty hd hn hr hp)

theorem root_createFile_safe (env : Env) (root : Root) (path : Bytes) (flags perm : Nat)
    (hr : 0 ≤ root.fd) (hp : 0 ≤ env.proc.fd) :
    Safe (Disc b) (Root.createFile env root path flags perm) FdOk := by
  unfold Root.createFile
  refine withParent_safe env root path hr hp (fun dir name => Root.createFileOpen dir name flags perm) _
    FdOk_err (fun dir name hd hn => ?_)
  unfold Root.createFileOpen
  split
  · exact FdOk_err _
  · exact openat_safe dir name _ _ hd hn

theorem root_removeInode_safe (env : Env) (root : Root) (path : Bytes) (isDir : Bool)
    (hr : 0 ≤ root.fd) (hp : 0 ≤ env.proc.fd) :
    Safe (Disc b) (Root.removeInode env root path isDir) (fun _ => True) := by
  unfold Root.removeInode
  exact withParent_safe env root path hr hp
    (fun dir name => Sys.unlinkat dir name (if isDir then AT_REMOVEDIR else 0)) _
    (fun _ => trivial) (fun dir name hd hn => unlinkat_safe dir name _ hd hn)

theorem root_removeAll_safe (env : Env) (root : Root) (path : Bytes)
    (hr : 0 ≤ root.fd) (hp : 0 ≤ env.proc.fd) :
    Safe (Disc b) (Root.removeAll env root path) (fun _ => True) := by
  unfold Root.removeAll
  exact withParent_safe env root path hr hp
    (fun dir name => RemoveAll.removeAll Root.removeAllFuel dir name) _
    (fun _ => trivial) (fun dir name hd _ => removeAll_safe _ dir name hd)

theorem root_rename_safe (env : Env) (root : Root) (src dst : Bytes) (rflags : Nat)
    (hr : 0 ≤ root.fd) (hp : 0 ≤ env.proc.fd) :
    Safe (Disc b) (Root.rename env root src dst rflags) (fun _ => True) := by
  unfold Root.rename
  apply Safe.mbind (Q' := ParentOk) (resolveParent_safe env root src hr hp)
  · intro pr hpr
    obtain ⟨srcDir, srcName⟩ := pr
    have hs := hpr srcDir srcName rfl
    dsimp only
    split
    · exact lift_then_throw (fun _ => trivial) (close_safe _)
    · rename_i srcName
      apply Safe.mbind (Q' := ParentOk)
        (Safe.onErr (resolveParent_safe env root dst hr hp) (close_safe _) (fun _ e' _ => ParentOk_err e'))
      · intro pr2 hpr2
        obtain ⟨dstDir, dstName⟩ := pr2
        have hd := hpr2 dstDir dstName rfl
        dsimp only
        split
        · exact lift_then_throw (fun _ => trivial) (closeAll_safe _)
        · rename_i dstName
          apply Safe.mbind (Q' := fun _ => True)
            (try_any (renameat2_safe srcDir srcName dstDir dstName rflags hs.1 hd.1
              (hs.2 srcName rfl) (hd.2 dstName rfl)))
          · intro r _
            apply Safe.mbind (Q' := fun _ => True) (lift_any (close_safe _))
            · intro _ _
              apply Safe.mbind (Q' := fun _ => True) (lift_any (close_safe _))
              · intro _ _; exact Safe.ofExcept trivial
              · intro _ _; trivial
            · intro _ _; trivial
          · intro _ _; trivial
      · intro _ _; trivial
  · intro _ _; trivial

theorem mkdirTolerant_safe (cur : Fd) (part : Bytes) (perm : Nat) (hc : 0 ≤ cur) (hn : single part) :
    Safe (Disc b) (Root.mkdirTolerant cur part perm) (fun _ => True) := by
  unfold Root.mkdirTolerant
  apply Safe.mbind (Q' := fun _ => True) (try_any (mkdirat_safe cur part perm hc hn))
  · intro r _
    split
    · exact trivial
    · split <;> exact trivial
  · intro _ _; trivial

theorem mkdirLoop_safe (perm : Nat) (parts : List Bytes) : ∀ cur : Fd, 0 ≤ cur →
    Safe (Disc b) (Root.mkdirLoop perm cur parts) FdOk := by
  induction parts with
  | nil => intro cur hc; unfold Root.mkdirLoop; intro fd h; cases h; exact hc
  | cons part rest ih =>
    intro cur hc
    unfold Root.mkdirLoop
    split
    · exact lift_then_throw FdOk_err (close_safe _)
    · rename_i hslash
      have hn : single part := by simpa [single] using hslash
      apply Safe.mbind (Q' := fun _ => True)
        (onErr_any (mkdirTolerant_safe cur part perm hc hn) (close_safe _))
      · intro _ _
        apply Safe.mbind (Q' := FdOk) (onErr_fd (openat_safe cur part _ 0 hc hn) (close_safe _))
        · intro next hnext
          apply Safe.mbind (Q' := fun _ => True) (lift_any (close_safe _))
          · intro _ _; exact ih next (hnext next rfl)
          · intro e _; exact FdOk_err e
        · intro e _; exact FdOk_err e
      · intro e _; exact FdOk_err e

theorem partialTarget_safe (env : Env) (root : Root) (path : Bytes) (hr : 0 ≤ root.fd)
    (hp : 0 ≤ env.proc.fd) :
    Safe (Disc b) (Root.partialTarget env root path) (fun r => ∀ h rem, r = .ok (h, rem) → 0 ≤ h) := by
  unfold Root.partialTarget
  apply Safe.mbind (Q' := LookupOk) (resolver_resolvePartial_safe env root.resolver root.fd path false hr hp)
  · intro l hl
    split
    · rename_i h; intro h' rem' heq; cases heq; exact hl _ rfl
    · rename_i h rem e
      split
      · intro h' rem' heq; cases heq; exact hl _ rfl
      · exact lift_then_throw (fun _ _ _ h => by cases h) (close_safe _)
  · intro e _ h rem heq; cases heq

theorem mkdirFrom_safe (env : Env) (perm : Nat) (handle : Fd) (remaining : Option Bytes)
    (hh : 0 ≤ handle) (hp : 0 ≤ env.proc.fd) :
    Safe (Disc true) (Root.mkdirFrom env perm handle remaining) FdOk := by
  unfold Root.mkdirFrom
  have hcleanup : Safe (Disc true) (Prog.bind (Sys.freeze handle) fun _ => Sys.close handle)
      (fun _ => True) := Safe.bind (freeze_safe _) (fun _ _ => close_safe _)
  apply Safe.mbind (Q' := FdOk) (onErr_fd (reopen_safe env handle O_DIRECTORY hh hp) hcleanup)
  · intro cur hcur
    dsimp only
    split
    · exact lift_then_throw FdOk_err (closeAll_safe _)
    · apply Safe.mbind (Q' := fun r => ∀ x, r = .ok x → FdOk x)
        (try_fd (mkdirLoop_safe perm _ cur (hcur cur rfl)))
      · intro r hr
        apply Safe.mbind (Q' := fun _ => True) (lift_any (close_safe _))
        · intro _ _; exact Safe.ofExcept (hr _ rfl)
        · intro e _; exact FdOk_err e
      · intro e _; exact FdOk_err e
  · intro e _; exact FdOk_err e

theorem root_mkdirAll_safe (env : Env) (root : Root) (path : Bytes) (perm : Nat) (hr : 0 ≤ root.fd)
    (hp : 0 ≤ env.proc.fd) : Safe (Disc true) (Root.mkdirAll env root path perm) FdOk := by
  unfold Root.mkdirAll
  split
  · exact FdOk_err _
  · split
    · exact FdOk_err _
    · split
      · exact FdOk_err _
      · apply Safe.mbind (Q' := fun r => ∀ h rem, r = .ok (h, rem) → 0 ≤ h)
          (Safe.toTrue (partialTarget_safe env root path hr hp))
        · intro pr hpr
          obtain ⟨handle, remaining⟩ := pr
          exact mkdirFrom_safe env perm handle remaining (hpr handle remaining rfl) hp
        · intro e _; exact FdOk_err e
