import Pathrs.Proofs.Disc

/-!
# The syscall wrappers obey the discipline
-/

open K

variable {b : Bool}

theorem startsWith_proc (rest : Bytes) : startsWith (b!"/proc/" ++ rest) b!"/proc/" := by
  unfold startsWith
  simp [List.isPrefixOf]

theorem startsWith_proc4 (x y z : Bytes) : startsWith (b!"/proc/" ++ x ++ y ++ z) b!"/proc/" := by
  unfold startsWith
  simp [List.isPrefixOf]

theorem gettid_safe : Safe (Disc b) Sys.gettid (fun _ => True) := by
  unfold Sys.gettid
  refine ⟨trivial, fun r _ => ?_⟩
  dsimp only
  split <;> exact trivial

theorem geteuid_safe : Safe (Disc b) Sys.geteuid (fun _ => True) := by
  unfold Sys.geteuid
  refine ⟨trivial, fun r _ => ?_⟩
  dsimp only
  split <;> exact trivial

theorem freeze_probe_safe :
    ∀ cands, Safe (Disc b) (Sys.freeze.probe cands) (fun _ => True) := by
  intro cands
  induction cands with
  | nil => rw [Sys.freeze.probe.eq_1]; exact trivial
  | cons cand rest ih =>
    rw [Sys.freeze.probe.eq_2]
    refine ⟨?_, fun r _ => ?_⟩
    · exact ⟨rfl, Or.inr ⟨rfl, startsWith_proc cand⟩⟩
    · dsimp only
      split
      · exact ih
      · exact trivial

theorem freeze_safe (fd : Fd) : Safe (Disc b) (Sys.freeze fd) (fun _ => True) := by
  unfold Sys.freeze
  apply Safe.bind gettid_safe
  intro tid _
  apply Safe.bind (freeze_probe_safe _)
  intro x _
  split
  · exact trivial
  · exact ⟨startsWith_proc4 _ _ _, fun _ _ => trivial⟩

theorem failWith_go_safe {α : Type} (e : Nat) (Q : Except Err α → Prop) (hq : ∀ e', Q (.error e')) :
    ∀ fds, Safe (Disc b) (Sys.failWith.go (α := α) e fds) Q := by
  intro fds
  induction fds with
  | nil => unfold Sys.failWith.go; exact hq _
  | cons fd rest ih =>
    unfold Sys.failWith.go
    apply Safe.bind (freeze_safe fd)
    intro _ _
    exact ih

theorem failWith_safe {α : Type} (fds : List Fd) (e : Nat) (Q : Except Err α → Prop)
    (hq : ∀ e', Q (.error e')) : Safe (Disc b) (Sys.failWith (α := α) fds e) Q := by
  unfold Sys.failWith
  exact failWith_go_safe e Q hq fds

/-- a postcondition that accepts every error -/
def ErrOk (Q : Except Err α → Prop) : Prop := ∀ e, Q (.error e)

theorem FdOk_err : ErrOk FdOk := fun e fd h => by cases h

theorem hotfix_cases (fd : Fd) :
    (Sys.hotfix fd = .ok () ∧ (fd = AT_FDCWD ∨ 0 ≤ fd)) ∨ (∃ e, Sys.hotfix fd = .error e) := by
  unfold Sys.hotfix
  by_cases h : fd = AT_FDCWD ∨ fd ≥ 0
  · left; simp [h]
  · right; simp [h]

/-- generic shape of a wrapper: `hotfix`, one call, result dispatch -/
theorem wrapper_safe {α : Type} (dir : Fd) (c : Call) (k : Resp → M α) (Q : Except Err α → Prop)
    (hq : ErrOk Q) (hc : (dir = AT_FDCWD ∨ 0 ≤ dir) → Disc b c)
    (hk : ∀ r, r.sane → Safe (Disc b) (k r) Q) :
    Safe (Disc b) (M.bind' (M.ofExcept (Sys.hotfix dir)) fun _ => M.bind' (M.call c) k) Q := by
  rcases hotfix_cases dir with ⟨h, hd⟩ | ⟨e, h⟩
  · rw [h]
    apply Safe.mbind (Q' := fun _ => True) (Safe.ofExcept trivial)
    · intro _ _
      apply Safe.mbind (Q' := fun r => ∀ x, r = .ok x → x.sane) (Safe.mcall (hc hd) ?_)
      · intro r hr; exact hk r (hr r rfl)
      · intro e _; exact hq e
      · intro r hr x hx; cases hx; exact hr
    · intro e _; exact hq e
  · rw [h]
    apply Safe.mbind (Q' := fun r => r = .error e) (Safe.ofExcept rfl)
    · intro a ha; cases ha
    · intro e' _; exact hq e'

theorem openatFollow_safe (dir : Fd) (name : Bytes) (flags mode : Nat)
    (hc : (dir = AT_FDCWD ∨ 0 ≤ dir) → Disc b (.openat dir name (flags ||| O_CLOEXEC ||| O_NOCTTY) mode)) :
    Safe (Disc b) (Sys.openatFollow dir name flags mode) FdOk := by
  unfold Sys.openatFollow
  apply wrapper_safe dir _ _ FdOk FdOk_err hc
  intro r hr
  split
  · rename_i n; intro fd h; cases h; exact hr
  · exact failWith_safe _ _ _ FdOk_err
  · exact FdOk_err _

theorem hasAll_forced (flags : Nat) :
    hasAll (flags ||| O_NOFOLLOW ||| O_CLOEXEC ||| O_NOCTTY) OPEN_FORCED = true := by
  have h : flags ||| O_NOFOLLOW ||| O_CLOEXEC ||| O_NOCTTY = flags ||| OPEN_FORCED := by
    simp [OPEN_FORCED, Nat.or_assoc]
  rw [h]
  exact hasAll_or_left _ _

/-- `openat` below a real directory descriptor, single component -/
theorem openat_safe (dir : Fd) (name : Bytes) (flags mode : Nat) (hd : 0 ≤ dir) (hn : single name) :
    Safe (Disc b) (Sys.openat dir name flags mode) FdOk := by
  unfold Sys.openat
  apply openatFollow_safe
  intro _
  exact Or.inl ⟨hd, hn, hasAll_forced flags⟩

/-- the bootstrap `openat(AT_FDCWD, "/proc")` -/
theorem openat_proc_safe (flags mode : Nat) :
    Safe (Disc b) (Sys.openat AT_FDCWD b!"/proc" flags mode) FdOk := by
  unfold Sys.openat
  apply openatFollow_safe
  intro _
  exact Or.inr (Or.inr ⟨rfl, rfl, hasAll_forced flags⟩)

theorem openat2_safe (dir : Fd) (path : Bytes) (flags resolve : Nat) (hd : 0 ≤ dir)
    (hr : hasAll resolve (RESOLVE_IN_ROOT ||| RESOLVE_NO_MAGICLINKS) = true ∨
          hasAll resolve (RESOLVE_BENEATH ||| RESOLVE_NO_XDEV ||| RESOLVE_NO_MAGICLINKS) = true) :
    Safe (Disc b) (Sys.openat2 dir path flags resolve) FdOk := by
  unfold Sys.openat2
  split
  · apply Safe.mbind (Q' := fun _ => True) (Safe.ofExcept trivial)
    · intro _ _; exact failWith_safe _ _ _ FdOk_err
    · intro e _; exact FdOk_err e
  apply wrapper_safe dir _ _ FdOk FdOk_err
  · intro _; exact ⟨hd, hasAll_or_left _ _, hr⟩
  · intro r hr
    split
    · intro fd h; cases h; exact hr
    · exact failWith_safe _ _ _ FdOk_err
    · exact FdOk_err _

theorem readlinkat_safe (dir : Fd) (hd : 0 ≤ dir) :
    Safe (Disc b) (Sys.readlinkat dir []) (fun _ => True) := by
  unfold Sys.readlinkat
  apply wrapper_safe dir _ _ _ (fun _ => trivial)
  · intro _; exact ⟨hd, rfl⟩
  · intro r _
    split
    · split
      · exact failWith_safe _ _ _ (fun _ => trivial)
      · exact trivial
    · exact failWith_safe _ _ _ (fun _ => trivial)
    · exact trivial

theorem fstatat_safe (dir : Fd) (name : Bytes) (hd : 0 ≤ dir) (hn : single name ∨ isProcProbe name) :
    Safe (Disc b) (Sys.fstatat dir name) (fun _ => True) := by
  unfold Sys.fstatat
  apply wrapper_safe dir _ _ _ (fun _ => trivial)
  · intro _; exact ⟨rfl, Or.inl ⟨hd, hn⟩⟩
  · intro r _
    split
    · exact trivial
    · exact failWith_safe _ _ _ (fun _ => trivial)
    · exact trivial

/-- `exists_at`: the same call as `fstatat`, and nothing else -/
theorem existsAt_safe (dir : Fd) (name : Bytes) (hd : 0 ≤ dir) (hn : single name ∨ isProcProbe name) :
    Safe (Disc b) (Sys.existsAt dir name) (fun _ => True) := by
  unfold Sys.existsAt
  split
  · exact trivial
  · refine ⟨⟨rfl, Or.inl ⟨hd, hn⟩⟩, fun r _ => ?_⟩
    dsimp only
    split <;> exact trivial

theorem single_nil : single [] := by simp [single, Path.containsSlash]

theorem statx_safe (dir : Fd) (name : Bytes) (mask : Nat) (hd : 0 ≤ dir) (hn : single name) :
    Safe (Disc b) (Sys.statx dir name mask) (fun _ => True) := by
  unfold Sys.statx
  apply wrapper_safe dir _ _ _ (fun _ => trivial)
  · intro _; exact ⟨hd, hn, rfl⟩
  · intro r _
    split
    · exact trivial
    · exact failWith_safe _ _ _ (fun _ => trivial)
    · exact trivial

theorem fstatfs_safe (fd : Fd) (hd : 0 ≤ fd) : Safe (Disc b) (Sys.fstatfs fd) (fun _ => True) := by
  unfold Sys.fstatfs
  apply wrapper_safe fd _ _ _ (fun _ => trivial)
  · intro _; exact hd
  · intro r _
    split
    · exact trivial
    · exact failWith_safe _ _ _ (fun _ => trivial)
    · exact trivial

theorem unitCall_safe (c : Call) (fds : List Fd) (site : String) (hc : Disc b c) :
    Safe (Disc b) (Sys.unitCall c fds site) (fun _ => True) := by
  unfold Sys.unitCall
  apply Safe.mbind (Q' := fun _ => True) (Safe.mcall hc (fun _ _ => trivial))
  · intro r _
    split
    · exact trivial
    · exact failWith_safe _ _ _ (fun _ => trivial)
    · exact trivial
  · intro _ _; trivial

theorem close_safe (fd : Fd) : Safe (Disc b) (Sys.close fd) (fun _ => True) :=
  ⟨trivial, fun _ _ => trivial⟩

theorem closeAll_safe (fds : List Fd) : Safe (Disc b) (Sys.closeAll fds) (fun _ => True) := by
  unfold Sys.closeAll
  generalize fds.eraseDups = l
  induction l with
  | nil => exact trivial
  | cons fd rest ih => exact Safe.bind (close_safe fd) (fun _ _ => ih)

theorem release_safe (fd : Fd) (held : List Fd) : Safe (Disc b) (Sys.release fd held) (fun _ => True) := by
  unfold Sys.release
  split
  · exact trivial
  · exact close_safe fd

theorem dup_safe (fd : Fd) : Safe (Disc b) (Sys.dup fd) FdOk := by
  unfold Sys.dup
  apply Safe.mbind (Q' := fun r => ∀ x, r = .ok x → x.sane) (Safe.mcall (D := Disc b) (c := .dup fd 3) (show Disc b (.dup fd 3) from rfl) ?_)
  · intro r hr
    split
    · intro fd h; cases h; exact hr _ rfl
    · exact FdOk_err _
    · exact FdOk_err _
  · intro e _; exact FdOk_err e
  · intro r hr x hx; cases hx; exact hr
