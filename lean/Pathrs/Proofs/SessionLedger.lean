import Pathrs.Session
import Pathrs.Proofs.LedgerProofs
import Pathrs.Proofs.LedgerProcfs

/-!
# The descriptors of a whole session (C11)

For every environment whose kernel hands out only numbers that are not open: after any sequence of library calls of
one process — each of which is balanced on its own (`C11_balance_*`) — the descriptors the process holds are exactly
the ones handed back to the caller by the successful calls plus **at most one** more: the process-global procfs
handle, created by the first call that needed it.  No call, first or later, leaves anything else behind.
-/

open K Ledger LedgerLogic LedgerProofs Session

namespace SessionLedger

/-- a run of the session ended in a fatal model error somewhere (nothing is claimed about such runs) -/
def anyFatal : List (Except Err Fd) → Prop
  | [] => False
  | .error e :: rest => e.isFatal = true ∨ anyFatal rest
  | .ok _ :: rest => anyFatal rest

/-- steps that are balanced on their own (the shape of the `C11_balance_*` theorems): whatever else the caller holds
besides `ext` — and with the handle's descriptor among it — each call ends owning exactly the descriptor it returns -/
def StepOk (ext : List Fd) : Step → Prop
  | .plain k => ∀ ext' : List Fd, (∀ x ∈ ext, x ∈ ext') → BalancedFd ext' k
  | .proc k => ∀ (ext' : List Fd) (h : ProcH), (∀ x ∈ ext, x ∈ ext') → h.fd ∈ ext' → 0 ≤ h.fd → BalancedFd ext' (k h)

/-- the cell, once filled, never changes; an empty cell is filled by the first successful creation -/
theorem globalHandle_some (env : Env) (h : ProcH) :
    globalHandle env (some h) = .ret (.ok h, some h) := rfl

/-! ## Frame lemmas: a stretch of history seen from an empty ledger and from a ledger that already owns `own` -/

/-- a call other than `close` adds what it produced, whatever is owned -/
theorem step_shape (c : Call) (r : Resp) :
    (∃ n, c = .close n) ∨
    (∃ pl : List Fd, (∀ o, step o c r = some (pl ++ o)) ∧ ∀ n, n ∈ pl ↔ produced c r = some n) := by
  by_cases hc : ∃ n, c = .close n
  · exact Or.inl hc
  · right
    have hnc : ∀ n, c ≠ .close n := fun n h => hc ⟨n, h⟩
    cases hp : produced c r with
    | none =>
      refine ⟨[], fun o => ?_, fun n => by simp⟩
      rw [step_of_not_close hnc, hp]; rfl
    | some m =>
      refine ⟨[m], fun o => ?_, fun n => by simp [eq_comm]⟩
      rw [step_of_not_close hnc, hp]; rfl

/-- what the kernel promises with respect to the big ledger, it promises with respect to the small one when the
rest of the big ledger is moved to the caller's side -/
theorem fresh_frame (ext own : List Fd) (l : Hist) : ∀ (ob os : List Fd), ob.Perm (os ++ own) →
    Fresh ext ob l → Fresh (own ++ ext) os l := by
  induction l with
  | nil => intro _ _ _ _; trivial
  | cons cr t ih =>
    obtain ⟨c, r⟩ := cr
    intro ob os hp hf
    simp only [Fresh] at hf ⊢
    obtain ⟨hf1, hf2⟩ := hf
    refine ⟨?_, ?_⟩
    · intro n hn
      obtain ⟨h0, h1, h2⟩ := hf1 n hn
      refine ⟨h0, ?_, ?_⟩
      · intro hmem
        rcases List.mem_append.mp hmem with hm | hm
        · exact h2 (hp.mem_iff.mpr (List.mem_append_right _ hm))
        · exact h1 hm
      · intro hm
        exact h2 (hp.mem_iff.mpr (List.mem_append_left _ hm))
    · rcases step_shape c r with ⟨n, rfl⟩ | ⟨pl, hpl, _⟩
      · simp only [step] at hf2 ⊢
        by_cases hn : n ∈ os
        · have hnb : n ∈ ob := hp.mem_iff.mpr (List.mem_append_left _ hn)
          simp only [hn, hnb, ↓reduceIte] at hf2 ⊢
          refine ih _ _ ?_ hf2
          have := hp.erase n
          rwa [List.erase_append_left _ hn] at this
        · simp only [hn, ↓reduceIte]
      · rw [hpl] at hf2 ⊢
        simp only at hf2 ⊢
        refine ih _ _ ?_ hf2
        rw [List.append_assoc]
        exact List.Perm.append_left pl hp

/-- the ledger of a stretch that is defined on its own is defined in any larger context, with the context kept -/
theorem ledger_frame (own : List Fd) (l : Hist) : ∀ (ob os o : List Fd), ob.Perm (os ++ own) →
    ledger os l = some o → ∃ o', ledger ob l = some o' ∧ o'.Perm (o ++ own) := by
  induction l with
  | nil =>
    intro ob os o hp hl
    simp only [ledger, Option.some.injEq] at hl
    subst hl
    exact ⟨ob, rfl, hp⟩
  | cons cr t ih =>
    obtain ⟨c, r⟩ := cr
    intro ob os o hp hl
    simp only [ledger] at hl ⊢
    rcases step_shape c r with ⟨n, rfl⟩ | ⟨pl, hpl, _⟩
    · simp only [step] at hl ⊢
      by_cases hn : n ∈ os
      · have hnb : n ∈ ob := hp.mem_iff.mpr (List.mem_append_left _ hn)
        simp only [hn, hnb, ↓reduceIte] at hl ⊢
        refine ih _ _ _ ?_ hl
        have := hp.erase n
        rwa [List.erase_append_left _ hn] at this
      · simp only [hn, ↓reduceIte] at hl
        cases hl
    · rw [hpl] at hl ⊢
      simp only at hl ⊢
      refine ih _ _ _ ?_ hl
      rw [List.append_assoc]
      exact List.Perm.append_left pl hp

/-- every number in the ledger that was not there at the start was handed out by the kernel, hence is not negative -/
theorem ledger_nonneg (ext : List Fd) (l : Hist) : ∀ (o o' : List Fd), (∀ x ∈ o, 0 ≤ x) →
    Fresh ext o l → ledger o l = some o' → ∀ x ∈ o', 0 ≤ x := by
  induction l with
  | nil =>
    intro o o' h0 _ hl
    simp only [ledger, Option.some.injEq] at hl
    subst hl
    exact h0
  | cons cr t ih =>
    obtain ⟨c, r⟩ := cr
    intro o o' h0 hf hl
    simp only [Fresh] at hf
    simp only [ledger] at hl
    obtain ⟨hf1, hf2⟩ := hf
    rcases step_shape c r with ⟨n, rfl⟩ | ⟨pl, hpl, hmem⟩
    · simp only [step] at hl hf2
      by_cases hn : n ∈ o
      · simp only [hn, ↓reduceIte] at hl hf2
        exact ih _ _ (fun x hx => h0 x (List.mem_of_mem_erase hx)) hf2 hl
      · simp only [hn, ↓reduceIte] at hl
        cases hl
    · rw [hpl] at hl hf2
      simp only at hl hf2
      refine ih _ _ ?_ hf2 hl
      intro x hx
      rcases List.mem_append.mp hx with hx | hx
      · exact (hf1 x ((hmem x).mp hx)).1
      · exact h0 x hx

/-! ## One step in the middle of a session -/

theorem returned_cons (r : Except Err Fd) (rs : List (Except Err Fd)) :
    returned (r :: rs) = returned [r] ++ returned rs := by
  cases r <;> rfl

theorem anyFatal_cons (r : Except Err Fd) (rs : List (Except Err Fd)) :
    anyFatal (r :: rs) ↔ (Fatal r ∨ anyFatal rs) := by
  cases r with
  | ok fd => simp [anyFatal, Fatal]
  | error e => simp [anyFatal, Fatal]

/-- a balanced call, run while `own` is owned: the ledger gains exactly the returned descriptor -/
theorem balanced_frame {ext own : List Fd} {p : M Fd} (hb : BalancedFd (own ++ ext) p)
    {h : Hist} {l : Hist} {r : Except Err Fd} (hr : Runs p h (h ++ l) r) (hf : Fresh ext own l) :
    Fatal r ∨ ∃ o', ledger own l = some o' ∧ o'.Perm (returned [r] ++ own) := by
  have hf' : Fresh (own ++ ext) [] l := fresh_frame ext own l own [] (List.Perm.refl _) hf
  have := hb h l r hr hf'
  cases r with
  | ok fd =>
    obtain ⟨o, ho, hp⟩ := this
    obtain ⟨o', ho', hp'⟩ := ledger_frame own l own [] o (List.Perm.refl _) ho
    exact Or.inr ⟨o', ho', hp'.trans (List.Perm.append_right own hp)⟩
  | error e =>
    rcases this with hfat | ho
    · exact Or.inl hfat
    · obtain ⟨o', ho', hp'⟩ := ledger_frame own l own [] [] (List.Perm.refl _) ho
      exact Or.inr ⟨o', ho', hp'⟩

/-- the descriptor of the cell is not negative and is held: by the session or by the caller -/
def CellInv (ext own : List Fd) (cell : Option ProcH) : Prop :=
  ∀ h, cell = some h → 0 ≤ h.fd ∧ h.fd ∈ own ++ ext

/-- the descriptors a stretch of the session added to the cell -/
def created : Option ProcH → Option ProcH → List Fd
  | some _, _ => []
  | none, c => cellFds c

theorem created_self (c : Option ProcH) : created c c = [] := by
  cases c <;> rfl

theorem cellInv_perm {ext own own' : List Fd} {cell : Option ProcH} (hi : CellInv ext own cell)
    (hsub : ∀ x ∈ own, x ∈ own') : CellInv ext own' cell := by
  intro h hc
  obtain ⟨h0, hm⟩ := hi h hc
  refine ⟨h0, ?_⟩
  rcases List.mem_append.mp hm with hm | hm
  · exact List.mem_append_left _ (hsub _ hm)
  · exact List.mem_append_right _ hm

theorem mem_ext_append (ext own : List Fd) : ∀ x ∈ ext, x ∈ own ++ ext :=
  fun _ hx => List.mem_append_right _ hx

/-- the handle constructor, run while `own` is owned -/
theorem new_frame (env : Env) {ext own : List Fd} {h : Hist} {l : Hist} {x : Except Err ProcH}
    (hr : Runs (Procfs.new env) h (h ++ l) x) (hf : Fresh ext own l) :
    Fatal x ∨ ∃ o', ledger own l = some o' ∧
      match x with
      | .ok ph => o'.Perm (ph.fd :: own) ∧ 0 ≤ ph.fd
      | .error _ => o'.Perm own := by
  have hf' : Fresh (own ++ ext) [] l := fresh_frame ext own l own [] (List.Perm.refl _) hf
  rcases new_led (ext := own ++ ext) (S := emp) env [] h l x Rep.nil hr hf' with hfat | ⟨o1, S', hl, hrep, hpost⟩
  · exact Or.inl hfat
  · right
    cases x with
    | ok ph =>
      obtain ⟨_, rfl⟩ := hpost
      have ho1 := rep_single hrep
      subst ho1
      obtain ⟨o', ho', hp'⟩ := ledger_frame own l own [] _ (List.Perm.refl _) hl
      refine ⟨o', ho', hp', ?_⟩
      exact ledger_nonneg (own ++ ext) l [] _ (fun _ hx => by cases hx) hf' hl _ List.mem_cons_self
    | error e =>
      have hS : S' = emp := hpost
      subst hS
      have ho1 := rep_empty hrep
      subst ho1
      obtain ⟨o', ho', hp'⟩ := ledger_frame own l own [] _ (List.Perm.refl _) hl
      exact ⟨o', ho', hp'⟩

theorem run_step (env : Env) (ext : List Fd) (s : Step) (hs : StepOk ext s)
    (cell0 : Option ProcH) (own : List Fd) (hi : CellInv ext own cell0)
    (h0 : Hist) (l : Hist) (r : Except Err Fd) (cell1 : Option ProcH)
    (hr : Runs (runStep env cell0 s) h0 (h0 ++ l) (r, cell1)) (hf : Fresh ext own l) :
    Fatal r ∨ ∃ o', ledger own l = some o' ∧ o'.Perm (returned [r] ++ created cell0 cell1 ++ own) ∧
      CellInv ext o' cell1 := by
  cases s with
  | plain k =>
    simp only [runStep] at hr
    obtain ⟨hm, x, h1, h2⟩ := Runs.bind_inv hr
    obtain ⟨rfl, he⟩ := Runs.ret_inv h2
    cases he
    rcases balanced_frame (hs (own ++ ext) (mem_ext_append ext own)) h1 hf with hfat | ⟨o', ho', hp⟩
    · exact Or.inl hfat
    · refine Or.inr ⟨o', ho', ?_, ?_⟩
      · rw [created_self, List.append_nil]; exact hp
      · exact cellInv_perm hi (fun x hx => hp.mem_iff.mpr (List.mem_append_right _ hx))
  | proc k =>
    cases cell0 with
    | some hc =>
      simp only [runStep, globalHandle, Prog.bind_ret] at hr
      obtain ⟨hm, x, h1, h2⟩ := Runs.bind_inv hr
      obtain ⟨rfl, he⟩ := Runs.ret_inv h2
      cases he
      obtain ⟨hc0, hcm⟩ := hi hc rfl
      rcases balanced_frame (hs (own ++ ext) hc (mem_ext_append ext own) hcm hc0) h1 hf with hfat | ⟨o', ho', hp⟩
      · exact Or.inl hfat
      · refine Or.inr ⟨o', ho', ?_, ?_⟩
        · rw [created_self, List.append_nil]; exact hp
        · exact cellInv_perm hi (fun x hx => hp.mem_iff.mpr (List.mem_append_right _ hx))
    | none =>
      simp only [runStep, globalHandle] at hr
      obtain ⟨hm, rc, h1, h2⟩ := Runs.bind_inv hr
      obtain ⟨hm', x, h3, h4⟩ := Runs.bind_inv h1
      obtain ⟨la, rfl⟩ := h3.isPrefix
      cases x with
      | error e =>
        obtain ⟨rfl, he⟩ := Runs.ret_inv h4
        cases he
        obtain ⟨hh, he⟩ := Runs.ret_inv h2
        cases he
        have hl : l = la := (List.append_cancel_left hh)
        subst hl
        rcases new_frame env h3 hf with hfat | ⟨o', ho', hp⟩
        · exact Or.inl hfat
        · refine Or.inr ⟨o', ho', hp, ?_⟩
          intro h hh; cases hh
      | ok ph =>
        obtain ⟨rfl, he⟩ := Runs.ret_inv h4
        cases he
        obtain ⟨hm2, y, h5, h6⟩ := Runs.bind_inv h2
        obtain ⟨rfl, he⟩ := Runs.ret_inv h6
        cases he
        obtain ⟨lb, hlb⟩ := h5.isPrefix
        have hl : l = la ++ lb := by
          rw [List.append_assoc] at hlb
          exact (List.append_cancel_left hlb).symm
        subst hl
        rw [fresh_append] at hf
        rcases new_frame env h3 hf.1 with hfat | ⟨oa, hoa, hpa, hph0⟩
        · exact hfat.elim
        · have hfb := hf.2 oa hoa
          have hmem : ph.fd ∈ oa ++ ext :=
            List.mem_append_left _ (hpa.mem_iff.mpr List.mem_cons_self)
          have h5' : Runs (k ph) (h0 ++ la) ((h0 ++ la) ++ lb) r := by
            rw [List.append_assoc]; exact h5
          rcases balanced_frame (hs (oa ++ ext) ph (mem_ext_append ext oa) hmem hph0) h5' hfb
            with hfat | ⟨ob, hob, hpb⟩
          · exact Or.inl hfat
          · refine Or.inr ⟨ob, ?_, ?_, ?_⟩
            · rw [ledger_append, hoa]; exact hob
            · refine hpb.trans ?_
              rw [List.append_assoc]
              exact List.Perm.append_left _ hpa
            · intro h hh
              cases hh
              refine ⟨hph0, List.mem_append_left _ ?_⟩
              exact hpb.mem_iff.mpr (List.mem_append_right _ (hpa.mem_iff.mpr List.mem_cons_self))

/-! ## The whole session -/

/-- the cell, once filled, never changes -/
theorem runStep_cell_some (env : Env) (hc : ProcH) (s : Step) (h0 h1 : Hist) (r : Except Err Fd)
    (c1 : Option ProcH) (hr : Runs (runStep env (some hc) s) h0 h1 (r, c1)) : c1 = some hc := by
  cases s with
  | plain k =>
    simp only [runStep] at hr
    obtain ⟨_, x, _, h6⟩ := Runs.bind_inv hr
    obtain ⟨_, he⟩ := Runs.ret_inv h6
    cases he; rfl
  | proc k =>
    simp only [runStep, globalHandle, Prog.bind_ret] at hr
    obtain ⟨_, x, _, h6⟩ := Runs.bind_inv hr
    obtain ⟨_, he⟩ := Runs.ret_inv h6
    cases he; rfl

/-- the cell, once filled, never changes -/
theorem session_cell_some (env : Env) (hc : ProcH) (steps : List Step) :
    ∀ (h0 h1 : Hist) (rs : List (Except Err Fd)) (cell : Option ProcH),
      Runs (session env (some hc) steps) h0 h1 (rs, cell) → cell = some hc := by
  induction steps with
  | nil =>
    intro h0 h1 rs cell hr
    simp only [session] at hr
    obtain ⟨_, he⟩ := Runs.ret_inv hr
    cases he; rfl
  | cons s rest ih =>
    intro h0 h1 rs cell hr
    simp only [session] at hr
    obtain ⟨hm, rc, h1', h2⟩ := Runs.bind_inv hr
    obtain ⟨hm2, rs', h3, h4⟩ := Runs.bind_inv h2
    obtain ⟨_, he⟩ := Runs.ret_inv h4
    cases he
    obtain ⟨r, c1⟩ := rc
    have hc1 : c1 = some hc := runStep_cell_some env hc s _ _ _ _ h1'
    subst hc1
    exact ih _ _ _ _ h3

theorem created_trans (env : Env) (c0 c1 c : Option ProcH) (steps : List Step) (h0 h1 : Hist)
    (rs : List (Except Err Fd)) (hr : Runs (session env c1 steps) h0 h1 (rs, c))
    (h01 : ∀ h, c0 = some h → c1 = some h) :
    created c0 c = created c0 c1 ++ created c1 c := by
  cases c0 with
  | some h =>
    have := h01 h rfl
    subst this
    rfl
  | none =>
    cases c1 with
    | none => rfl
    | some h1c =>
      have := session_cell_some env h1c steps _ _ _ _ hr
      subst this
      rfl

theorem session_gen (env : Env) (ext : List Fd) (steps : List Step) (hs : ∀ s ∈ steps, StepOk ext s) :
    ∀ (cell0 : Option ProcH) (own : List Fd), CellInv ext own cell0 →
    ∀ (h0 : Hist) (l : Hist) (rs : List (Except Err Fd)) (cell : Option ProcH),
      Runs (session env cell0 steps) h0 (h0 ++ l) (rs, cell) → Fresh ext own l →
      anyFatal rs ∨ ∃ o, ledger own l = some o ∧ o.Perm (returned rs ++ created cell0 cell ++ own) := by
  induction steps with
  | nil =>
    intro cell0 own _ h0 l rs cell hr _
    simp only [session] at hr
    obtain ⟨hh, he⟩ := Runs.ret_inv hr
    cases he
    have hl : l = [] := List.append_right_eq_self.mp hh
    subst hl
    refine Or.inr ⟨own, rfl, ?_⟩
    rw [created_self]
    exact List.Perm.refl _
  | cons s rest ih =>
    intro cell0 own hi h0 l rs cell hr hf
    simp only [session] at hr
    obtain ⟨hm, rc, h1, h2⟩ := Runs.bind_inv hr
    obtain ⟨hm2, rs', h3, h4⟩ := Runs.bind_inv h2
    obtain ⟨rfl, he⟩ := Runs.ret_inv h4
    cases he
    obtain ⟨r, c1⟩ := rc
    obtain ⟨rs1, c2⟩ := rs'
    obtain ⟨la, rfl⟩ := h1.isPrefix
    obtain ⟨lb, hlb⟩ := h3.isPrefix
    have hl : l = la ++ lb := by
      rw [List.append_assoc] at hlb
      exact (List.append_cancel_left hlb).symm
    subst hl
    rw [fresh_append] at hf
    rw [anyFatal_cons]
    rcases run_step env ext s (hs s List.mem_cons_self) cell0 own hi h0 la r c1 h1 hf.1
      with hfat | ⟨oa, hoa, hpa, hia⟩
    · exact Or.inl (Or.inl hfat)
    · have h3' : Runs (session env c1 rest) (h0 ++ la) ((h0 ++ la) ++ lb) (rs1, c2) := by
        rw [List.append_assoc]; exact h3
      rcases ih (fun s hs' => hs s (List.mem_cons_of_mem _ hs')) c1 oa hia _ lb rs1 c2 h3' (hf.2 oa hoa)
        with hfat | ⟨ob, hob, hpb⟩
      · exact Or.inl (Or.inr hfat)
      · refine Or.inr ⟨ob, ?_, ?_⟩
        · rw [ledger_append, hoa]; exact hob
        · have h01 : ∀ h, cell0 = some h → c1 = some h := by
            intro h hc
            subst hc
            exact runStep_cell_some env h s _ _ _ _ h1
          rw [created_trans env cell0 c1 c2 rest _ _ rs1 h3 h01, returned_cons]
          rw [List.perm_iff_count] at hpa hpb ⊢
          intro a
          have e1 := hpa a
          have e2 := hpb a
          simp only [List.count_append] at e1 e2 ⊢
          omega

/-- **at most one long-lived descriptor.**  (`hcell`: a session may start with the cell already filled, its
descriptor then belongs to the caller's side `ext`.) -/
theorem session_balanced (env : Env) (ext : List Fd) (steps : List Step) (hs : ∀ s ∈ steps, StepOk ext s)
    (h0 : Hist) (l : Hist) (rs : List (Except Err Fd)) (cell : Option ProcH)
    (hr : Runs (session env none steps) h0 (h0 ++ l) (rs, cell)) (hf : Fresh ext [] l) :
    anyFatal rs ∨ ∃ o, ledger [] l = some o ∧ o.Perm (returned rs ++ cellFds cell) := by
  rcases session_gen env ext steps hs none [] (fun _ hh => by cases hh) h0 l rs cell hr hf
    with hfat | ⟨o, ho, hp⟩
  · exact Or.inl hfat
  · refine Or.inr ⟨o, ho, ?_⟩
    rw [List.append_nil] at hp
    exact hp

/-- a session that starts with the cell filled never creates another handle: the ledger ends with exactly the
returned descriptors -/
theorem session_balanced_filled (env : Env) (ext : List Fd) (hcell : ProcH) (hc : hcell.fd ∈ ext) (hc0 : 0 ≤ hcell.fd)
    (steps : List Step) (hs : ∀ s ∈ steps, StepOk ext s)
    (h0 : Hist) (l : Hist) (rs : List (Except Err Fd)) (cell : Option ProcH)
    (hr : Runs (session env (some hcell) steps) h0 (h0 ++ l) (rs, cell)) (hf : Fresh ext [] l) :
    cell = some hcell ∧ (anyFatal rs ∨ ∃ o, ledger [] l = some o ∧ o.Perm (returned rs)) := by
  refine ⟨session_cell_some env hcell steps _ _ _ _ hr, ?_⟩
  have hi : CellInv ext [] (some hcell) := by
    intro h hh
    cases hh
    exact ⟨hc0, hc⟩
  rcases session_gen env ext steps hs (some hcell) [] hi h0 l rs cell hr hf with hfat | ⟨o, ho, hp⟩
  · exact Or.inl hfat
  · refine Or.inr ⟨o, ho, ?_⟩
    simpa only [created, List.append_nil] using hp

/-! ## Non-vacuity

The hypothesis `StepOk` is satisfiable by real calls of the model: a plain `openat` wrapper call (`openat_led`) and
a re-open of a caller's descriptor through the global handle (`reopen_led`, with the handle taken from the cell);
so the theorem applies to every run of this two-call session started with an empty cell. -/

def exampleSteps (env : Env) : List Step :=
  [Step.plain (Sys.openat 3 b!"a" 0 0), Step.proc fun h => Procfs.reopen { env with proc := h } 3 0]

theorem exampleSteps_ok (env : Env) (ext : List Fd) : ∀ s ∈ exampleSteps env, StepOk ext s := by
  intro s hs
  simp only [exampleSteps, List.mem_cons, List.not_mem_nil, or_false] at hs
  rcases hs with rfl | rfl
  · intro ext' _
    exact balancedFd_of_led (openat_led 3 b!"a" 0 0)
  · intro ext' h _ _ _
    exact balancedFd_of_led (reopen_led { env with proc := h } 3 0)

example (env : Env) (ext : List Fd) (h0 l : Hist) (rs : List (Except Err Fd)) (cell : Option ProcH)
    (hr : Runs (session env none (exampleSteps env)) h0 (h0 ++ l) (rs, cell)) (hf : Fresh ext [] l) :
    anyFatal rs ∨ ∃ o, ledger [] l = some o ∧ o.Perm (returned rs ++ cellFds cell) :=
  session_balanced env ext (exampleSteps env) (exampleSteps_ok env ext) h0 l rs cell hr hf

end SessionLedger
