import Pathrs.SymlinkStack

/-!
# The symlink stack tracks the pending expansion (pure list lemmas)

`pre` is the part of the walk's remaining components that came out of symlink bodies (the pending
expansion).  `StackInv s pre` says that the stack's unwalked parts, read from the top entry down,
are exactly the components of `pre` that are not `""`/`"."`, and that an entry without unwalked parts
is on top only while such no-op components are next.  Under this invariant the stack operations
never report a broken stack.
-/

namespace SStack

/-- the components `do_push` keeps / `mkdir_all` creates: not `""`, not `"."` -/
def nd (p : Bytes) : Bool := !p.isEmpty && p != Path.dot

/-- unwalked parts from the top entry down -/
def flat (s : SStack) : List Bytes := (s.reverse.map (·.unwalked)).flatten

/-- what `pop_top_symlink` reports -/
def botOf (s : SStack) : Option (Fd × Bytes) := s.head?.map fun e => (e.dir, e.remaining)

structure StackInv (s : SStack) (pre : List Bytes) : Prop where
  flat_eq : pre.filter nd = flat s
  top_empty : ∀ e, s.getLast? = some e → e.unwalked = [] → ∃ c rest, pre = c :: rest ∧ nd c = false

theorem rev_ind {α : Type} {P : List α → Prop} (hnil : P []) (hsnoc : ∀ l a, P l → P (l ++ [a])) (l : List α) : P l := by
  have : ∀ r : List α, P r.reverse := by
    intro r
    induction r with
    | nil => exact hnil
    | cons a t ih => rw [List.reverse_cons]; exact hsnoc _ _ ih
  have h := this l.reverse
  rwa [List.reverse_reverse] at h

theorem flat_nil : flat [] = [] := rfl

theorem flat_concat (s : SStack) (e : SEntry) : flat (s ++ [e]) = e.unwalked ++ flat s := by
  simp [flat]

theorem inv_nil : StackInv [] [] := ⟨rfl, fun e h => by simp at h⟩

theorem nd_dot : nd Path.dot = false := by decide
theorem nd_empty : nd [] = false := by decide

theorem inv_empty_stack {pre : List Bytes} (h : StackInv [] pre) : pre.filter nd = [] := h.flat_eq

/-- `trim` drops exactly the trailing entries without unwalked parts -/
theorem trim_concat_nonempty (s : SStack) (e : SEntry) (h : e.unwalked ≠ []) : trim (s ++ [e]) = s ++ [e] := by
  unfold trim
  simp only [List.reverse_append, List.reverse_cons, List.reverse_nil, List.nil_append, List.singleton_append]
  rw [List.dropWhile_cons_of_neg (by simpa using h)]
  simp

theorem trim_concat_empty (s : SStack) (e : SEntry) (h : e.unwalked = []) : trim (s ++ [e]) = trim s := by
  unfold trim
  simp only [List.reverse_append, List.reverse_cons, List.reverse_nil, List.nil_append, List.singleton_append]
  rw [List.dropWhile_cons_of_pos (by simpa using h)]

theorem trim_nil : trim [] = [] := rfl

theorem flat_trim (s : SStack) : flat (trim s) = flat s := by
  induction s using rev_ind with
  | hnil => rfl
  | hsnoc s e ih =>
    by_cases h : e.unwalked = []
    · rw [trim_concat_empty s e h, ih, flat_concat, h, List.nil_append]
    · rw [trim_concat_nonempty s e h]

theorem trim_top (s : SStack) : ∀ e, (trim s).getLast? = some e → e.unwalked ≠ [] := by
  induction s using rev_ind with
  | hnil => intro e h; simp [trim_nil] at h
  | hsnoc s x ih =>
    by_cases h : x.unwalked = []
    · rw [trim_concat_empty s x h]; exact ih
    · rw [trim_concat_nonempty s x h]; intro e he; simp at he; rw [← he]; exact h

/-- `trim` keeps the bottom entry unless it removes everything -/
theorem trim_bot (s : SStack) : trim s = [] ∨ botOf (trim s) = botOf s := by
  induction s using rev_ind with
  | hnil => left; rfl
  | hsnoc s x ih =>
    by_cases h : x.unwalked = []
    · rw [trim_concat_empty s x h]
      rcases ih with h0 | h1
      · left; exact h0
      · cases s with
        | nil => left; rfl
        | cons a t => right; rw [h1]; simp [botOf]
    · right; rw [trim_concat_nonempty s x h]

theorem trim_inv {s : SStack} {pre : List Bytes} (hf : pre.filter nd = flat s) : StackInv (trim s) pre :=
  ⟨by rw [flat_trim]; exact hf, fun e he hu => absurd hu (trim_top s e he)⟩

/-- a no-op component (`""` walked as `"."`) -/
theorem popPart_dot (s : SStack) : popPart s Path.dot = .ok (trim s) := by
  simp [popPart, doPop]

theorem inv_skip_dot {s : SStack} {c : Bytes} {pre : List Bytes} (h : StackInv s (c :: pre)) (hc : nd c = false) :
    StackInv (trim s) pre := by
  apply trim_inv
  have := h.flat_eq
  simpa [List.filter_cons, hc] using this

/-- the shape of a stack whose pending expansion starts with a real component -/
theorem inv_top {s : SStack} {c : Bytes} {pre : List Bytes} (h : StackInv s (c :: pre)) (hc : nd c = true) :
    ∃ s0 e u, s = s0 ++ [e] ∧ e.unwalked = c :: u ∧ pre.filter nd = u ++ flat s0 := by
  have hf := h.flat_eq
  rw [List.filter_cons, if_pos hc] at hf
  rcases List.eq_nil_or_concat s with hs | ⟨s0, e, hs⟩
  · rw [hs] at hf; simp [flat_nil] at hf
  · rw [List.concat_eq_append] at hs
    rw [hs, flat_concat] at hf
    cases hu : e.unwalked with
    | nil =>
      obtain ⟨c', rest, hp, hn⟩ := h.top_empty e (by rw [hs]; simp) hu
      cases hp; rw [hc] at hn; cases hn
    | cons x u =>
      rw [hu] at hf
      simp only [List.cons_append, List.cons.injEq] at hf
      exact ⟨s0, e, u, hs, by rw [hf.1, hu], hf.2⟩

theorem doPop_top (s0 : SStack) (e : SEntry) (c : Bytes) (u : List Bytes) (hu : e.unwalked = c :: u)
    (hc : c ≠ Path.dot) : doPop (s0 ++ [e]) c = .ok (s0 ++ [{ e with unwalked := u }]) := by
  simp [doPop, hc, hu]

theorem nd_ne_dot {c : Bytes} (h : nd c = true) : c ≠ Path.dot := by
  intro hc; rw [hc] at h; exact absurd h (by decide)

/-- a real component that is not a symlink: popped, fully walked entries dropped -/
theorem popPart_real {s : SStack} {c : Bytes} {pre : List Bytes} (h : StackInv s (c :: pre)) (hc : nd c = true) :
    ∃ s', popPart s c = .ok s' ∧ StackInv s' pre ∧ (s' = [] ∨ botOf s' = botOf s) := by
  obtain ⟨s0, e, u, hs, hu, hf⟩ := inv_top h hc
  subst hs
  refine ⟨trim (s0 ++ [{ e with unwalked := u }]), ?_, ?_, ?_⟩
  · simp [popPart, doPop_top s0 e c u hu (nd_ne_dot hc)]
  · apply trim_inv; rw [flat_concat]; exact hf
  · rcases trim_bot (s0 ++ [{ e with unwalked := u }]) with h0 | h1
    · left; exact h0
    · right; rw [h1]; cases s0 <;> simp [botOf]

/-- outside every expansion the stack is empty and stays empty -/
theorem popPart_empty (c : Bytes) : popPart [] c = .ok [] := by
  by_cases hc : c = Path.dot
  · rw [hc, popPart_dot]; rfl
  · simp [popPart, doPop, hc]

theorem rawComponents_ne_nil (b : Bytes) : Path.rawComponents b ≠ [] := by
  unfold Path.rawComponents
  cases b with
  | nil => simp [Path.splitSlash]
  | cons c rest =>
    simp only [Path.splitSlash]
    split
    · simp
    · split <;> simp

/-- a real component that is a symlink, inside an expansion -/
theorem swapLink_real {s : SStack} {c : Bytes} {pre : List Bytes} (h : StackInv s (c :: pre)) (hc : nd c = true)
    (dir : Fd) (remaining target : Bytes) :
    ∃ s', swapLink s c dir remaining target = .ok s' ∧ StackInv s' (Path.rawComponents target ++ pre) ∧
      s' ≠ [] ∧ botOf s' = botOf s := by
  obtain ⟨s0, e, u, hs, hu, hf⟩ := inv_top h hc
  subst hs
  refine ⟨doPush (s0 ++ [{ e with unwalked := u }]) dir remaining target, ?_, ?_, ?_, ?_⟩
  · simp [swapLink, doPop_top s0 e c u hu (nd_ne_dot hc)]
  · constructor
    · simp only [doPush, flat_concat, List.filter_append]
      rw [hf]; rfl
    · intro e' he' hu'
      simp only [doPush, List.getLast?_append, List.getLast?_singleton, Option.some_or, Option.some.injEq] at he'
      rw [← he'] at hu'
      simp only at hu'
      cases hr : Path.rawComponents target with
      | nil => exact absurd hr (rawComponents_ne_nil target)
      | cons x xs =>
        refine ⟨x, xs ++ pre, rfl, ?_⟩
        rw [hr] at hu'
        simp only [List.filter_cons] at hu'
        by_cases hx : (!x.isEmpty && x != Path.dot) = true
        · rw [if_pos hx] at hu'; cases hu'
        · simpa [nd] using hx
  · simp [doPush]
  · cases s0 <;> simp [doPush, botOf]

/-- a symlink outside every expansion starts one -/
theorem swapLink_empty (c : Bytes) (hc : nd c = true) (dir : Fd) (remaining target : Bytes) :
    ∃ s', swapLink [] c dir remaining target = .ok s' ∧ StackInv s' (Path.rawComponents target ++ []) ∧
      botOf s' = some (dir, remaining) := by
  refine ⟨doPush [] dir remaining target, ?_, ?_, ?_⟩
  · simp [swapLink, doPop, nd_ne_dot hc]
  · constructor
    · simp [doPush, flat]
      rfl
    · intro e' he' hu'
      simp only [doPush, List.nil_append, List.getLast?_singleton, Option.some.injEq] at he'
      rw [← he'] at hu'
      simp only at hu'
      cases hr : Path.rawComponents target with
      | nil => exact absurd hr (rawComponents_ne_nil target)
      | cons x xs =>
        refine ⟨x, xs ++ [], rfl, ?_⟩
        rw [hr] at hu'
        simp only [List.filter_cons] at hu'
        by_cases hx : (!x.isEmpty && x != Path.dot) = true
        · rw [if_pos hx] at hu'; cases hu'
        · simpa [nd] using hx
  · simp [doPush, botOf]

end SStack

namespace SStack

/-- outside every expansion the stack is empty -/
theorem inv_nil_pre {s : SStack} (h : StackInv s []) : s = [] := by
  rcases List.eq_nil_or_concat s with hs | ⟨s0, e, hs⟩
  · exact hs
  · rw [List.concat_eq_append] at hs
    have hf := h.flat_eq
    rw [hs, flat_concat] at hf
    simp only [List.filter_nil] at hf
    have hu : e.unwalked = [] := by
      cases hu : e.unwalked with
      | nil => rfl
      | cons x u => rw [hu] at hf; cases hf
    obtain ⟨c, rest, hp, _⟩ := h.top_empty e (by rw [hs]; simp) hu
    cases hp

theorem inv_top_ne {s : SStack} {c : Bytes} {pre : List Bytes} (h : StackInv s (c :: pre)) (hc : nd c = true) : s ≠ [] := by
  obtain ⟨s0, e, u, hs, _, _⟩ := inv_top h hc
  rw [hs]; simp

theorem trim_of_nil {s : SStack} (h : s = []) : trim s = [] := by rw [h]; rfl

end SStack
