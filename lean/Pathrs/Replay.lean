import Pathrs.Root

/-!
# Transcript replay: run a model program against the recorded answers of the
implementation and demand the same calls in the same order.
-/

/-- The verdict of a replay. -/
inductive ReplayResult (α : Type) where
  /-- the model ended; descriptors the model closed, what is left of the transcript -/
  | done (a : α) (modelCloses : List Fd) (rest : Hist) (steps : Nat)
  /-- the model asked for `model` where the implementation did `impl` -/
  | mismatch (step : Nat) (model : Call) (impl : Option Call) (modelCloses : List Fd)
deriving Repr

def isClose : Call → Bool
  | .close _ => true
  | _ => false

/-- drop leading `close` events of the implementation transcript -/
def skipCloses : Hist → Hist
  | (c, r) :: rest => if isClose c then skipCloses rest else (c, r) :: rest
  | [] => []

/-- Replay.  `close` calls of the model are answered immediately and collected;
`close` events of the implementation are skipped here and compared as a multiset
afterwards (Rust's drop order is not modelled, the set of drops is). -/
def replay : Prog α → Hist → List Fd → Nat → ReplayResult α
  | .ret a, evs, closes, n => .done a closes evs n
  | .call c k, evs, closes, n =>
    match c with
    | .close fd => replay (k .unit) evs (fd :: closes) n
    | _ =>
      match skipCloses evs with
      | [] => .mismatch n c none closes
      | (c', r) :: rest =>
        if c = c' then replay (k r) rest closes (n + 1)
        else .mismatch n c (some c') closes

/-- The closes of the implementation that concern descriptors returned by a
recorded call (others belong to library internals such as `Dir`). -/
def trackedCloses (evs : Hist) (initial : List Fd) : List Fd :=
  let rec go : Hist → List Fd → List Fd → List Fd
    | [], _, acc => acc
    | (c, r) :: rest, opened, acc =>
      match c with
      | .close fd =>
        if opened.contains fd then go rest (opened.erase fd) (fd :: acc) else go rest opened acc
      | _ =>
        match r with
        | .fd n => go rest (n :: opened) acc
        | _ => go rest opened acc
  go evs initial []

def sortFds (l : List Fd) : List Fd := (l.toArray.qsort (· < ·)).toList
