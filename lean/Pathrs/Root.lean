import Pathrs.Opath

/-!
# Kernel resolver (`src/resolvers/openat2.rs`), dispatch (`src/resolvers.rs`),
`Root` operations (`src/root.rs`) and `remove_all` (`src/utils/dir.rs`)
-/

open K

namespace Openat2

/-- `openat2::open` (one-shot) -/
def openOnce (env : Env) (root : Fd) (path : Bytes) (rflags oflags : Nat) : M Fd :=
  if !env.openat2 then throw .notSupported else
  let oflags := if hasAll oflags O_PATH then oflags else oflags ||| O_NOCTTY
  Sys.openat2 root path oflags (RESOLVE_IN_ROOT ||| RESOLVE_NO_MAGICLINKS ||| rflags)

/-- the 16-try loop of `openat2::resolve` -/
def resolveLoop (root : Fd) (path : Bytes) (oflags resolve : Nat) : Nat → M Fd
  | 0 => throw .safetyViolation
  | n + 1 => do
    match ← M.try' (Sys.openat2 root path oflags resolve) with
    | .ok fd => pure fd
    | .error (.os e) =>
      if e = ENOSYS then throw .notSupported
      else if e = EAGAIN then resolveLoop root path oflags resolve n
      else throw (.os e)
    | .error e => throw e

/-- `openat2::resolve` -/
def resolve (env : Env) (root : Fd) (path : Bytes) (rflags : Nat) (nofollow : Bool) : M Fd :=
  if !env.openat2 then throw .notSupported else
  let oflags := if nofollow then O_PATH ||| O_NOFOLLOW else O_PATH
  resolveLoop root path oflags (RESOLVE_IN_ROOT ||| RESOLVE_NO_MAGICLINKS ||| rflags) 16

def Err.isSafetyViolation : Err → Bool
  | .safetyViolation => true
  | .os e => e = EXDEV
  | _ => false

/-- the ancestor-probing loop of `openat2::resolve_partial` -/
def probe (env : Env) (root : Fd) (rflags : Nat) (nofollow : Bool) :
    List (Bytes × Option Bytes) → Err → M (Lookup Fd)
  | [], lastErr => throw lastErr
  | (p, remaining) :: rest, lastErr => do
    if Err.isSafetyViolation lastErr then throw lastErr else
    match ← M.try' (resolve env root p rflags nofollow) with
    | .ok h => pure (.part h (remaining.getD []) lastErr)
    | .error e => probe env root rflags nofollow rest e

/-- `openat2::resolve_partial` -/
def resolvePartial (env : Env) (root : Fd) (path : Bytes) (rflags : Nat) (nofollow : Bool) :
    M (Lookup Fd) := do
  match ← M.try' (resolve env root path rflags nofollow) with
  | .ok h => pure (.complete h)
  | .error e => probe env root rflags nofollow (Path.partialAncestors path) e

end Openat2

/-- `Resolver`: backend and flags of a `Root` -/
structure Resolver where
  emulated : Bool
  rflags : Nat
deriving Repr, Inhabited

namespace Resolver

def resolve (env : Env) (r : Resolver) (root : Fd) (path : Bytes) (nofollow : Bool) : M Fd :=
  if r.emulated then Opath.resolve env root path r.rflags nofollow
  else Openat2.resolve env root path r.rflags nofollow

def resolvePartial (env : Env) (r : Resolver) (root : Fd) (path : Bytes) (nofollow : Bool) :
    M (Lookup Fd) :=
  if r.emulated then Opath.resolvePartial env root path r.rflags nofollow
  else Openat2.resolvePartial env root path r.rflags nofollow

/-- `Resolver::open` (one-shot open) -/
def openOnce (env : Env) (r : Resolver) (root : Fd) (path : Bytes) (flags : Nat) : M Fd :=
  if hasAny flags (O_CREAT ||| O_EXCL) || hasAll flags O_TMPFILE then throw .invalidArgument
  else if !r.emulated then Openat2.openOnce env root path r.rflags flags
  else do
    let handle ← resolve env r root path (hasAll flags O_NOFOLLOW)
    let st ← (Sys.fstatat handle []).onErr (Sys.close handle)
    if st.isSymlink then
      if hasAll flags O_DIRECTORY then
        (Sys.close handle : Prog Unit)
        throw (.os ENOTDIR)
      else if hasAll flags O_PATH then pure handle
      else
        (Sys.close handle : Prog Unit)
        throw (.os ELOOP)
    else
      let res ← M.try' (Procfs.reopen env handle flags)
      (Sys.close handle : Prog Unit)
      M.ofExcept res

end Resolver

namespace RemoveAll

/-- `ignore_enoent` -/
def ignoreEnoent (p : M Unit) : M Unit := do
  match ← M.try' p with
  | .ok () => pure ()
  | .error (.os e) => if e = ENOENT then pure () else throw (.os e)
  | .error e => throw e

/-- `remove_inode` of `utils/dir.rs`: `unlinkat`, then `rmdir`; an `ENOTDIR` from
`rmdir` reports the `unlinkat` error instead. -/
def removeInode (dir : Fd) (name : Bytes) : M Unit := do
  match ← M.try' (Sys.unlinkat dir name 0) with
  | .ok () => pure ()
  | .error unlinkErr =>
    match ← M.try' (Sys.unlinkat dir name AT_REMOVEDIR) with
    | .ok () => pure ()
    | .error rmdirErr => if rmdirErr = .os ENOTDIR then throw unlinkErr else throw rmdirErr

inductive DirItem where
  | entry (name : Bytes) | fin | err (e : Nat)

/-- next entry of the directory stream that is not `.` or `..` -/
def nextEntry (fd : Fd) : Nat → M DirItem
  | 0 => throw (.outOfFuel "directory stream")
  | n + 1 => do
    match ← M.call (.dirNext fd) with
    | .bytes name => if name = Path.dot ∨ name = Path.dotdot then nextEntry fd n else pure (.entry name)
    | .fin => pure .fin
    | .err e => pure (.err e)
    | _ => throw (.badResp "dir_next")

/-- the children of one scan, starting with the peeked one -/
def children (rm : Fd → Bytes → M Unit) (subdir : Fd) (streamFuel : Nat) : DirItem → Nat → M Unit
  | _, 0 => throw (.outOfFuel "remove_all children")
  | .fin, _ + 1 => pure ()
  | .err e, _ + 1 => throw (.os e)
  | .entry child, n + 1 => do
    ignoreEnoent (rm subdir child)
    let nxt ← nextEntry subdir streamFuel
    children rm subdir streamFuel nxt n

/-- the rescan loop -/
def scan (rm : Fd → Bytes → M Unit) (subdir : Fd) (streamFuel : Nat) : Nat → M Unit
  | 0 => throw (.outOfFuel "remove_all rescan")
  | n + 1 => do
    match ← M.call (.dirOpen subdir) with
    | .unit =>
      match ← nextEntry subdir streamFuel with
      | .fin => pure ()
      | first => do
        children rm subdir streamFuel first streamFuel
        scan rm subdir streamFuel n
    | .err e => if e = ENOENT then pure () else throw (.os e)
    | _ => throw (.badResp "dir_open")

/-- open the entry as a directory; `ENOENT` means somebody else removed it -/
def openSubdir (dir : Fd) (name : Bytes) : M (Option Fd) := do
  match ← M.try' (Sys.openat dir name O_DIRECTORY 0) with
  | .ok fd => pure (some fd)
  | .error (.os e) => if e = ENOENT then pure none else throw (.os e)
  | .error e => throw e

/-- empty the opened directory, then remove it -/
def emptyDir (rm : Fd → Bytes → M Unit) (dir : Fd) (name : Bytes) (subdir : Fd) (fuel : Nat) :
    M Unit := do
  (scan rm subdir fuel fuel).onErr (Sys.close subdir)
  let r ← M.try' (ignoreEnoent (removeInode dir name))
  (Sys.close subdir : Prog Unit)
  M.ofExcept r

/-- `remove_all` of `utils/dir.rs`.  Both the recursion into sub-directories and
the rescan loop are driven by what the environment lists, so the model takes
fuel. -/
def removeAll : Nat → Fd → Bytes → M Unit
  | 0, _, _ => throw (.outOfFuel "remove_all")
  | fuel + 1, dir, name =>
    if Path.containsSlash name then throw .safetyViolation else
    if name = Path.dot ∨ name = Path.dotdot then throw .invalidArgument else do
    let removed ← M.isOk (ignoreEnoent (removeInode dir name))
    if removed then pure () else do
    let sub ← openSubdir dir name
    match sub with
    | none => pure ()
    | some subdir => emptyDir (removeAll fuel) dir name subdir fuel

end RemoveAll

/-- The kinds of inode `Root::create` can make. -/
inductive InodeType where
  | file (perm : Nat)
  | directory (perm : Nat)
  | symlink (target : Bytes)
  | hardlink (target : Bytes)
  | fifo (perm : Nat)
  | charDev (perm dev : Nat)
  | blockDev (perm dev : Nat)
deriving Repr

structure Root where
  fd : Fd
  resolver : Resolver
deriving Repr

namespace Root

def clearFmt (mode : Nat) : Nat := clearBits mode S_IFMT

/-- `resolve_parent` -/
def resolveParent (env : Env) (root : Root) (path : Bytes) : M (Fd × Option Bytes) := do
  let (parent, name) ← (Path.pathSplit path : Except Err _)
  let dir ← Resolver.resolve env root.resolver root.fd parent false
  pure (dir, name)

def resolve (env : Env) (root : Root) (path : Bytes) (nofollow : Bool) : M Fd :=
  Resolver.resolve env root.resolver root.fd path nofollow

def openSubpath (env : Env) (root : Root) (path : Bytes) (flags : Nat) : M Fd :=
  Resolver.openOnce env root.resolver root.fd path flags

/-- `readlink` -/
def readlink (env : Env) (root : Root) (path : Bytes) : M Bytes := do
  let link ← resolve env root path true
  let r ← M.try' (Sys.readlinkat link [])
  (Sys.close link : Prog Unit)
  M.ofExcept r

/-- the single `*at` call of `create` for each inode type -/
def createCall (env : Env) (root : Root) (dir : Fd) (name : Bytes) : InodeType → M Unit
  | .file perm => Sys.mknodat dir name (S_IFREG ||| clearFmt perm) 0
  | .directory perm => Sys.mkdirat dir name (clearFmt perm)
  | .symlink target => Sys.symlinkat target dir name
  | .hardlink target => do
    let (olddir, oldname) ← resolveParent env root target
    match oldname with
    | none =>
      (Sys.close olddir : Prog Unit)
      throw .invalidArgument
    | some oldname =>
      let r ← M.try' (Sys.linkat olddir oldname dir name 0)
      (Sys.close olddir : Prog Unit)
      M.ofExcept r
  | .fifo perm => Sys.mknodat dir name (S_IFIFO ||| clearFmt perm) 0
  | .charDev perm dev => Sys.mknodat dir name (S_IFCHR ||| clearFmt perm) dev
  | .blockDev perm dev => Sys.mknodat dir name (S_IFBLK ||| clearFmt perm) dev

/-- `create` -/
def create (env : Env) (root : Root) (path : Bytes) (ty : InodeType) : M Unit := do
  let (dir, name) ← resolveParent env root path
  match name with
  | none =>
    (Sys.close dir : Prog Unit)
    throw .invalidArgument
  | some name =>
    let r ← M.try' (createCall env root dir name ty)
    (Sys.close dir : Prog Unit)
    M.ofExcept r

/-- the creating open of `create_file`.  "." and ".." are refused before the call: with `O_PATH` the kernel ignores
`O_CREAT`, and the open would be a plain lookup of `..` below the resolved parent. -/
def createFileOpen (dir : Fd) (name : Bytes) (flags perm : Nat) : M Fd :=
  if name = Path.dot ∨ name = Path.dotdot then throw (.os EISDIR)
  else Sys.openat dir name (flags ||| O_CREAT) perm

/-- `create_file` -/
def createFile (env : Env) (root : Root) (path : Bytes) (flags perm : Nat) : M Fd := do
  let (dir, name) ← resolveParent env root path
  match name with
  | none =>
    (Sys.close dir : Prog Unit)
    throw .invalidArgument
  | some name =>
    let r ← M.try' (createFileOpen dir name flags perm)
    (Sys.close dir : Prog Unit)
    M.ofExcept r

/-- `mkdirat` that tolerates `EEXIST` -/
def mkdirTolerant (cur : Fd) (part : Bytes) (perm : Nat) : M Unit := do
  match ← M.try' (Sys.mkdirat cur part perm) with
  | .ok () => pure ()
  | .error e => if e ≠ .os EEXIST then throw e else pure ()

/-- the directory-creating loop of `mkdir_all` -/
def mkdirLoop (perm : Nat) : Fd → List Bytes → M Fd
  | cur, [] => pure cur
  | cur, part :: rest =>
    if Path.containsSlash part then
      M.bind' (M.lift (Sys.close cur)) fun _ => throw .safetyViolation
    else do
    (mkdirTolerant cur part perm).onErr (Sys.close cur)
    let next ← (Sys.openat cur part (O_NOFOLLOW ||| O_DIRECTORY) 0).onErr (Sys.close cur)
    (Sys.close cur : Prog Unit)
    mkdirLoop perm next rest

/-- `resolve_partial(..).and_then(TryInto::<(Handle, Option<PathBuf>)>::try_into)` -/
def partialTarget (env : Env) (root : Root) (path : Bytes) : M (Fd × Option Bytes) := do
  match ← Resolver.resolvePartial env root.resolver root.fd path false with
  | .complete h => pure (h, none)
  | .part h rem e =>
    if e = .os ENOENT then pure (h, some rem)
    else
      (Sys.close h : Prog Unit)
      throw e

/-- the not-yet-existing components `mkdir_all` will create -/
def remainingParts (remaining : Option Bytes) : List Bytes :=
  let comps : List Bytes := match remaining with
    | none => []
    | some rem => Path.rawComponents rem
  comps.filter fun p => !p.isEmpty && p != Path.dot

/-- `mkdir_all` after the partial lookup: reopen, refuse `..`, create -/
def mkdirFrom (env : Env) (perm : Nat) (handle : Fd) (remaining : Option Bytes) : M Fd := do
  let cur ← (Procfs.reopen env handle O_DIRECTORY).onErr
    -- the error message freezes the handle (`FrozenFd::from(handle)`)
    (Prog.bind (Sys.freeze handle) fun _ => Sys.close handle)
  let parts := remainingParts remaining
  if parts.any (· == Path.dotdot) then
    (Sys.closeAll [cur, handle] : Prog Unit)
    throw (Err.os ENOENT)
  else
    let r ← M.try' (mkdirLoop perm cur parts)
    (Sys.close handle : Prog Unit)
    M.ofExcept r

/-- `mkdir_all` -/
def mkdirAll (env : Env) (root : Root) (path : Bytes) (perm : Nat) : M Fd :=
  if clearBits perm 0o7777 ≠ 0 then throw .invalidArgument else
  if clearBits perm 0o1777 ≠ 0 then throw .invalidArgument else
  -- the empty path names nothing (not even the root)
  if path = [] then throw (.os ENOENT) else do
  let (handle, remaining) ← partialTarget env root path
  mkdirFrom env perm handle remaining

/-- `remove_inode` of `root.rs` (`remove_file` / `remove_dir`) -/
def removeInode (env : Env) (root : Root) (path : Bytes) (isDir : Bool) : M Unit := do
  let (dir, name) ← resolveParent env root path
  match name with
  | none =>
    (Sys.close dir : Prog Unit)
    throw .invalidArgument
  | some name =>
    let r ← M.try' (Sys.unlinkat dir name (if isDir then AT_REMOVEDIR else 0))
    (Sys.close dir : Prog Unit)
    M.ofExcept r

def removeAllFuel : Nat := 100000

/-- `remove_all` -/
def removeAll (env : Env) (root : Root) (path : Bytes) : M Unit := do
  let (dir, name) ← resolveParent env root path
  match name with
  | none =>
    (Sys.close dir : Prog Unit)
    throw .invalidArgument
  | some name =>
    let r ← M.try' (RemoveAll.removeAll removeAllFuel dir name)
    (Sys.close dir : Prog Unit)
    M.ofExcept r

/-- `rename` -/
def rename (env : Env) (root : Root) (src dst : Bytes) (rflags : Nat) : M Unit := do
  let (srcDir, srcName) ← resolveParent env root src
  match srcName with
  | none =>
    (Sys.close srcDir : Prog Unit)
    throw .invalidArgument
  | some srcName =>
    let (dstDir, dstName) ← (resolveParent env root dst).onErr (Sys.close srcDir)
    match dstName with
    | none =>
      (Sys.closeAll [dstDir, srcDir] : Prog Unit)
      throw .invalidArgument
    | some dstName =>
      let r ← M.try' (Sys.renameat2 srcDir srcName dstDir dstName rflags)
      (Sys.close srcDir : Prog Unit)
      (Sys.close dstDir : Prog Unit)
      M.ofExcept r

end Root
