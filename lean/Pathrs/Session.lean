import Pathrs.Procfs

/-!
# The process-global procfs handle (`src/procfs.rs`: `GLOBAL_PROCFS_CELL`)

```rust
static GLOBAL_PROCFS_CELL: OnceCell<ProcfsHandle> = OnceCell::new();
pub(crate) fn global_procfs_handle() -> Result<&'static ProcfsHandle, Error> {
    GLOBAL_PROCFS_CELL.get_or_try_init(ProcfsHandle::new)
}
```

Every operation of the model takes the handle as `env.proc`.  Here the cell itself is modelled: the handle is created
by whichever library call needs it first and then kept for the life of the process; a failed creation leaves the
cell empty, the call fails, and the next call tries again (finding F9d).  A *session* is a sequence of library
calls of one process threading the cell.
-/

open K

namespace Session

/-- `GLOBAL_PROCFS_CELL.get_or_try_init(ProcfsHandle::new)` -/
def globalHandle (env : Env) (cell : Option ProcH) : Prog (Except Err ProcH × Option ProcH) :=
  match cell with
  | some h => .ret (.ok h, some h)
  | none => Prog.bind (Procfs.new env) fun r =>
      match r with
      | .ok h => .ret (.ok h, some h)
      | .error e => .ret (.error e, none)

/-- a library call: one that never touches procfs, or one that first obtains the global handle -/
inductive Step where
  | plain (k : M Fd)
  | proc (k : ProcH → M Fd)

def runStep (env : Env) (cell : Option ProcH) : Step → Prog (Except Err Fd × Option ProcH)
  | .plain k => Prog.bind k fun r => .ret (r, cell)
  | .proc k => Prog.bind (globalHandle env cell) fun rc =>
      match rc.1 with
      | .ok h => Prog.bind (k h) fun r => .ret (r, rc.2)
      | .error e => .ret (.error e, rc.2)

/-- the calls of one process, in order; the results of all of them and the final state of the cell -/
def session (env : Env) : Option ProcH → List Step → Prog (List (Except Err Fd) × Option ProcH)
  | cell, [] => .ret ([], cell)
  | cell, s :: rest => Prog.bind (runStep env cell s) fun rc =>
      Prog.bind (session env rc.2 rest) fun rs => .ret (rc.1 :: rs.1, rs.2)

/-- the descriptors handed back to the caller -/
def returned : List (Except Err Fd) → List Fd
  | [] => []
  | .ok fd :: rest => fd :: returned rest
  | .error _ :: rest => returned rest

def cellFds : Option ProcH → List Fd
  | some h => [h.fd]
  | none => []

end Session
