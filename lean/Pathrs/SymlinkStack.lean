import Pathrs.Path

/-!
# The symlink stack of the emulated partial lookup
(`src/resolvers/opath/symlink_stack.rs`)
-/

structure SEntry where
  dir : Fd
  remaining : Bytes
  unwalked : List Bytes
deriving Repr, DecidableEq, Inhabited

/-- front of the `VecDeque` = head of the list; `push_back` appends. -/
abbrev SStack := List SEntry

inductive SErr where
  | emptyStack | brokenEmpty | brokenWrong
deriving Repr, DecidableEq

namespace SStack

def doPush (s : SStack) (dir : Fd) (remaining target : Bytes) : SStack :=
  s ++ [{ dir, remaining,
          unwalked := (Path.rawComponents target).filter fun p => !p.isEmpty && p != Path.dot }]

def doPop (s : SStack) (part : Bytes) : Except SErr SStack :=
  if part = Path.dot then .ok s
  else match s.getLast? with
    | none => .error .emptyStack
    | some e =>
      match e.unwalked with
      | [] => .error .brokenEmpty
      | exp :: rest =>
        if exp ≠ part then .error .brokenWrong
        else .ok (s.dropLast ++ [{ e with unwalked := rest }])

/-- drop fully walked entries from the back -/
def trim (s : SStack) : SStack :=
  (s.reverse.dropWhile fun e => e.unwalked.isEmpty).reverse

def popPart (s : SStack) (part : Bytes) : Except SErr SStack :=
  match doPop s part with
  | .error .emptyStack => .ok s
  | .error e => .error e
  | .ok s' => .ok (trim s')

def swapLink (s : SStack) (linkPart : Bytes) (dir : Fd) (remaining target : Bytes) :
    Except SErr SStack :=
  match doPop s linkPart with
  | .error .emptyStack => .ok (doPush s dir remaining target)
  | .ok s' => .ok (doPush s' dir remaining target)
  | .error e => .error e

def popTopSymlink (s : SStack) : Option (Fd × Bytes) × SStack :=
  match s with
  | [] => (none, [])
  | e :: rest => (some (e.dir, e.remaining), rest)

def dirs (s : SStack) : List Fd := s.map (·.dir)

end SStack
