import Pathrs.Path
import Pathrs.Flags

/-!
# The syscall wrappers of `src/syscalls.rs`

Each wrapper forces its flags, makes exactly one call and, on failure, builds an
error value whose construction *itself* talks to the kernel: `FrozenFd::from`
resolves `/proc/thread-self/fd/N` for the message text (`freeze` below).
-/

open K

/-- process-wide configuration a run depends on -/
structure ProcH where
  fd : Fd
  mntId : Option Nat
  isSubset : Bool
  emulated : Bool
deriving Repr, DecidableEq, Inhabited

structure Env where
  /-- the process-global procfs handle (`GLOBAL_PROCFS_HANDLE`) -/
  proc : ProcH
  /-- `OPENAT2_IS_SUPPORTED` -/
  openat2 : Bool
  /-- cached `fs.protected_symlinks` -/
  protectedSymlinks : Nat
deriving Repr, Inhabited

namespace Sys

/-- `hotfix_rustix_fd` -/
def hotfix (fd : Fd) : Except Err Unit :=
  if fd = AT_FDCWD ∨ fd ≥ 0 then .ok () else .error (.os EBADF)

/-- `proc_subpath` of `utils/fd.rs` -/
def procSubpath (fd : Fd) : Except Err Bytes :=
  if fd = AT_FDCWD then .ok b!"cwd"
  else if fd ≥ 0 then .ok (b!"fd/" ++ Path.decimal fd.toNat)
  else .error .invalidArgument

def gettid : Prog Nat :=
  .call .gettid fun
    | .nums [n] => .ret n
    | _ => .ret 0

def geteuid : Prog Nat :=
  .call .geteuid fun
    | .nums [n] => .ret n
    | _ => .ret 0

/-- the three candidate spellings of the thread-self directory -/
def threadSelfCandidates (tid : Nat) : List Bytes :=
  [b!"thread-self", b!"self/task/" ++ Path.decimal tid, b!"self"]

/-- The diagnostic lookup done while an error value is built
(`FrozenFd::from` → `as_unsafe_path_unchecked`).  A failing probe builds another
error value, hence the recursion; the real code has no bound, the model stops
after `fuel` nested failures and reports `false`.  The result of the lookup is
only used for message text. -/
def freeze : Nat → Fd → Prog Bool
  | 0, _ => .ret false
  | fuel + 1, fd =>
    -- ProcfsBase::ProcThreadSelf.into_path(None)
    Prog.bind gettid fun tid =>
    let rec probe : List Bytes → Prog (Option (Option Bytes))
      | [] => .ret (some none)      -- `expect("at least one candidate ...")` panics
      | cand :: rest =>
        .call (.fstatat AT_FDCWD (b!"/proc/" ++ cand) STAT_FLAGS) fun
          | .err _ => Prog.bind (freeze fuel AT_FDCWD) fun ok => if ok then probe rest else .ret none
          | _ => .ret (some (some cand))
    Prog.bind (probe (threadSelfCandidates tid)) fun
      | none => .ret false
      | some none => .ret false
      | some (some base) =>
        match procSubpath fd with
        | .error _ => .ret true
        | .ok sub => .call (.readlinkAbs (b!"/proc/" ++ base ++ b!"/" ++ sub)) fun _ => .ret true

def diagFuel : Nat := 3

/-- build an `OsError e` after freezing the descriptors named in the message -/
def failWith (fds : List Fd) (e : Nat) : M α :=
  let rec go : List Fd → Prog (Except Err α)
    | [] => .ret (.error (.os e))
    | fd :: rest => Prog.bind (freeze diagFuel fd) fun ok =>
        if ok then go rest else .ret (.error (.panic "error-message construction recursed or found no /proc/thread-self"))
  go fds

/-- `openat_follow`: adds `O_CLOEXEC|O_NOCTTY` -/
def openatFollow (dir : Fd) (name : Bytes) (flags mode : Nat) : M Fd := do
  hotfix dir
  let flags := flags ||| O_CLOEXEC ||| O_NOCTTY
  match ← M.call (.openat dir name flags mode) with
  | .fd n => pure n
  | .err e => failWith [dir] e
  | _ => throw (.badResp "openat")

/-- `openat`: adds `O_NOFOLLOW|O_CLOEXEC|O_NOCTTY` -/
def openat (dir : Fd) (name : Bytes) (flags mode : Nat) : M Fd :=
  openatFollow dir name (flags ||| O_NOFOLLOW) mode

/-- `openat2`: adds `O_CLOEXEC`; a path with an embedded NUL is refused before
the call (the C string handed to the kernel would end there) -/
def openat2 (dir : Fd) (path : Bytes) (flags resolve : Nat) : M Fd :=
  if path.contains 0 then do
    hotfix dir
    failWith [dir] EINVAL
  else do
  hotfix dir
  let flags := flags ||| O_CLOEXEC
  match ← M.call (.openat2 dir (Path.toCString path) flags 0 resolve OPEN_HOW_SIZE) with
  | .fd n => pure n
  | .err e => failWith [dir] e
  | _ => throw (.badResp "openat2")

/-- `readlinkat` with the 128 KiB buffer; a full buffer is `ENAMETOOLONG` -/
def readlinkat (dir : Fd) (name : Bytes) : M Bytes := do
  hotfix dir
  match ← M.call (.readlinkat dir name READLINK_BUF) with
  | .bytes b => if b.length ≥ READLINK_BUF then failWith [dir] ENAMETOOLONG else pure b
  | .err e => failWith [dir] e
  | _ => throw (.badResp "readlinkat")

structure Stat where
  mode : Nat
  uid : Nat
  ino : Nat
deriving Repr, DecidableEq, Inhabited

def Stat.isSymlink (s : Stat) : Bool := s.mode &&& S_IFMT = S_IFLNK

/-- `fstatat`: always `AT_NO_AUTOMOUNT|AT_SYMLINK_NOFOLLOW|AT_EMPTY_PATH` -/
def fstatat (dir : Fd) (name : Bytes) : M Stat := do
  hotfix dir
  match ← M.call (.fstatat dir name STAT_FLAGS) with
  | .nums (mode :: uid :: ino :: _) => pure { mode, uid, ino }
  | .err e => failWith [dir] e
  | _ => throw (.badResp "fstatat")

/-- `statx` with the forced flags; returns (mask, mnt_id) -/
def statx (dir : Fd) (name : Bytes) (mask : Nat) : M (Nat × Nat) := do
  hotfix dir
  match ← M.call (.statx dir name STAT_FLAGS mask) with
  | .nums [m, id] => pure (m, id)
  | .err e => failWith [dir] e
  | _ => throw (.badResp "statx")

def fstatfs (fd : Fd) : M Nat := do
  hotfix fd
  match ← M.call (.fstatfs fd) with
  | .nums [t] => pure t
  | .err e => failWith [fd] e
  | _ => throw (.badResp "fstatfs")

def unitCall (c : Call) (fds : List Fd) (site : String) : M Unit := do
  match ← M.call c with
  | .unit => pure ()
  | .err e => failWith fds e
  | _ => throw (.badResp site)

def mkdirat (dir : Fd) (name : Bytes) (mode : Nat) : M Unit := do
  hotfix dir
  unitCall (.mkdirat dir name mode) [dir] "mkdirat"

def mknodat (dir : Fd) (name : Bytes) (mode dev : Nat) : M Unit := do
  hotfix dir
  unitCall (.mknodat dir name mode dev) [dir] "mknodat"

def unlinkat (dir : Fd) (name : Bytes) (flags : Nat) : M Unit := do
  hotfix dir
  unitCall (.unlinkat dir name flags) [dir] "unlinkat"

def linkat (odir : Fd) (oname : Bytes) (ndir : Fd) (nname : Bytes) (flags : Nat) : M Unit := do
  hotfix odir
  hotfix ndir
  unitCall (.linkat odir oname ndir nname flags) [odir, ndir] "linkat"

def symlinkat (target : Bytes) (dir : Fd) (name : Bytes) : M Unit := do
  hotfix dir
  unitCall (.symlinkat target dir name) [dir] "symlinkat"

def renameat (odir : Fd) (oname : Bytes) (ndir : Fd) (nname : Bytes) : M Unit := do
  hotfix odir
  hotfix ndir
  unitCall (.renameat odir oname ndir nname) [odir, ndir] "renameat"

/-- `renameat2`: plain `renameat` when no flags are given -/
def renameat2 (odir : Fd) (oname : Bytes) (ndir : Fd) (nname : Bytes) (flags : Nat) : M Unit := do
  if flags = 0 then renameat odir oname ndir nname
  else
    hotfix odir
    hotfix ndir
    unitCall (.renameat2 odir oname ndir nname flags) [odir, ndir] "renameat2"

/-- `try_clone_to_owned` (`fcntl(F_DUPFD_CLOEXEC, 3)`); std's error has no frozen fd -/
def dup (fd : Fd) : M Fd := do
  match ← M.call (.dup fd 3) with
  | .fd n => pure n
  | .err e => throw (.os e)
  | _ => throw (.badResp "dup")

/-- dropping an `OwnedFd` -/
def close (fd : Fd) : Prog Unit := .call (.close fd) fun _ => .ret ()

/-- close every descriptor of the list once -/
def closeList : List Fd → Prog Unit
  | [] => .ret ()
  | fd :: rest => Prog.bind (close fd) fun _ => closeList rest

def closeAll (fds : List Fd) : Prog Unit := closeList fds.eraseDups

/-- drop one reference to `fd`: closes it unless another holder remains -/
def release (fd : Fd) (stillHeld : List Fd) : Prog Unit :=
  if fd ∈ stillHeld then .ret () else close fd

def fsopen (fstype : Bytes) (flags : Nat) : M Fd := do
  match ← M.call (.fsopen fstype flags) with
  | .fd n => pure n
  | .err e => throw (.os e)
  | _ => throw (.badResp "fsopen")

def fsconfigSetString (fd : Fd) (key val : Bytes) : M Unit := do
  hotfix fd
  unitCall (.fsconfigSetString fd key val) [fd] "fsconfig_set_string"

def fsconfigCreate (fd : Fd) : M Unit := do
  hotfix fd
  unitCall (.fsconfigCreate fd) [fd] "fsconfig_create"

def fsmount (fd : Fd) (flags attrs : Nat) : M Fd := do
  hotfix fd
  match ← M.call (.fsmount fd flags attrs) with
  | .fd n => pure n
  | .err e => failWith [fd] e
  | _ => throw (.badResp "fsmount")

def openTree (dir : Fd) (path : Bytes) (flags : Nat) : M Fd := do
  hotfix dir
  match ← M.call (.openTree dir path flags) with
  | .fd n => pure n
  | .err e => failWith [dir] e
  | _ => throw (.badResp "open_tree")

end Sys
