import Pathrs.Path
import Pathrs.Flags

/-!
# The syscall wrappers of `src/syscalls.rs`

Each wrapper forces its flags, makes exactly one call and, on failure, builds an
error value whose construction *itself* talks to the kernel: `FrozenFd::from`
resolves `/proc/thread-self/fd/N` for the message text (`freeze` below).  `exists_at`
is the exception: it reports a failing call as `false` and builds no error value.
-/

open K

/-- process-wide configuration a run depends on -/
structure ProcH where
  fd : Fd
  mntId : Option Nat
  isSubset : Bool
  emulated : Bool
deriving Repr, DecidableEq, Inhabited

structure Env where
  /-- the process-global procfs handle (`GLOBAL_PROCFS_HANDLE`) -/
  proc : ProcH
  /-- `OPENAT2_IS_SUPPORTED` -/
  openat2 : Bool
  /-- cached `fs.protected_symlinks` -/
  protectedSymlinks : Nat
deriving Repr, Inhabited

namespace Sys

/-- `hotfix_rustix_fd` -/
def hotfix (fd : Fd) : Except Err Unit :=
  if fd = AT_FDCWD ∨ fd ≥ 0 then .ok () else .error (.os EBADF)

/-- `proc_subpath` of `utils/fd.rs` -/
def procSubpath (fd : Fd) : Except Err Bytes :=
  if fd = AT_FDCWD then .ok b!"cwd"
  else if fd ≥ 0 then .ok (b!"fd/" ++ Path.decimal fd.toNat)
  else .error .invalidArgument

def gettid : Prog Nat :=
  .call .gettid fun
    | .nums [n] => .ret n
    | _ => .ret 0

def geteuid : Prog Nat :=
  .call .geteuid fun
    | .nums [n] => .ret n
    | _ => .ret 0

/-- the three candidate spellings of the thread-self directory -/
def threadSelfCandidates (tid : Nat) : List Bytes :=
  [b!"thread-self", b!"self/task/" ++ Path.decimal tid, b!"self"]

/-- `exists_at`: the descriptor test of the other wrappers, then one `fstatat` with the
forced flags; reports whether the call succeeded.  No error value is built on failure, so
none of the diagnostic calls below are made (repair of finding F26). -/
def existsAt (dir : Fd) (name : Bytes) : Prog Bool :=
  match hotfix dir with
  | .error _ => .ret false
  | .ok _ =>
    .call (.fstatat dir name STAT_FLAGS) fun
      | .nums (_ :: _ :: _ :: _) => .ret true
      | _ => .ret false

/-- The diagnostic lookup done while an error value is built
(`FrozenFd::from` → `as_unsafe_path_unchecked`): `gettid`, then
`ProcfsBase::ProcThreadSelf.into_path(None)` probes the candidate spellings of the
thread-self directory with `exists_at(AT_FDCWD, "/proc/<cand>")`, stopping at the first one
that exists, then one `readlink` below the chosen directory whose outcome is only used for
message text.

A failing probe builds no error value: it just moves on to the next candidate, and when
no candidate exists the first spelling `thread-self` is used (before the repair of finding
F26 a failing probe built another error value, which froze `AT_FDCWD` in turn and so
recursed without bound when `/proc/thread-self` could not be found, and an exhausted
candidate list panicked).  The lookup therefore always completes, with at most five
calls, and needs no fuel. -/
def freeze (fd : Fd) : Prog Unit :=
  -- ProcfsBase::ProcThreadSelf.into_path(None)
  Prog.bind gettid fun tid =>
  Prog.bind (probe (threadSelfCandidates tid)) fun base =>
    match procSubpath fd with
    | .error _ => .ret ()
    | .ok sub => .call (.readlinkAbs (b!"/proc/" ++ base ++ b!"/" ++ sub)) fun _ => .ret ()
where
  /-- the first candidate that exists, else the first spelling -/
  probe : List Bytes → Prog Bytes
    | [] => .ret b!"thread-self"
    | cand :: rest =>
      .call (.fstatat AT_FDCWD (b!"/proc/" ++ cand) STAT_FLAGS) fun
        | .err _ => probe rest
        | _ => .ret cand

/-- build an `OsError e` after freezing the descriptors named in the message -/
def failWith (fds : List Fd) (e : Nat) : M α :=
  let rec go : List Fd → Prog (Except Err α)
    | [] => .ret (.error (.os e))
    | fd :: rest => Prog.bind (freeze fd) fun _ => go rest
  go fds

/-- `openat_follow`: adds `O_CLOEXEC|O_NOCTTY` -/
def openatFollow (dir : Fd) (name : Bytes) (flags mode : Nat) : M Fd := do
  hotfix dir
  let flags := flags ||| O_CLOEXEC ||| O_NOCTTY
  match ← M.call (.openat dir name flags mode) with
  | .fd n => pure n
  | .err e => failWith [dir] e
  | _ => throw (.badResp "openat")

/-- `openat`: adds `O_NOFOLLOW|O_CLOEXEC|O_NOCTTY` -/
def openat (dir : Fd) (name : Bytes) (flags mode : Nat) : M Fd :=
  openatFollow dir name (flags ||| O_NOFOLLOW) mode

/-- `openat2`: adds `O_CLOEXEC`; a path with an embedded NUL is refused before
the call (the C string handed to the kernel would end there) -/
def openat2 (dir : Fd) (path : Bytes) (flags resolve : Nat) : M Fd :=
  if path.contains 0 then do
    hotfix dir
    failWith [dir] EINVAL
  else do
  hotfix dir
  let flags := flags ||| O_CLOEXEC
  match ← M.call (.openat2 dir (Path.toCString path) flags 0 resolve OPEN_HOW_SIZE) with
  | .fd n => pure n
  | .err e => failWith [dir] e
  | _ => throw (.badResp "openat2")

/-- `readlinkat` with the 128 KiB buffer; a full buffer is `ENAMETOOLONG` -/
def readlinkat (dir : Fd) (name : Bytes) : M Bytes := do
  hotfix dir
  match ← M.call (.readlinkat dir name READLINK_BUF) with
  | .bytes b => if b.length ≥ READLINK_BUF then failWith [dir] ENAMETOOLONG else pure b
  | .err e => failWith [dir] e
  | _ => throw (.badResp "readlinkat")

structure Stat where
  mode : Nat
  uid : Nat
  ino : Nat
deriving Repr, DecidableEq, Inhabited

def Stat.isSymlink (s : Stat) : Bool := s.mode &&& S_IFMT = S_IFLNK

/-- `fstatat`: always `AT_NO_AUTOMOUNT|AT_SYMLINK_NOFOLLOW|AT_EMPTY_PATH` -/
def fstatat (dir : Fd) (name : Bytes) : M Stat := do
  hotfix dir
  match ← M.call (.fstatat dir name STAT_FLAGS) with
  | .nums (mode :: uid :: ino :: _) => pure { mode, uid, ino }
  | .err e => failWith [dir] e
  | _ => throw (.badResp "fstatat")

/-- `statx` with the forced flags; returns (mask, mnt_id) -/
def statx (dir : Fd) (name : Bytes) (mask : Nat) : M (Nat × Nat) := do
  hotfix dir
  match ← M.call (.statx dir name STAT_FLAGS mask) with
  | .nums [m, id] => pure (m, id)
  | .err e => failWith [dir] e
  | _ => throw (.badResp "statx")

def fstatfs (fd : Fd) : M Nat := do
  hotfix fd
  match ← M.call (.fstatfs fd) with
  | .nums [t] => pure t
  | .err e => failWith [fd] e
  | _ => throw (.badResp "fstatfs")

def unitCall (c : Call) (fds : List Fd) (site : String) : M Unit := do
  match ← M.call c with
  | .unit => pure ()
  | .err e => failWith fds e
  | _ => throw (.badResp site)

def mkdirat (dir : Fd) (name : Bytes) (mode : Nat) : M Unit := do
  hotfix dir
  unitCall (.mkdirat dir name mode) [dir] "mkdirat"

def mknodat (dir : Fd) (name : Bytes) (mode dev : Nat) : M Unit := do
  hotfix dir
  unitCall (.mknodat dir name mode dev) [dir] "mknodat"

def unlinkat (dir : Fd) (name : Bytes) (flags : Nat) : M Unit := do
  hotfix dir
  unitCall (.unlinkat dir name flags) [dir] "unlinkat"

def linkat (odir : Fd) (oname : Bytes) (ndir : Fd) (nname : Bytes) (flags : Nat) : M Unit := do
  hotfix odir
  hotfix ndir
  unitCall (.linkat odir oname ndir nname flags) [odir, ndir] "linkat"

def symlinkat (target : Bytes) (dir : Fd) (name : Bytes) : M Unit := do
  hotfix dir
  unitCall (.symlinkat target dir name) [dir] "symlinkat"

def renameat (odir : Fd) (oname : Bytes) (ndir : Fd) (nname : Bytes) : M Unit := do
  hotfix odir
  hotfix ndir
  unitCall (.renameat odir oname ndir nname) [odir, ndir] "renameat"

/-- `renameat2`: plain `renameat` when no flags are given -/
def renameat2 (odir : Fd) (oname : Bytes) (ndir : Fd) (nname : Bytes) (flags : Nat) : M Unit := do
  if flags = 0 then renameat odir oname ndir nname
  else
    hotfix odir
    hotfix ndir
    unitCall (.renameat2 odir oname ndir nname flags) [odir, ndir] "renameat2"

/-- `try_clone_to_owned` (`fcntl(F_DUPFD_CLOEXEC, 3)`); std's error has no frozen fd -/
def dup (fd : Fd) : M Fd := do
  match ← M.call (.dup fd 3) with
  | .fd n => pure n
  | .err e => throw (.os e)
  | _ => throw (.badResp "dup")

/-- dropping an `OwnedFd` -/
def close (fd : Fd) : Prog Unit := .call (.close fd) fun _ => .ret ()

/-- close every descriptor of the list once -/
def closeList : List Fd → Prog Unit
  | [] => .ret ()
  | fd :: rest => Prog.bind (close fd) fun _ => closeList rest

def closeAll (fds : List Fd) : Prog Unit := closeList fds.eraseDups

/-- drop one reference to `fd`: closes it unless another holder remains -/
def release (fd : Fd) (stillHeld : List Fd) : Prog Unit :=
  if fd ∈ stillHeld then .ret () else close fd

def fsopen (fstype : Bytes) (flags : Nat) : M Fd := do
  match ← M.call (.fsopen fstype flags) with
  | .fd n => pure n
  | .err e => throw (.os e)
  | _ => throw (.badResp "fsopen")

def fsconfigSetString (fd : Fd) (key val : Bytes) : M Unit := do
  hotfix fd
  unitCall (.fsconfigSetString fd key val) [fd] "fsconfig_set_string"

def fsconfigCreate (fd : Fd) : M Unit := do
  hotfix fd
  unitCall (.fsconfigCreate fd) [fd] "fsconfig_create"

def fsmount (fd : Fd) (flags attrs : Nat) : M Fd := do
  hotfix fd
  match ← M.call (.fsmount fd flags attrs) with
  | .fd n => pure n
  | .err e => failWith [fd] e
  | _ => throw (.badResp "fsmount")

def openTree (dir : Fd) (path : Bytes) (flags : Nat) : M Fd := do
  hotfix dir
  match ← M.call (.openTree dir path flags) with
  | .fd n => pure n
  | .err e => failWith [dir] e
  | _ => throw (.badResp "open_tree")

end Sys
