#!/bin/sh
# Build the framework from files on disk only (offline).
set -e
cd /verif
mkdir -p .cache evidence replays
[ -f harness/Cargo.lock ] || cp /repo/Cargo.lock harness/Cargo.lock
(cd harness && CARGO_NET_OFFLINE=true cargo build --offline)
(cd lean && lake build Pathrs pathrs_model Pathrs.Proofs.All)
