#!/usr/bin/env python3
"""Translator for property C18: regenerates lean/Pathrs/Generated/AbiData.lean from
/repo's current sources (Rust C API, include/pathrs.h, cbindgen.toml, the Go and Python
bindings).  A parse failure is a broken tie and is reported as such (exit 3)."""
import os
import re
import sys

REPO = sys.argv[1] if len(sys.argv) > 1 else "/repo"
OUT = sys.argv[2] if len(sys.argv) > 2 else "/verif/lean/Pathrs/Generated/AbiData.lean"


class ParseError(Exception):
    pass


def strip_c_comments(s):
    s = re.sub(r"/\*.*?\*/", "", s, flags=re.S)
    s = re.sub(r"//.*", "", s)
    return s


# ABI classes -----------------------------------------------------------------
RUST_TYPES = {
    "c_int": "i32", "RawFd": "i32", "CBorrowedFd<'_>": "i32", "CReturn": "i32",
    "c_uint": "u32", "u32": "u32",
    "u64": "u64", "CProcfsBase": "enum64",
    "size_t": "usize", "usize": "usize",
    "dev_t": "devt",
    "*const c_char": "cstr", "*mut c_char": "buf",
    "*mut CError": "errptr", "Option<&'static mut CError>": "errptr",
    "()": "void",
}
C_TYPES = {
    "int": "i32", "unsigned int": "u32", "uint32_t": "u32", "uint64_t": "u64",
    "size_t": "usize", "dev_t": "devt", "const char *": "cstr", "char *": "buf",
    "pathrs_proc_base_t": "enum64", "pathrs_error_t *": "errptr", "void": "void",
}
GO_CASTS = {
    "C.int": "i32", "C.uint": "u32", "C.ulong": "usize", "C.size_t": "usize", "C.dev_t": "devt",
    "C.pathrs_proc_base_t": "enum64", "C.cast_ptr": "buf", "C.uint32_t": "u32", "C.uint64_t": "u64",
}
CLASSES = ["i32", "u32", "u64", "usize", "devt", "enum64", "cstr", "buf", "errptr", "void", "any"]


def rust_type(t):
    t = " ".join(t.split())
    if t in RUST_TYPES:
        return RUST_TYPES[t]
    raise ParseError(f"unknown Rust type in extern fn: {t!r}")


def c_type(t):
    t = " ".join(t.replace("*", " * ").split())
    t = t.replace(" * ", " *").replace(" *", " *")
    t = re.sub(r"\s+\*", " *", t)
    if t in C_TYPES:
        return C_TYPES[t]
    raise ParseError(f"unknown C type in header: {t!r}")


def parse_rust():
    fns = {}
    enums = {}
    struct = []
    for fn in sorted(os.listdir(os.path.join(REPO, "src", "capi"))):
        if not fn.endswith(".rs"):
            continue
        src = open(os.path.join(REPO, "src", "capi", fn)).read()
        src = re.sub(r"//.*", "", src)
        # cut the test module off
        src = src.split("#[cfg(test)]\nmod tests")[0]
        for m in re.finditer(r"#\[no_mangle\]\s*pub\s+(?:unsafe\s+)?extern\s+\"C\"\s+fn\s+(\w+)\s*\((.*?)\)\s*(?:->\s*([^{]+?))?\s*\{", src, flags=re.S):
            name, args, ret = m.group(1), m.group(2), (m.group(3) or "()").strip()
            alist = []
            for a in [x.strip() for x in re.split(r",(?![^<]*>)", args) if x.strip()]:
                an, at = a.split(":", 1)
                alist.append(rust_type(at.strip()))
            fns[name] = (rust_type(ret), alist)
        em = re.search(r"#\[open_enum\]\s*#\[repr\((\w+)\)\](?:\s*#\[[^\]]*\])*\s*pub enum CProcfsBase\s*\{(.*?)\}", src, flags=re.S)
        if em:
            # the width of the enum is the width of the argument the exported functions read
            width = {"u64": "enum64", "u32": "u32", "i32": "i32", "c_int": "i32", "c_uint": "u32", "usize": "usize"}.get(em.group(1))
            if width is None:
                raise ParseError(f"CProcfsBase repr is {em.group(1)}")
            if width != "enum64":
                fns = {n: (width if r == "enum64" else r, [width if a == "enum64" else a for a in al]) for n, (r, al) in fns.items()}
            for v in re.finditer(r"(\w+)\s*=\s*(0x[0-9A-Fa-f_]+|\d+)", em.group(2)):
                enums[v.group(1)] = int(v.group(2).replace("_", ""), 0)
        sm = re.search(r"#\[repr\(([^\]]*)\)\]\s*pub struct CError\s*\{(.*?)\}", src, flags=re.S)
        if sm:
            attrs = sm.group(1).replace(" ", "")
            if "C" not in attrs.split(","):
                raise ParseError("CError is not repr(C)")
            align = re.search(r"align\((\d+)\)", attrs)
            struct.append(("__align", int(align.group(1)) if align else 0))
            for f in re.finditer(r"pub\s+(\w+)\s*:\s*([^,\n]+),", sm.group(2)):
                ty = f.group(2).strip()
                cls = {"u64": "u64", "*const c_char": "cstr"}.get(ty)
                if cls is None:
                    raise ParseError(f"CError field type {ty!r}")
                struct.append((f.group(1), cls))
    if not fns or not enums or not struct:
        raise ParseError("Rust C API not found")
    return fns, enums, struct


def parse_header():
    src = strip_c_comments(open(os.path.join(REPO, "include", "pathrs.h")).read())
    fns = {}
    for m in re.finditer(r"^([A-Za-z_][\w \*]*?[\s\*])(pathrs_\w+)\s*\(([^;{]*?)\)\s*;", src, flags=re.M | re.S):
        ret, name, args = m.group(1).strip(), m.group(2), m.group(3)
        alist = []
        if args.strip() and args.strip() != "void":
            for a in args.split(","):
                a = " ".join(a.split())
                mm = re.match(r"(.*?)(\w+)$", a)
                alist.append(c_type(mm.group(1).strip()))
                HEADER_PARAMS.setdefault(name, []).append(mm.group(2))
        fns[name] = (c_type(ret), alist)
    enums = {}
    em = re.search(r"enum pathrs_proc_base_t\s*\{(.*?)\}", src, flags=re.S)
    if not em:
        raise ParseError("enum pathrs_proc_base_t not found in header")
    for v in re.finditer(r"(PATHRS_\w+)\s*=\s*(0x[0-9A-Fa-f]+|\d+)", em.group(1)):
        enums[v.group(1)] = int(v.group(2), 0)
    td = re.search(r"typedef\s+(\w+)\s+pathrs_proc_base_t\s*;", src)
    if not td:
        raise ParseError("pathrs_proc_base_t is not a typedef")
    hwidth = {"uint64_t": "enum64", "uint32_t": "u32", "int": "i32", "size_t": "usize"}.get(td.group(1))
    if hwidth is None:
        raise ParseError(f"pathrs_proc_base_t is typedef'd to {td.group(1)}")
    if hwidth != "enum64":
        fns = {n: (hwidth if r == "enum64" else r, [hwidth if a == "enum64" else a for a in al]) for n, (r, al) in fns.items()}
    sm = re.search(r"typedef struct\s*(__CBINDGEN_ALIGNED\((\d+)\))?\s*\{(.*?)\}\s*pathrs_error_t\s*;", src, flags=re.S)
    if not sm:
        raise ParseError("pathrs_error_t not found in header")
    struct = [("__align", int(sm.group(2) or 0))]
    for f in re.finditer(r"([\w \*]+?)\s*\b(\w+)\s*;", sm.group(3)):
        struct.append((f.group(2), c_type(f.group(1).strip())))
    return fns, enums, struct


def parse_cbindgen():
    src = open(os.path.join(REPO, "cbindgen.toml")).read()
    ren = dict(re.findall(r'"(\w+)"\s*=\s*"(\w+)"', src))
    return ren


def parse_go():
    calls = []
    consts = []
    godir = os.path.join(REPO, "go-pathrs")
    for fn in sorted(os.listdir(godir)):
        if not fn.endswith(".go"):
            continue
        src = open(os.path.join(godir, fn)).read()
        src_nc = re.sub(r"//.*", "", src)
        for m in re.finditer(r"C\.(pathrs_\w+)\(", src_nc):
            name = m.group(1)
            if name == "pathrs_proc_base_t":
                continue
            # balanced argument list
            i = m.end()
            depth, j = 1, i
            while depth:
                ch = src_nc[j]
                depth += ch == "("
                depth -= ch == ")"
                j += 1
            args = src_nc[i:j - 1]
            parts, d, cur = [], 0, ""
            for ch in args:
                if ch == "," and d == 0:
                    parts.append(cur.strip())
                    cur = ""
                else:
                    d += ch in "(["
                    d -= ch in ")]"
                    cur += ch
            if cur.strip():
                parts.append(cur.strip())
            classes = []
            for p in parts:
                mm = re.match(r"(C\.\w+)\(", p)
                if mm:
                    if mm.group(1) not in GO_CASTS:
                        raise ParseError(f"unknown cgo cast {mm.group(1)} in call of {name}")
                    classes.append(GO_CASTS[mm.group(1)])
                else:
                    # a variable: find its C type in the same file
                    vm = re.search(r"\b" + re.escape(p) + r"\s*:=\s*(C\.\w+)\(", src_nc) or \
                        re.search(r"\b" + re.escape(p) + r"\s+(\*?C\.\w+)\b", src_nc)
                    if vm:
                        t = vm.group(1)
                        classes.append({"C.CString": "cstr", "*C.char": "cstr", "C.int": "i32",
                                        "*C.pathrs_error_t": "errptr", "C.pathrs_proc_base_t": "enum64"}.get(t, GO_CASTS.get(t, "any")))
                    else:
                        classes.append("any")
            calls.append((name, classes, fn))
            GO_CALL_ARGS.append((name, parts, fn))
        for m in re.finditer(r"C\.(PATHRS_\w+)", src_nc):
            consts.append(m.group(1))
        # named constants: pathrsProcSelf pathrsProcBase = C.PATHRS_PROC_SELF
        for m in re.finditer(r"^\s*(\w+)\s+(?:\w+\s+)?=\s*C\.(PATHRS_\w+)\s*$", src_nc, flags=re.M):
            ALIASES.append(("go", m.group(1), m.group(2)))
            GO_PRIVATE[m.group(1)] = m.group(2)
        # the public enumeration is mapped onto the private names in a switch: case ProcBaseSelf: return pathrsProcSelf, nil
        for m in re.finditer(r"case\s+(ProcBase\w+)\s*:\s*return\s+(pathrsProc\w+)\s*,", src_nc):
            GO_SWITCH.append((m.group(1), m.group(2)))
    if not calls:
        raise ParseError("no cgo calls found")
    return calls, sorted(set(consts))


# parameter names of the header's declarations, and the argument expressions of every cgo call
HEADER_PARAMS = {}
GO_CALL_ARGS = []


def norm_arg(expr):
    """cPath -> path, cTarget -> target, C.int(rootFd) -> rootfd; None when the expression is not a plain variable or cast of one"""
    m = re.match(r"^(?:C\.\w+\()?\s*&?(\w+)\s*\)?$", expr)
    if not m:
        return None
    v = m.group(1)
    if len(v) > 1 and v[0] == "c" and v[1].isupper():
        v = v[1:]
    return v.replace("_", "").lower()


def arg_order_pairs():
    """For every cgo call: when the variables passed are named like the header's parameters of that function (all of them
    that are so named, at least two, no duplicates), each must stand at the position of the parameter it is named after:
    (position in the call, position of the like-named parameter).  A call whose variables are not named after the
    parameters yields nothing (no judgement)."""
    out = []
    for name, parts, fn in GO_CALL_ARGS:
        params = [x.replace("_", "").lower() for x in HEADER_PARAMS.get(name, [])]
        if len(params) != len(parts) or len(set(params)) != len(params):
            continue
        named = [(i, norm_arg(e)) for i, e in enumerate(parts)]
        named = [(i, v) for i, v in named if v in params]
        if len(named) < 2 or len({v for _, v in named}) != len(named):
            continue
        for i, v in named:
            out.append((i, params.index(v), f"go-arg:{name}#{i}={v}"))
    return out


# (binding, exported name, header constant assigned to it)
ALIASES = []
GO_PRIVATE = {}
GO_SWITCH = []


def norm_const(name):
    n = re.sub(r"[^A-Za-z0-9]", "", name).lower()
    return n[6:] if n.startswith("pathrs") else n


def parse_python():
    pydir = os.path.join(REPO, "contrib", "bindings", "python", "pathrs")
    src = open(os.path.join(pydir, "_pathrs.py")).read()
    src_nc = re.sub(r"#.*", "", src)
    calls = []
    for m in re.finditer(r"libpathrs_so\.(pathrs_\w+)\(", src_nc):
        i = m.end()
        depth, j = 1, i
        while depth:
            ch = src_nc[j]
            depth += ch == "("
            depth -= ch == ")"
            j += 1
        args = src_nc[i:j - 1]
        d, n, cur = 0, 0, ""
        for ch in args:
            if ch == "," and d == 0:
                if cur.strip():
                    n += 1
                cur = ""
            else:
                d += ch in "(["
                d -= ch in ")]"
                cur += ch
        if cur.strip():
            n += 1
        calls.append((m.group(1), n))
    consts = sorted(set(re.findall(r"libpathrs_so\.(PATHRS_\w+)", src_nc)))
    # named constants of the binding: NAME[: type] = libpathrs_so.PATHRS_X
    for m in re.finditer(r"^(\w+)\s*(?::\s*[\w.\[\]]+)?\s*=\s*libpathrs_so\.(PATHRS_\w+)\s*$", src_nc, flags=re.M):
        ALIASES.append(("python", m.group(1), m.group(2)))
    build = open(os.path.join(pydir, "pathrs_build.py")).read()
    typedefs = {}
    for m in re.finditer(r'cdef\(\s*"typedef\s+(\w+)\s+(\w+)\s*;"\s*\)', build):
        typedefs[m.group(2)] = c_type(m.group(1))
    if not calls:
        raise ParseError("no libpathrs_so calls found")
    return calls, consts, typedefs


def lean_list(xs):
    return "[" + ", ".join(xs) + "]"


def main():
    try:
        rfns, renums, rstruct = parse_rust()
        hfns, henums, hstruct = parse_header()
        ren = parse_cbindgen()
        gocalls, goconsts = parse_go()
        pycalls, pyconsts, pytypedefs = parse_python()
    except (ParseError, OSError, IndexError, ValueError) as e:
        print(f"PARSE-ERROR {e}")
        return 3
    names = sorted(set(rfns) | set(hfns) | {c[0] for c in gocalls} | {c[0] for c in pycalls})
    idx = {n: i for i, n in enumerate(names)}
    enames = sorted(set(renums) | set(henums) | set(goconsts) | set(pyconsts))
    eidx = {n: i for i, n in enumerate(enames)}
    fnames = sorted({f for f, _ in rstruct} | {f for f, _ in hstruct})
    fidx = {n: i for i, n in enumerate(fnames)}

    def sig(name, ret, args):
        return f"{{ name := {idx[name]}, ret := .{ret}, args := {lean_list(['.' + a for a in args])} }}"

    out = []
    out.append("import Pathrs.Abi\n")
    out.append("/-! Generated by tools/abi_extract.py from /repo's sources — do not edit.\n")
    out.append("Symbol names (index ↦ name):")
    for n in names:
        out.append(f"  {idx[n]} ↦ {n}")
    out.append("Enum constants:")
    for n in enames:
        out.append(f"  {eidx[n]} ↦ {n}")
    out.append("Struct fields:")
    for n in fnames:
        out.append(f"  {fidx[n]} ↦ {n}")
    out.append(f"cbindgen renames: {ren}")
    out.append("-/\n")
    out.append("namespace AbiData\nopen Abi\n")
    out.append("def rust : List FnSig := " + lean_list([sig(n, *rfns[n]) for n in sorted(rfns)]) + "\n")
    out.append("def header : List FnSig := " + lean_list([sig(n, *hfns[n]) for n in sorted(hfns)]) + "\n")
    out.append("def rustEnum : List (Nat × Nat) := " + lean_list([f"({eidx[n]}, {v})" for n, v in sorted(renums.items())]) + "\n")
    out.append("def headerEnum : List (Nat × Nat) := " + lean_list([f"({eidx[n]}, {v})" for n, v in sorted(henums.items())]) + "\n")
    out.append("def rustStruct : List (Nat × CType) := " + lean_list([f"({fidx[f]}, .{c})" if f != "__align" else f"({fidx[f]}, .align {c})" for f, c in rstruct]) + "\n")
    out.append("def headerStruct : List (Nat × CType) := " + lean_list([f"({fidx[f]}, .{c})" if f != "__align" else f"({fidx[f]}, .align {c})" for f, c in hstruct]) + "\n")
    out.append("def goCalls : List FnSig := " + lean_list([sig(n, "any", a) for n, a, _ in gocalls]) + "\n")
    out.append("def goConsts : List Nat := " + lean_list([str(eidx[n]) for n in goconsts]) + "\n")
    out.append("def pyCalls : List (Nat × Nat) := " + lean_list([f"({idx[n]}, {k})" for n, k in pycalls]) + "\n")
    out.append("def pyConsts : List Nat := " + lean_list([str(eidx[n]) for n in pyconsts]) + "\n")
    out.append("def pyTypedefs : List (CType × CType) := " + lean_list([f"(.{ {'dev_t': 'devt'}.get(k, 'any') }, .{v})" for k, v in sorted(pytypedefs.items())]) + "\n")
    bynorm = {norm_const(n): n for n in set(renums) | set(henums)}
    for public, private in GO_SWITCH:
        # ProcBaseThreadSelf -> procbasethreadself -> "proc" + "threadself"
        ALIASES.append(("go-switch", "PROC_" + public[len("ProcBase"):], GO_PRIVATE.get(private, "?" + private)))
    pairs = []
    for binding, alias, const in ALIASES:
        want = bynorm.get(norm_const(alias))
        pairs.append((eidx[want] if want in eidx else 10000 + len(pairs), eidx.get(const, 20000 + len(pairs)), f"{binding}:{alias}={const}"))
    # argument order at the cgo call sites: 30000 + position, so that these pairs cannot be mistaken for constants
    for i, j, what in arg_order_pairs():
        pairs.append((30000 + i, 30000 + j, what))
    out.append("/-- " + "; ".join(p[2] for p in pairs) + " -/")
    out.append("def aliases : List (Nat × Nat) := " + lean_list([f"({a}, {b})" for a, b, _ in pairs]) + "\n")
    out.append(f"def renamesOk : Bool := {'true' if ren.get('CProcfsBase') == 'pathrs_proc_base_t' and ren.get('CError') == 'pathrs_error_t' else 'false'}\n")
    out.append("end AbiData")
    os.makedirs(os.path.dirname(OUT), exist_ok=True)
    new = "\n".join(out) + "\n"
    old = open(OUT).read() if os.path.exists(OUT) else None
    if old != new:
        with open(OUT, "w") as f:
            f.write(new)
    print(f"OK fns rust={len(rfns)} header={len(hfns)} go_calls={len(gocalls)} py_calls={len(pycalls)} enums={len(enames)}")
    return 0


if __name__ == "__main__":
    sys.exit(main())
