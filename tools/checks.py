"""Per-property checks.  See /verif/DESIGN.md §5."""
import hashlib
import json
import os
import sys
import time

import vlib
from vlib import (CACHE, VERIF, BuildError, Verdict, audit_axioms, build_harness, build_lean,
                  canon_res, parse_cases, run_harness, run_model, scan_sources, unhex)

TRUSTED_BASE = [
    "Lean 4.33 kernel (lake build; axioms of every property theorem printed and required to be within {propext, Classical.choice, Quot.sound})",
    "hand-written Lean model of libpathrs (lean/Pathrs/*.lean), tied to /repo by transcript replay on every run",
    "recorder shim src/verif.rs (feature _verif_hooks) below the syscall wrappers; libc symbol interposition of close/fcntl/readlink in the harness",
    "harness generators (their coverage bounds what the tie sees)",
    "Linux 6.18 as the environment the transcripts come from",
]


def opt(argv, name, default=None):
    if name in argv:
        i = argv.index(name)
        if i + 1 < len(argv):
            return argv[i + 1]
    return default


def case_facts(c):
    f = {"case": c.id, "op": c.op[0] if c.op else "?", "backend": c.cfg.get("backend"),
         "rflags": c.cfg.get("rflags"), "seed": c.meta.get("seed")}
    if c.meta.get("unpriv"):
        f["unpriv"] = c.meta.get("unpriv")
    try:
        paths = [unhex(t) for t in c.op[1:] if t.startswith("x")]
    except Exception:
        paths = []
    if paths:
        p = paths[-1] if c.op[0] != "rename" else paths[0]
        f["path"] = p.decode("latin1")
        f["path_is_empty"] = (p == b"")
        f["path_has_nul"] = (b"\0" in p)
        comps = p.split(b"/")
        last = comps[-1] if comps else b""
        f["final_component"] = last.decode("latin1")
        f["all_paths"] = [q.decode("latin1") for q in paths]
        # the parent part of a path (what a single-entry operation looks up) ends in '/': "e//f" -> "e/"
        f["parent_trailing_slash"] = any(q[:q.rfind(b"/")].endswith(b"/") for q in paths if b"/" in q)
        f["any_path_empty"] = any(q == b"" for q in paths)
        f["any_path_has_nul"] = any(b"\0" in q for q in paths)
    f["res"] = " ".join(c.res)
    return f


def case_replay(c, why, extra=None):
    d = {"why": why, "case": {"id": c.id, "seed": c.meta.get("seed"), "transcript": c.raw}}
    if extra:
        d.update(extra)
    return d


class Run:
    """One harness suite run + model replay."""

    def __init__(self, name, args, prefix=()):
        self.name = name
        self.args = list(args)
        os.makedirs(os.path.join(CACHE, "runs"), exist_ok=True)
        self.tpath = os.path.join(CACHE, "runs", f"{name}.txt")
        self.opath = os.path.join(CACHE, "runs", f"{name}.out")
        run_harness(args, self.tpath, prefix=prefix)
        self.cases = parse_cases(self.tpath)
        self.verdicts, self.extra = run_model(self.tpath, self.opath)
        self.by_id = {c.id: c for c in self.cases}


def tie_failures(run):
    out = []
    for c in run.cases:
        v = run.verdicts.get(c.id)
        if v is None or v[0] != "ok":
            out.append((c, v[1] if v else "no verdict"))
    return out


def nontrivial_key(c):
    h = hashlib.sha1()
    h.update(" ".join(c.op).encode())
    h.update(repr(c.tree).encode())
    h.update((c.cfg.get("backend") or "").encode())
    return h.hexdigest()


def coverage_of(runs, nontrivial=lambda c: len(c.events) >= 5, key=None):
    key = key or nontrivial_key
    cases = [c for r in runs for c in r.cases]
    keys = {key(c) for c in cases if nontrivial(c)}
    ops = {}
    results = {}
    calls = 0
    for c in cases:
        ops[c.op[0]] = ops.get(c.op[0], 0) + 1
        k = " ".join(c.res[:3]) if c.res[:1] == ["err"] else " ".join(c.res[:2])
        results[k] = results.get(k, 0) + 1
        calls += len(c.events)
    samples = []
    for c in cases[:3]:
        samples.append({"case": c.id, "op": " ".join(c.op), "tree_entries": len(c.tree),
                        "backend": c.cfg.get("backend"), "calls": len(c.events), "res": " ".join(c.res)})
    return {
        "evaluations": len(cases),
        "distinct_nontrivial": len(keys),
        "rule": "cases are (generated tree, operation, backend) triples from one SplitMix64 stream; "
                "distinct = distinct (tree, operation, backend); non-trivial = the implementation made at least 5 system calls",
        "samples": samples,
        "traces_validated_against_impl": sum(1 for r in runs for c in r.cases if r.verdicts.get(c.id, ("",))[0] == "ok"),
        "syscalls_replayed": calls,
        "op_distribution": ops,
        "result_distribution": dict(sorted(results.items(), key=lambda kv: -kv[1])[:25]),
    }


# ---------------------------------------------------------------------------
# oracles
# ---------------------------------------------------------------------------

def eagain_noise(c):
    """openat2(RESOLVE_IN_ROOT) answers EAGAIN whenever *any* rename or mount happened on the machine during the walk
    (a global sequence counter), so the kernel backend may report EAGAIN (one-shot open) or, after 16 tries,
    SafetyViolation for reasons that have nothing to do with the case's tree.  Such an outcome is inconclusive."""
    if c.cfg.get("backend") != "k":
        return False
    return c.res[:3] == ["err", "OsError", "11"] or c.res[:2] == ["err", "SafetyViolation"]


def oracle_kernel_equiv(c):
    """C01: the emulated / kernel backend result equals what openat2(RESOLVE_IN_ROOT) gives."""
    m = oracle_loc_inside(c)
    if m:
        return m
    if c.op and c.op[0] == "open_subpath":
        fl = int(c.op[1])
        if fl & (0o100 | 0o200) or (fl & 0o20200000) == 0o20200000:
            # a one-shot open never creates anything: creation flags are refused before any system call
            if c.res[:2] != ["err", "InvalidArgument"]:
                return f"open_subpath with creation flags {fl:#o} was not refused: {' '.join(c.res[:4])}"
            if c.events:
                return "open_subpath made system calls although creation flags must be refused up front"
            if c.snaps:
                return f"a refused open changed the tree: {' '.join(c.snaps[0])}"
            return None
    if c.op and c.op[0] in ("resolve", "open_subpath", "readlink"):
        fl = int(c.op[1]) if c.op[0] == "open_subpath" else 0
        if c.snaps and not (fl & 0o1000):
            return f"a lookup changed the tree: {' '.join(c.snaps[0])}"
    if c.kern is None:
        return None
    a = canon_res(c.res)
    k = canon_res(c.kern)
    if eagain_noise(c):
        return None
    if a[0] == "ok" and a[1] == "fd" and k[0] == "ok" and k[1] == "fd":
        if a[2:4] != k[2:4]:
            return f"object differs: libpathrs {a[2:4]} kernel {k[2:4]}"
        return None
    if a[0] == "err" and k[0] == "err":
        # res: err OsError N ; kern: err N
        want = ("err", "OsError", k[1])
        if tuple(a[:3]) != want:
            return f"error differs: libpathrs {a} kernel errno {k[1]}"
        return None
    if a == k:
        return None
    return f"outcome differs: libpathrs {a} kernel {k}"


def oracle_loc_inside(c):
    """A descriptor handed back by an operation on a Root points into the root's tree."""
    for t in c.extra.get("loc", []):
        if t and t[0] == "outside":
            where = unhex(t[1]).decode("latin1") if len(t) > 1 else ""
            if not where:
                continue    # the harness could not read where the descriptor points (no /proc in this environment)
            return f"the operation returned a descriptor of an object outside the root's tree: {where}"
    return None


def oracle_outside_untouched(c):
    """C03: nothing outside the root changed, and nothing outside the root was opened."""
    m = oracle_loc_inside(c)
    if m:
        return m
    for s in c.snaps:
        # snap lines: <sign> <kind..> <hexpath> ...
        path = None
        for t in s:
            if t.startswith("x"):
                path = unhex(t)
                break
        if path is None:
            continue
        if not (path == b"root" or path.startswith(b"root/")):
            return f"entry outside the root changed: {' '.join(s)} ({path!r})"
    return None


def oracle_fd_table(c):
    """C11: descriptor table unchanged except for the returned descriptor."""
    if c.fdt and c.fdt != ["same"]:
        return f"descriptor table changed: {' '.join(c.fdt)}"
    if c.res[:2] == ["ok", "fd"]:
        d = dict(t.split("=", 1) for t in c.res[2:] if "=" in t)
        if d.get("cloexec") != "1":
            return "returned descriptor is not close-on-exec"
    return None


def pair_backends(run):
    pairs = []
    for c in run.cases:
        if c.id.endswith("k"):
            e = run.by_id.get(c.id[:-1] + "e")
            if e is not None:
                pairs.append((c, e))
    return pairs


def after_key(c):
    if c.after is None:
        return None
    return sorted(tuple(a) for a in c.after)


def snap_key(c):
    out = []
    for s in c.snaps:
        # drop inode numbers of '~' lines (they differ between the two materialisations)
        out.append(tuple(t for t in s if not t.startswith("ino:")))
    return sorted(out)


def oracle_backends_agree(k, e):
    """C04: same outcome on both backends."""
    a, b = canon_res(k.res), canon_res(e.res)
    if eagain_noise(k):
        return None
    if a != b:
        return f"outcome differs: kernel backend {a}, emulated backend {b}"
    if after_key(k) != after_key(e):
        return "resulting tree differs between backends"
    if snap_key(k) != snap_key(e):
        return "tree changes differ between backends"
    return None


# ---------------------------------------------------------------------------
# property runs
# ---------------------------------------------------------------------------

def sizes(tier, quick, thorough):
    return thorough if tier == "thorough" else quick


def root_runs(prop, tier, seed, ops, quick_n, thorough_n, with_enosys=True):
    n = sizes(tier, quick_n, thorough_n)
    runs = [Run(f"{prop}-root", ["root", "--ops", ops, "--seed", str(seed), "--n", str(n)])]
    if with_enosys:
        runs.append(Run(f"{prop}-root-enosys",
                        ["root", "--ops", ops, "--seed", str(seed + 7919), "--n", str(max(n // 3, 50)), "--no-openat2"]))
    # the caller's privilege: the same operations made as uid/gid 65534 on trees owned by that user in which directories
    # and files have lost permissions here and there (EACCES/EPERM paths of every operation; the kernel reference calls
    # are made with the same effective ids; the harness itself observes the tree as root)
    runs.append(Run(f"{prop}-root-unpriv",
                    ["root", "--ops", ops, "--seed", str(seed + 104729), "--n", str(max(n // 3, 60)), "--unpriv"]))
    return runs


def generic_tie(v, runs, concrete_ids):
    """Report broken correspondence (model vs implementation)."""
    broken = []
    for r in runs:
        for c, line in tie_failures(r):
            broken.append((r, c, line))
    if not broken:
        return 0
    # cases that also failed a direct oracle are already reported with a concrete input
    rest = [(r, c, line) for (r, c, line) in broken if (r.name, c.id) not in concrete_ids]
    if rest:
        r, c, line = rest[0]
        facts = case_facts(c)
        facts["kind"] = "tie"
        facts["verdict"] = line
        v.fail(facts, case_replay(c, "model/implementation correspondence broken (transcript replay): " + line,
                                  {"broken": ["transcript replay of Pathrs model against recorded syscalls"],
                                   "other_mismatching_cases": [x[2] for x in rest[1:20]],
                                   "mismatching_cases": len(rest)}),
               concrete=False)
    return len(broken)


def run_oracle_cases(v, runs, oracle, why):
    concrete = set()
    for r in runs:
        for c in r.cases:
            msg = oracle(c)
            if msg:
                facts = case_facts(c)
                facts["kind"] = "oracle"
                facts["oracle"] = msg
                v.fail(facts, case_replay(c, f"{why}: {msg}"))
                concrete.add((r.name, c.id))
    return concrete


def strace_tie_step(v, prop, suites, cov):
    """Recorder completeness: run harness suites under strace and demand that the kernel saw exactly the
    recorded calls inside every recorded window (tools/strace_tie.py).  A system call the library makes without
    going through its wrappers (std::fs, a direct libc/rustix call) is invisible to the recorder and so to the
    transcript tie; here it is a concrete violation: the call as the kernel saw it."""
    import strace_tie
    tot = {"windows": 0, "syscalls_seen_by_kernel": 0, "recorded_calls": 0, "mismatching_windows": 0, "suites": []}
    for i, args in enumerate(suites):
        try:
            r = strace_tie.run(vlib.HARNESS_BIN, args + ["--out", "/dev/null"],
                               os.path.join(CACHE, "strace-tie", f"{prop}-{i}"), timeout=1500)
        except Exception as e:  # strace missing or timed out: the step could not run
            r = {"cmd": " ".join(args), "windows": 0, "syscalls": 0, "recorded_calls": 0,
                 "mismatches": [{"window": -1, "what": ["strace tie could not run: " + repr(e)[:300]]}]}
        tot["windows"] += r["windows"]
        tot["syscalls_seen_by_kernel"] += r["syscalls"]
        tot["recorded_calls"] += r["recorded_calls"]
        tot["suites"].append(" ".join(args))
        tot["mismatching_windows"] += len(r["mismatches"])
        for m in r["mismatches"][:3]:
            facts = {"kind": "strace", "suite": " ".join(args), "window": m["window"], "oracle": m["what"][0][:300]}
            concrete = m["window"] >= 0
            v.fail(facts, {"why": "the kernel (strace) and the recorder disagree about the system calls of one library call: "
                                  "the library made a system call outside its recorded wrappers, or the recorder misreports one",
                           "suite": "strace -f " + vlib.HARNESS_BIN + " " + " ".join(args),
                           "window": m["window"], "differences": m["what"],
                           "broken": ["recorder completeness (tools/strace_tie.py)"]}, concrete=concrete)
    cov["strace_tie"] = tot


def check_C01(v, tier, seed):
    runs = root_runs("C01", tier, seed, "lookups", 1500, 30000)
    concrete = run_oracle_cases(v, runs, oracle_kernel_equiv,
                                "lookup result differs from kernel openat2(RESOLVE_IN_ROOT|RESOLVE_NO_MAGICLINKS)")
    broken = generic_tie(v, runs, concrete)
    cov = coverage_of(runs)
    cov["tie_mismatches"] = broken
    cov["kernel_oracle_comparisons"] = sum(1 for r in runs for c in r.cases if c.kern is not None)
    # the trusted kernel specification (World.resolveInRoot) evaluated by the model driver on the
    # generated tree, against the live kernel's raw openat2 answer
    spec = {"ok": 0, "skip": 0, "DIFF": 0}
    for r in runs:
        if r.name.endswith("-unpriv"):
            continue    # World has no permission bits: the specification is validated on the privileged runs
        by_id = {c.id: c for c in r.cases}
        for cid, (verdict, line) in r.extra.get("spec", {}).items():
            spec[verdict] = spec.get(verdict, 0) + 1
            if verdict == "DIFF" and (r.name, cid) not in concrete:
                c = by_id.get(cid)
                facts = case_facts(c) if c else {}
                facts["kind"] = "spec"
                facts["verdict"] = line
                v.fail(facts, case_replay(c, "the kernel specification World.resolveInRoot (Kernel/World.lean) disagrees with the "
                                             "live kernel's openat2 on this tree and path: " + line,
                                          {"broken": ["validation of World.resolveInRoot against raw openat2"]}),
                       concrete=False)
    cov["spec_vs_live_kernel"] = spec
    return cov


def oracle_never_outside(c):
    """C02: the returned object (or link body) was inside the root at some moment of the call."""
    if c.res[:1] == ["panic"]:
        return "the lookup panicked under an attacker schedule"
    for t in c.extra.get("ident", []):
        if t and t[0] == "OUT":
            return "returned an object that was never inside the root: " + " ".join(t[1:])
    for t in c.extra.get("linkbody", []):
        if t and t[0] == "OUT":
            return "read the link body of an object that was never inside the root: " + " ".join(t[1:])
    return None


def oracle_unshared(c):
    for t in c.extra.get("unshared", []):
        if t and t[0] == "OTHER":
            return " ".join(t[1:])
    return oracle_kernel_equiv(c) if c.kern else None


def check_C02(v, tier, seed):
    n = sizes(tier, 26, 130)
    per = sizes(tier, 300, 700)
    runs = [Run("C02-attack", ["attack", "--seed", str(seed), "--n", str(n), "--per-case", str(per)]),
            Run("C02-attack-enosys", ["attack", "--seed", str(seed + 104729), "--n", str(max(n // 2, 8)),
                                      "--per-case", str(per), "--no-openat2"])]
    concrete = run_oracle_cases(v, runs, oracle_never_outside, "a lookup escaped the root under an attacker schedule")
    # whose descriptors does check_current look at?  An emulated lookup through '..' by a thread with its own descriptor
    # table (unshare(CLONE_FILES)) while the thread-group leader holds another directory under the same numbers: the
    # outcome is the kernel's (raw openat2 by the same thread)
    urun = Run("C02-lookup-unshared", ["lookup-unshared"])
    concrete |= run_oracle_cases(v, [urun], oracle_unshared,
                                 "an emulated lookup by a thread with a private descriptor table differs from the kernel's")
    runs.append(urun)
    broken = generic_tie(v, runs, concrete)

    def key(c):
        h = hashlib.sha1()
        h.update(" ".join(c.op).encode())
        h.update(repr(c.tree).encode())
        h.update(repr(c.extra.get("attack")).encode())
        h.update(c.cfg.get("backend", "").encode())
        return h.hexdigest()
    cov = coverage_of(runs, key=key)
    cov["rule"] = ("cases are (tree, lookup, backend, attacker mutation, syscall boundary, permanent|flip-flop) tuples; the mutation is "
                   "performed on the real filesystem by the interposer immediately before the boundary's system call; "
                   "distinct = distinct tuples; non-trivial = at least 5 system calls")
    cov["tie_mismatches"] = broken
    muts, idents = {}, {}
    for r in runs:
        for c in r.cases:
            a = c.extra.get("attack", [[]])[0]
            name = next((t for t in a if not t.startswith(("at=", "flip="))), "none")
            muts[name] = muts.get(name, 0) + 1
            i = (c.extra.get("ident", [["?"]])[0] or ["?"])[0]
            idents[i] = idents.get(i, 0) + 1
    cov["mutation_distribution"] = muts
    cov["result_identity"] = idents
    return cov


def oracle_rename_flags(c):
    """whatever happens inside (also a failing renameat2): RENAME_NOREPLACE never reports success for a destination that
    exists, and (post line) RENAME_EXCHANGE leaves both names in place"""
    if c.op[:1] == ["rename"] and len(c.op) >= 4 and c.res[:1] == ["ok"]:
        flags = int(c.op[1])
        if flags & 1:
            try:
                dst = unhex(c.op[3])
            except Exception:
                return None
            names = set()
            for e in c.tree:
                for t in e:
                    if isinstance(t, str) and t.startswith("x"):
                        names.add(t)
                        break
            if c.op[3] in names:
                return (f"rename with RENAME_NOREPLACE onto the existing entry {dst.decode('latin1')!r} reported success "
                        "(the destination was replaced)")
    return None


def oracle_clean_error(c):
    """C10: under an injected fault the operation ends with an error or a tolerated result; no panic,
    nothing leaked, nothing changed outside the root, no success for work not done."""
    if c.res[:1] == ["panic"]:
        try:
            text = unhex(c.res[1]).decode("latin1")
        except Exception:
            text = ""
        if "call budget" in text:
            return "the operation did not terminate: " + text
        return "the operation panicked under an injected fault: " + text[:200]
    f0 = c.extra.get("fault", [[]])[0]
    if f0[:1] == ["eagain_first"] and c.cfg.get("backend") == "k":
        # the first lookup of the operation used up its 16 tries: that is a safety violation, never a partial result
        first_is_lookup = any(ev[0][0] == "openat2" for ev in c.events[:1])
        n_eagain = sum(1 for ev in c.events if ev[0][0] == "openat2" and ev[1][:2] == ["err", "11"])
        if n_eagain >= 16 and c.res[:2] != ["err", "SafetyViolation"]:
            return ("openat2 answered EAGAIN 16 times in a row and the operation did not report a safety violation: "
                    + " ".join(c.res[:4]))
    m = oracle_rename_flags(c)
    if m:
        return m
    if c.fdt and c.fdt != ["same"]:
        return "descriptor table changed across the call: " + " ".join(c.fdt)
    for t in c.extra.get("outside", []):
        if t and t[0] != "same":
            return "something outside the root changed"
    f = c.extra.get("fault", [[]])[0]
    fkv = dict(t.split("=", 1) for t in f[1:] if "=" in t)
    # an injected ENOENT is indistinguishable, for the library, from "somebody else already removed it", which
    # remove_all tolerates by design (C13); the post-condition is not demanded for that pair
    tolerated = c.op[:1] == ["remove_all"] and fkv.get("errno") == "2"
    for t in c.extra.get("post", []):
        if t and t[0] == "BAD" and not tolerated:
            return "success reported for work that was not done: " + " ".join(t[1:])
    if f[:1] == ["always_eagain"] and c.cfg.get("backend") == "k" and c.res[:1] == ["ok"]:
        return "openat2 reported EAGAIN on every call and the lookup still succeeded"
    return None


def aftermath_oracle(v, runs, concrete):
    """A failed system call must leave nothing behind in the process: after the fault sweep of a case, the same
    operation on the same tree without any fault must behave exactly as it did before the faults (same result, same
    number of system calls).  On a difference the case is re-run in a fresh process with an unfaulted run after every
    single schedule, which yields the first schedule that poisons the process."""
    stats = {"aftermath_runs": 0, "differences": 0, "searches": 0}
    for r in runs:
        args = r.args
        for c in r.cases:
            am = c.extra.get("aftermath")
            if not am:
                continue
            stats["aftermath_runs"] += 1
            base = r.by_id.get(c.id.replace("-after", "-base"))
            if base is None:
                continue
            if canon_res(c.res) == canon_res(base.res) and len(c.events) == len(base.events):
                continue
            # openat2 answers EAGAIN whenever anything on the machine is renamed meanwhile: inconclusive
            if any(ev[1][:2] == ["err", "11"] for ev in list(c.events) + list(base.events)) or eagain_noise(c) or eagain_noise(base):
                stats["inconclusive_eagain"] = stats.get("inconclusive_eagain", 0) + 1
                continue
            stats["differences"] += 1
            facts = case_facts(c)
            facts["kind"] = "oracle"
            msg = (f"after the injected faults of this case the same operation, run again without any fault, gives "
                   f"'{' '.join(c.res[:4])}' with {len(c.events)} system calls; before the faults it gave "
                   f"'{' '.join(base.res[:4])}' with {len(base.events)}")
            replay = case_replay(c, "an injected system-call failure left state behind in the process: " + msg,
                                 {"baseline": base.raw})
            # search for the first poisoning schedule in a fresh process
            try:
                idx = int("".join(ch for ch in c.id.split("-")[0] if ch.isdigit()))
                sp = os.path.join(CACHE, "runs", f"{r.name}-aftermath-search.txt")
                stats["searches"] += 1
                run_harness(args + ["--only-case", str(idx), "--aftermath-each"], sp, timeout=1200)
                for sc in parse_cases(sp):
                    a2 = sc.extra.get("aftermath")
                    if a2 and sc.id.endswith("-after") and "-f" in sc.id:
                        replay["first_poisoning_schedule"] = " ".join(a2[0])
                        replay["aftermath_after_that_schedule"] = sc.raw
                        msg += "; first schedule after which this happens in a fresh process: " + " ".join(a2[0][2:])
                        break
            except Exception as e:  # the search is best effort; the sweep-level witness stands
                replay["search_error"] = repr(e)[:200]
            facts["oracle"] = msg
            v.fail(facts, replay)
            concrete.add((r.name, c.id))
    return stats


def check_C10(v, tier, seed):
    n = sizes(tier, 40, 400)
    per = sizes(tier, 150, 500)
    runs = [Run("C10-fault", ["fault", "--seed", str(seed), "--n", str(n), "--per-case", str(per)]),
            Run("C10-fault-enosys", ["fault", "--seed", str(seed + 15485863), "--n", str(max(n // 3, 10)),
                                     "--per-case", str(per), "--no-openat2"])]
    concrete = run_oracle_cases(v, runs, oracle_clean_error, "an injected system-call failure did not yield a clean error")
    aftermath = aftermath_oracle(v, runs, concrete)
    rf = Run("C10-reopen-fault", ["reopen-fault", "--seed", str(seed)])
    nrf = reopen_fault_cases(v, rf, concrete)
    runs.append(rf)
    # an environment in which the diagnostic reads of every error value fail by themselves: no /proc in the process's mount
    # namespace (a tmpfs over it).  Every natural failure of every operation (ENOENT, ELOOP, ...) builds its error value
    # there; the operations must behave as with /proc (kernel oracle), and the process must survive (finding F26)
    noproc = {"cases": 0}
    try:
        np = Run("C10-noproc", ["root", "--ops", "all", "--seed", str(seed + 911), "--n", str(sizes(tier, 150, 1500))],
                 prefix=["unshare", "-m", "sh", "-c", 'mount -t tmpfs tmpfs /proc && exec "$@"', "sh"])
        noproc["cases"] = len(np.cases)
        for c in np.cases:
            msg = oracle_kernel_equiv(c) if c.op and c.op[0] in ("resolve", "open_subpath", "readlink") else None
            if not msg and c.res[:1] == ["panic"]:
                msg = "the operation panicked"
            if msg:
                facts = case_facts(c)
                facts.update({"kind": "oracle", "oracle": msg, "env": "no /proc"})
                v.fail(facts, case_replay(c, "without /proc in the mount namespace: " + msg))
                concrete.add((np.name, c.id))
        runs.append(np)
    except BuildError as e:
        v.fail({"kind": "oracle", "oracle": "the process died in a mount namespace without /proc", "env": "no /proc"},
               {"why": "with a tmpfs mounted over /proc (so that the diagnostic /proc reads of every error value fail) the harness "
                       "process running ordinary operations died: " + str(e)[-600:],
                "how": "unshare -m sh -c 'mount -t tmpfs tmpfs /proc && verif-harness root --ops all --seed %d --n 150'" % (seed + 911)})
    broken = generic_tie(v, runs, concrete)

    def key(c):
        h = hashlib.sha1()
        h.update(" ".join(c.op).encode())
        h.update(repr(c.tree).encode())
        h.update(repr(c.extra.get("fault")).encode())
        h.update(c.cfg.get("backend", "").encode())
        return h.hexdigest()
    cov = coverage_of(runs, key=key, nontrivial=lambda c: len(c.events) >= 2)
    cov["rule"] = ("cases are (tree, operation, backend, fault) tuples: fault = (index k of the unperturbed syscall trace, errno of a "
                   "12-entry catalogue) | descriptor exhaustion from k | every in-root openat2 answers EAGAIN; the interposer fails the "
                   "call below the wrapper without entering the kernel; distinct = distinct tuples; non-trivial = at least 2 calls")
    cov["tie_mismatches"] = broken
    cov["aftermath"] = aftermath
    cov["reopen_under_single_faults"] = nrf
    cov["without_proc"] = noproc
    kinds, errnos, failed_calls = {}, {}, {}
    for r in runs:
        for c in r.cases:
            f = c.extra.get("fault", [["none"]])[0]
            kinds[f[0]] = kinds.get(f[0], 0) + 1
            kv = dict(t.split("=", 1) for t in f[1:] if "=" in t)
            if "errno" in kv:
                errnos[kv["errno"]] = errnos.get(kv["errno"], 0) + 1
            if f[0] == "single" and "at" in kv:
                k = int(kv["at"])
                if k < len(c.events):
                    name = c.events[k][0][0]
                    failed_calls[name] = failed_calls.get(name, 0) + 1
    cov["fault_kinds"] = kinds
    cov["errno_distribution"] = errnos
    cov["failed_call_kinds"] = failed_calls

    # first use of the library in a fresh process, under single faults and descriptor exhaustion
    init = {"runs": 0, "panics": 0, "killed": 0, "first_ok": 0, "first_err": 0, "retried_ok_after_failed_init": 0}
    base_hist = {}
    for label, extra in (("openat2", []), ("enosys", ["--no-openat2"])):
        if tier != "thorough" and label == "enosys":
            continue
        out = os.path.join(CACHE, "runs", f"C10-fault-init-{label}.txt")
        run_harness(["fault-init"] + extra, out)
        for line in open(out):
            t = line.split()
            if len(t) >= 3 and t[0] == "init" and t[1] == "base":
                sig = next((x[5:] for x in t if x.startswith("sig2=")), None)
                if sig is not None:
                    base_hist[label] = dict((a.split(":")[0], int(a.split(":")[1])) for a in sig.split(",") if ":" in a)
            if len(t) < 3 or t[0] != "init" or t[1] == "base":
                continue
            init["runs"] += 1
            bad = None
            if "PANIC" in t:
                init["panics"] += 1
                bad = "panic during first use"
            elif t[2:3] and ("KILLED" in t or any(x.startswith("NOOUTPUT") for x in t)):
                init["killed"] += 1
                bad = "process died during first use"
            if any(x == "first=ok" for x in t):
                init["first_ok"] += 1
            else:
                init["first_err"] += 1
                if any(x == "second=ok" for x in t):
                    init["retried_ok_after_failed_init"] += 1
            # fails closed for the rest of the process: the verification calls (mount id, filesystem type) that an
            # unfaulted process makes in a later lookup are still made after a fault at first use — a fault must not
            # switch checks off for later calls (more of them is fine: re-initialisation, the emulated procfs resolver)
            sig = next((x[5:] for x in t if x.startswith("sig2=")), None)
            if sig is not None:
                hist = dict((a.split(":")[0], int(a.split(":")[1])) for a in sig.split(",") if ":" in a)
                if t[1] == "base":
                    base_hist[label] = hist
                elif not bad and any(x == "second=ok" for x in t) and label in base_hist:
                    for kind in ("statx", "fstatfs"):
                        if hist.get(kind, 0) < base_hist[label].get(kind, 0):
                            bad = (f"after a fault at first use a later lookup makes {hist.get(kind, 0)} {kind} calls where a process "
                                   f"that never saw the fault makes {base_hist[label].get(kind, 0)}: a check was switched off for the rest of the process")
                            init["checks_switched_off"] = init.get("checks_switched_off", 0) + 1
                            break
            if bad:
                facts = {"kind": "oracle", "oracle": bad, "suite": "fault-init", "line": line.strip()[:300]}
                v.fail(facts, {"why": "first-use initialisation under an injected fault: " + bad, "case": {"line": line.strip()}})
    cov["first_use_initialisation"] = init
    cov["evaluations"] += init["runs"]
    return cov


def oracle_effect(c):
    """C12/C13/C14: the tree after the call is exactly the expected one (computed by the harness from the snapshot before,
    the reported outcome and independent in-root look-ups)."""
    if c.res[:1] == ["panic"]:
        return "the operation panicked"
    for t in c.extra.get("effect", []):
        if t and t[0] == "DIFF":
            return " ".join(t[1:])
    return None


def effect_stats(runs):
    st = {}
    for r in runs:
        for c in r.cases:
            for t in c.extra.get("effect", []):
                k = " ".join(t[:2])
                st[k] = st.get(k, 0) + 1
    return st


def check_C14(v, tier, seed):
    n = sizes(tier, 1200, 20000)
    runs = [Run("C14-valid", ["root", "--ops", "single_valid", "--seed", str(seed), "--n", str(n)]),
            Run("C14-single", ["root", "--ops", "single", "--seed", str(seed + 31), "--n", str(n // 2)]),
            Run("C14-valid-enosys", ["root", "--ops", "single_valid", "--seed", str(seed + 7919), "--n", str(max(n // 3, 100)), "--no-openat2"])]
    concrete = run_oracle_cases(v, runs, oracle_effect, "a single-entry operation did not have exactly the effect of the *at call on (in-root parent, final name)")
    concrete |= run_oracle_cases(v, runs, oracle_outside_untouched, "a single-entry operation changed something outside the root")
    # the hand-made operations of the fault grid (6 of them: rename plain / NOREPLACE onto an existing name / EXCHANGE,
    # create_file, …) with every system call failing in turn with every errno of the catalogue: the flags of a rename
    # hold whatever fails (no fallback that drops them)
    frun = Run("C14-fault-classics", ["fault", "--seed", str(seed + 17), "--n", "6", "--per-case", str(sizes(tier, 400, 2000))])
    concrete |= run_oracle_cases(v, [frun], lambda c: oracle_rename_flags(c) or next(
        ("success reported for work that was not done: " + " ".join(t[1:]) for t in c.extra.get("post", [])
         if t and t[0] == "BAD" and c.op[:1] == ["rename"]), None),
        "a rename's flags did not hold under an injected fault")
    runs.append(frun)
    broken = generic_tie(v, runs, concrete)
    cov = coverage_of(runs)
    cov["tie_mismatches"] = broken
    cov["effect_verdicts"] = effect_stats(runs)
    strace_tie_step(v, "C14", [["root", "--ops", "single_valid", "--seed", str(seed + 53), "--n", str(sizes(tier, 150, 2000))]], cov)
    return cov


def check_C12(v, tier, seed):
    n = sizes(tier, 1000, 15000)
    runs = [Run("C12-mkdir_all", ["root", "--ops", "mkdir_all", "--seed", str(seed), "--n", str(n)]),
            Run("C12-mkdir_all-enosys", ["root", "--ops", "mkdir_all", "--seed", str(seed + 7919), "--n", str(max(n // 3, 100)), "--no-openat2"])]
    concrete = run_oracle_cases(v, runs, oracle_effect, "mkdir_all did not create exactly the missing directories")
    # mkdir_all by a thread with its own descriptor table (unshare(CLONE_FILES)) while the leader holds another directory
    # under the same numbers: the directories are created where the path says
    urun = Run("C12-mkdir-unshared", ["lookup-unshared"])
    concrete |= run_oracle_cases(v, [urun], oracle_unshared, "mkdir_all from a thread with a private descriptor table")
    runs.append(urun)
    # an independent expectation for success/failure: the same call on the other backend (the kernel's own in-root
    # resolution decides what exists); a mkdir_all that fails where it has to create is caught here with its input
    pairs = 0
    for r in runs[:1]:
        for k, e in pair_backends(r):
            pairs += 1
            msg = oracle_backends_agree(k, e)
            if msg:
                facts = case_facts(e)
                facts["kind"] = "oracle"
                facts["oracle"] = msg
                v.fail(facts, {"why": "mkdir_all: the two backends disagree about the same tree and path: " + msg,
                               "case": {"kernel_backend": k.raw, "emulated_backend": e.raw}})
                concrete.add((r.name, k.id))
                concrete.add((r.name, e.id))
    broken = generic_tie(v, runs, concrete)
    cov = coverage_of(runs)
    cov["tie_mismatches"] = broken
    cov["effect_verdicts"] = effect_stats(runs)
    cov["backend_pairs_compared"] = pairs
    cov.update(race_suite(v, "C12", "mkdir_all", tier, seed))
    strace_tie_step(v, "C12", [["root", "--ops", "mkdir_all", "--seed", str(seed + 53), "--n", str(sizes(tier, 150, 2000))]], cov)
    return cov


def check_C13(v, tier, seed):
    n = sizes(tier, 1000, 15000)
    runs = [Run("C13-remove_all", ["root", "--ops", "remove_all", "--seed", str(seed), "--n", str(n)]),
            Run("C13-remove_all-enosys", ["root", "--ops", "remove_all", "--seed", str(seed + 7919), "--n", str(max(n // 3, 100)), "--no-openat2"])]
    concrete = run_oracle_cases(v, runs, oracle_effect, "remove_all did not remove exactly the named subtree")
    concrete |= run_oracle_cases(v, runs, oracle_outside_untouched, "remove_all changed something outside the root")
    broken = generic_tie(v, runs, concrete)
    cov = coverage_of(runs)
    cov["tie_mismatches"] = broken
    cov["effect_verdicts"] = effect_stats(runs)
    cov.update(race_suite(v, "C13", "remove_all", tier, seed))
    strace_tie_step(v, "C13", [["root", "--ops", "remove_all", "--seed", str(seed + 53), "--n", str(sizes(tier, 150, 2000))],
                               ["root", "--ops", "remove_all", "--seed", str(seed + 59), "--n", str(sizes(tier, 100, 1000)), "--unpriv"]], cov)
    return cov


def race_suite(v, prop, op, tier, seed):
    """threads racing the same operation; every thread's transcript is replayed through the model"""
    n = sizes(tier, 60, 600)
    r = Run(f"{prop}-race", ["race", "--op", op, "--seed", str(seed), "--n", str(n)])
    bad = 0
    rounds = 0
    for c in r.cases:
        for t in c.extra.get("race", []):
            rounds += 1
            if t and t[0] == "BAD":
                bad += 1
                facts = case_facts(c)
                facts["kind"] = "oracle"
                facts["oracle"] = " ".join(t)
                # the path of the thread the line is about: "BAD thread 3 op remove_all x6e2f2e2e2f6e failed: ..."
                hx = next((x for x in t if x.startswith("x") and len(x) > 1), None)
                if hx:
                    try:
                        facts["race_path"] = unhex(hx).decode("latin1")
                    except Exception:
                        pass
                v.fail(facts, case_replay(c, f"concurrent {op} calls: " + " ".join(t[1:])))
    broken = generic_tie(v, [r], set())
    return {"race_rounds": rounds, "race_thread_transcripts_replayed": len(r.cases), "race_bad": bad, "race_tie_mismatches": broken}


def oracle_host_untouched(c):
    """C03 under attack: whatever the attacker did at the boundary, nothing that was never inside the root changed and no
    descriptor of such an object was handed back."""
    if c.res[:1] == ["panic"]:
        return "the operation panicked under an attacker schedule"
    for t in c.extra.get("host", []):
        if t and t[0] == "CHANGED":
            return "an entry whose parent directory was never inside the root changed: " + " ".join(t[1:])
    for t in c.extra.get("hostfd", []):
        if t and t[0] == "OUT":
            return "the operation returned a descriptor of an object that was never inside the root: " + " ".join(t[1:])
    return None


def check_C03(v, tier, seed):
    runs = root_runs("C03", tier, seed, "mutating", 1500, 30000)
    concrete = run_oracle_cases(v, runs, oracle_outside_untouched, "a mutating operation changed something outside the root")
    # the attacker on the real filesystem: one mutation (entry of the operation's path moved out, replaced by a link to a
    # host directory or file, exchanged, moved up) performed by the interposer before every system-call boundary of the
    # operation, permanently or undone one call later; the host side is compared before and after
    n = sizes(tier, 24, 120)
    per = sizes(tier, 120, 500)
    aruns = [Run("C03-attack-mut", ["attack-mut", "--seed", str(seed + 11), "--n", str(n), "--per-case", str(per)]),
             Run("C03-attack-mut-enosys", ["attack-mut", "--seed", str(seed + 104743), "--n", str(max(n // 2, 18)),
                                           "--per-case", str(per), "--no-openat2"])]
    concrete |= run_oracle_cases(v, aruns, oracle_host_untouched, "a mutating operation touched the host under an attacker schedule")
    runs = runs + aruns
    # every call of a mutating operation names one no-follow component below a descriptor (what C03_*_targets prove of
    # the model): a call that does not is the concrete way out of the root for an attacker who swaps the entry
    ncalls, _ = disc_oracle(v, runs, concrete)
    broken = generic_tie(v, runs, concrete)
    cov = coverage_of(runs)
    cov["tie_mismatches"] = broken
    cov["calls_checked_against_Disc"] = ncalls
    muts = {}
    for r in aruns:
        for c in r.cases:
            a = c.extra.get("attack", [[]])[0]
            name = next((t for t in a if not t.startswith(("at=", "flip="))), "none")
            muts[name] = muts.get(name, 0) + 1
    cov["attacker_schedules"] = sum(len(r.cases) for r in aruns)
    cov["attacker_mutation_distribution"] = muts
    strace_tie_step(v, "C03", [["root", "--ops", "mutating", "--seed", str(seed + 31), "--n", str(sizes(tier, 150, 2000))],
                               ["root", "--ops", "mutating", "--seed", str(seed + 61), "--n", str(sizes(tier, 100, 1000)), "--unpriv"]], cov)
    return cov


def check_C04(v, tier, seed):
    runs = root_runs("C04", tier, seed, "all", 1500, 30000, with_enosys=False)
    concrete = set()
    pairs = 0
    for r in runs:
        for k, e in pair_backends(r):
            pairs += 1
            msg = oracle_backends_agree(k, e)
            if msg:
                facts = case_facts(e)
                facts["kind"] = "oracle"
                facts["oracle"] = msg
                v.fail(facts, {"why": "backends disagree: " + msg,
                               "case": {"kernel_backend": k.raw, "emulated_backend": e.raw}})
                concrete.add((r.name, k.id))
                concrete.add((r.name, e.id))
    broken = generic_tie(v, runs, concrete)
    cov = coverage_of(runs)
    cov["tie_mismatches"] = broken
    cov["backend_pairs_compared"] = pairs
    return cov


def disc_oracle(v, runs, concrete):
    """the decidable call predicate Disc (Pathrs/Discipline.lean, the subject of the C05 theorems) evaluated by the
    model driver on every recorded call: single components, dirfd-relative, no-follow (a followed open must be the
    fd/<n> magic-link of a reopen), close-on-exec, O_NOCTTY, the fixed RESOLVE_* masks"""
    follow = 0
    ncalls = 0
    for r in runs:
        disc = r.extra.get("disc", {})
        for c in r.cases:
            d = disc.get(c.id)
            ncalls += len(c.events)
            if d is None or d[0] != "ok":
                facts = case_facts(c)
                facts["kind"] = "oracle"
                facts["oracle"] = d[1] if d else "no discipline verdict"
                v.fail(facts, case_replay(c, "a recorded system call violates the discipline predicate Disc: " + facts["oracle"]))
                concrete.add((r.name, c.id))
            else:
                for t in d[1].split():
                    if t.startswith("follow_opens="):
                        follow += int(t.split("=")[1])
    return ncalls, follow


def check_C05(v, tier, seed):
    runs = root_runs("C05", tier, seed, "all", 1200, 20000)
    concrete = set()
    # the procfs handle constructors make system calls too (fsopen, fsmount, open_tree, the open of /proc)
    ctor = constructor_step(v, "C05", runs, concrete)
    ncalls, follow = disc_oracle(v, runs, concrete)
    broken = generic_tie(v, runs, concrete)
    cov = coverage_of(runs)
    cov["tie_mismatches"] = broken
    cov["calls_checked_against_Disc"] = ncalls
    cov["follow_opens_seen"] = follow
    cov["handle_constructors"] = ctor
    strace_tie_step(v, "C05", [["root", "--ops", "all", "--seed", str(seed + 37), "--n", str(sizes(tier, 200, 3000))],
                               ["root", "--ops", "all", "--seed", str(seed + 67), "--n", str(sizes(tier, 120, 1500)), "--unpriv"],
                               ["root", "--ops", "remove_all", "--seed", str(seed + 60), "--n", str(sizes(tier, 250, 1500)), "--unpriv"],
                               ["proc-live", "--seed", str(seed + 41), "--n", str(sizes(tier, 60, 600))],
                               ["reopen", "--seed", str(seed + 43)]], cov)
    return cov


def check_C11(v, tier, seed):
    runs = root_runs("C11", tier, seed, "all", 1500, 30000)
    # the C API keeps failed calls' error values in its table until pathrs_errorinfo() consumes them: the descriptor
    # table is compared while the error is still pending
    runs.append(Run("C11-capi", ["capi-args"] + (["--thorough"] if tier == "thorough" else [])))
    # a process started with stdin closed: descriptor 0 is free, so the first descriptor the kernel hands out during each
    # operation is number 0 (a valid descriptor, which must be wrapped, returned or closed like any other)
    runs.append(Run("C11-capi-fd0", ["capi-args", "--fd0-free"]))
    runs.append(Run("C11-root-fd0", ["root", "--ops", "all", "--seed", str(seed + 15485863), "--n", str(sizes(tier, 300, 4000)), "--fd0-free"]))
    runs.append(Run("C11-root-fd0-enosys", ["root", "--ops", "all", "--seed", str(seed + 32452843), "--n", str(sizes(tier, 150, 2000)),
                                            "--fd0-free", "--no-openat2"]))
    # the procfs API too (masked global handle: the ENOENT retry creates and must drop a temporary unmasked handle),
    # reopen, and reopen under single faults
    runs.append(Run("C11-proc-live", ["proc-live", "--seed", str(seed + 59), "--n", str(sizes(tier, 120, 800))]))
    runs.append(Run("C11-reopen", ["reopen", "--seed", str(seed + 67)]))
    runs.append(Run("C11-reopen-fault", ["reopen-fault", "--seed", str(seed)]))
    concrete = run_oracle_cases(v, runs, oracle_fd_table, "descriptor table not restored")
    # the long-lived descriptors of procfs handles: every constructor, close-on-exec
    ctor = constructor_step(v, "C11", runs, concrete)
    # the descriptor ledger (Pathrs/Ledger.lean) evaluated by the model driver on the recorded calls: everything the call
    # was handed and did not close is the descriptor it returns; it never closes a descriptor it was not handed
    led = {"ok": 0, "skip": 0, "BAD": 0}
    for r in runs:
        for cid, (verdict, line) in r.extra.get("ledger", {}).items():
            led[verdict] = led.get(verdict, 0) + 1
            if verdict == "BAD" and (r.name, cid) not in concrete:
                c = r.by_id.get(cid)
                facts = case_facts(c) if c and c.op and c.op[0] not in ("proc_new",) and not c.op[0].startswith("proc_") else {"case": cid}
                facts.update({"kind": "oracle", "oracle": line})
                v.fail(facts, case_replay(c, "descriptor ledger of the recorded calls: " + line) if c else {"why": line})
                concrete.add((r.name, cid))
    broken = generic_tie(v, runs, concrete)
    cov = coverage_of(runs)
    cov["tie_mismatches"] = broken
    cov["handle_constructors"] = ctor
    cov["ledger_verdicts"] = led
    cov["first_use_descriptors"] = first_use_fd_step(v, tier)
    # descriptors opened, duplicated or closed behind the recorder's back
    strace_tie_step(v, "C11", [["root", "--ops", "all", "--seed", str(seed + 47), "--n", str(sizes(tier, 150, 2000))],
                               ["capi-args"]], cov)
    return cov


def first_use_fd_step(v, tier):
    """The library's first use in a fresh process (no warm-up), in three orders: the only descriptor that may outlive a
    call is the process-global procfs handle (one, close-on-exec, the root of a procfs), created by whichever call needs
    it first; every later call leaves the table as it found it."""
    st = {"steps": 0, "scenarios": 0, "global_handles_seen": 0, "modes": []}
    for label, extra in (("openat2", []), ("enosys", ["--no-openat2"])):
        out = os.path.join(CACHE, "runs", f"C11-fd-init-{label}.txt")
        run_harness(["fd-init"] + extra, out)
        st["modes"].append(label)
        kept = {}
        for line in open(out):
            t = line.split()
            if not t or t[0] != "fdinit":
                continue
            kv = dict(x.split("=", 1) for x in t[1:] if "=" in x and not x.startswith(("+", "-")))
            sc, step = kv.get("scenario"), kv.get("step")
            st["steps"] += 1
            extras = [x for x in t if x.startswith("+")]
            closed = [x for x in t if x.startswith("-") and x[1:].isdigit()]
            bad = None
            if kv.get("res", "").startswith("DIED"):
                bad = "the fresh process died during first use"
            if closed:
                bad = f"the call closed descriptors it does not own: {closed}"
            for x in extras:
                d = dict(y.split("=", 1) for y in x.split(":", 1)[1].split(",") if "=" in y)
                is_global = d.get("fstype") == PROC_MAGIC and d.get("cloexec") == "1" and d.get("kind") == "d" and d.get("path") == "x2f"
                if is_global and sc not in kept:
                    kept[sc] = x
                    st["global_handles_seen"] += 1
                elif is_global:
                    bad = f"a second long-lived procfs descriptor stays open after {step}: {x} (already kept: {kept[sc]})"
                else:
                    bad = f"a descriptor that is not the process-global procfs handle stays open after {step}: {x}"
            if bad:
                facts = {"kind": "oracle", "oracle": bad, "suite": "fd-init", "mode": label, "scenario": sc, "step": step}
                v.fail(facts, {"why": "first use of the library in a fresh process: " + bad, "case": {"line": line.strip()},
                               "how": f"verif-harness fd-init {' '.join(extra)}"})
        st["scenarios"] += len(kept)
    return st


def proc_facts(c):
    f = {"case": c.id, "op": c.op[0], "base": c.op[1], "flags": c.op[2], "handle": c.meta.get("handle"),
         "hemu": c.cfg.get("hemu"), "res": " ".join(c.res)}
    try:
        f["path"] = unhex(c.op[3]).decode("latin1")
    except Exception:
        pass
    for k in ("mask", "dst", "over", "visible", "env", "class", "uid"):
        if k in c.meta:
            f[k] = c.meta[k]
    return f


def res_fd(c):
    if c.res[:2] == ["ok", "fd"]:
        return c.kv(c.res[2:])
    return None


PROC_MAGIC = "40864"


def constructor_step(v, prop, runs, concrete):
    """The handle constructors (ProcfsHandle::new, new_unmasked and the five explicit ones), recorded and replayed through
    the model, in three privilege situations: root; root of a user namespace that does not own the pid namespace
    (fsopen of procfs is refused, open_tree is not); uid 65534 (neither works).  Oracle: whoever *can* get a private
    procfs instance from one of the explicit constructors gets one from new() / new_unmasked() too — not the host mount."""
    import shutil
    import tempfile
    tmp = tempfile.mkdtemp(prefix="vh-new-", dir="/tmp")
    os.chmod(tmp, 0o777)
    envs = [("root", []), ("userns-root", ["unshare", "-Ur", "-m"]),
            ("nobody", ["setpriv", "--reuid=65534", "--regid=65534", "--clear-groups"])]
    stats = {"environments": [], "skipped": []}
    try:
        for name, prefix in envs:
            out = os.path.join(tmp, name + ".txt")
            rc, log = vlib.sh(prefix + [vlib.HARNESS_BIN, "proc-new", "--work", f"{tmp}/w-{name}", "--out", out], timeout=300)
            if rc != 0 or not os.path.exists(out):
                stats["skipped"].append(f"{name}: rc={rc} {log[-200:]}")
                continue
            r = Run.__new__(Run)
            r.name = f"{prop}-new-{name}"
            r.args = ["proc-new"]
            r.tpath = os.path.join(CACHE, "runs", f"{r.name}.txt")
            r.opath = os.path.join(CACHE, "runs", f"{r.name}.out")
            os.makedirs(os.path.dirname(r.tpath), exist_ok=True)
            shutil.copy(out, r.tpath)
            r.cases = parse_cases(r.tpath)
            r.verdicts, r.extra = run_model(r.tpath, r.opath)
            r.by_id = {c.id: c for c in r.cases}
            runs.append(r)
            stats["environments"].append(name)
            res = {}
            for c in r.cases:
                kv = dict(t.split("=", 1) for t in c.res[2:] if "=" in t) if c.res[:2] == ["ok", "handle"] else None
                res[c.meta.get("kind")] = (c, kv)
            for k, (c, kv) in res.items():
                if kv is not None and kv.get("cloexec") != "1":
                    msg = f"the descriptor of the procfs handle made by {k}() is not close-on-exec (fd {kv.get('fd')})"
                    facts = {"kind": "oracle", "oracle": msg, "case": c.id, "op": "proc_new", "env": name, "constructor": k}
                    v.fail(facts, case_replay(c, f"[{name}] " + msg, {"environment": " ".join(prefix) or "root"}))
                    concrete.add((r.name, c.id))
            host = (res.get("unsafe_open") or (None, None))[1]
            private_possible = [k for k in ("fsopen_subset", "fsopen_full", "open_tree", "open_tree_recursive")
                                if (res.get(k) or (None, None))[1] is not None]
            for k in ("new", "new_unmasked"):
                c, kv = res.get(k) or (None, None)
                if c is None:
                    continue
                msg = None
                if c.res[:1] == ["panic"]:
                    msg = f"{k}() panicked"
                elif kv is None and host is not None:
                    msg = f"{k}() failed although the host /proc can be opened: {' '.join(c.res[:4])}"
                elif kv is not None and host is not None and private_possible and kv.get("mnt") == host.get("mnt"):
                    msg = (f"{k}() returned a handle on the host /proc mount (mount id {kv.get('mnt')}) although a private procfs "
                           f"instance can be created here ({', '.join(private_possible)} succeed): over-mounts made later are visible to it")
                if msg:
                    facts = {"kind": "oracle", "oracle": msg, "case": c.id, "op": "proc_new", "env": name, "constructor": k}
                    v.fail(facts, case_replay(c, f"[{name}] " + msg, {"environment": " ".join(prefix) or "root"}))
                    concrete.add((r.name, c.id))
    finally:
        shutil.rmtree(tmp, ignore_errors=True)
    return stats


def check_C06(v, tier, seed):
    if tier == "thorough":
        import random
        rnd = random.Random(seed)
        masks = [0, 4095] + [1 << i for i in range(12)] + [4095 ^ (1 << i) for i in range(12)] + \
            [rnd.randrange(1, 4095) for _ in range(40)]
    else:
        masks = [0, 4095, 4087, 1365, 2730]
    # procfs symlinks (net, self, thread-self) replaced by links into another process, one at a time
    masks += [4096, 8192, 16384]
    # a FIFO nobody writes to over a procfs file: the lookups are repeated with blocking flags and timed
    masks += [32768]
    runs = [Run("C06-overmount", ["proc-overmount", "--masks", ",".join(str(m) for m in masks)])]
    # with the over-mounts in place, every mount-id / fs-type probe of a lookup fails in turn with ENOSYS, EINVAL
    # ("cannot tell") and EACCES: the verification has to fail closed, the over-mounted object is never returned
    runs.append(Run("C06-overmount-faults", ["proc-overmount", "--masks", "0,4095" + (",4087,1365" if tier == "thorough" else ""),
                                             "--faults"]))
    if tier == "thorough":
        runs.append(Run("C06-overmount-enosys", ["proc-overmount", "--masks", "0,4095,4087", "--no-openat2"]))
        runs.append(Run("C06-overmount-enosys-faults", ["proc-overmount", "--masks", "0,4095", "--no-openat2", "--faults"]))
    concrete = set()
    stats = {"visible_overmounted_lookups": 0, "exdev": 0, "private_lookups": 0, "skipped": 0}
    for r in runs:
        pristine = {}
        pristine_path = {}
        for c in r.cases:
            if c.op[:1] == ["skip"]:
                stats["skipped"] += 1
                continue
            key = (c.meta.get("handle"), c.cfg.get("hemu"), tuple(c.op))
            if c.meta.get("mask") == "0":
                d = res_fd(c)
                pristine[key] = (c.res[:3] if d is None else ["ok", "fd", d.get("kind"), d.get("fstype")])
                if d is not None:
                    pristine_path[key] = d.get("path")
        for c in r.cases:
            if c.op[:1] == ["skip"]:
                continue
            msg = None
            layout = c.meta.get("layout", "none")
            overs = set()
            if layout != "none":
                for item in layout.split(","):
                    overs.add(item.rsplit("@", 1)[1])
            d = res_fd(c)
            visible = c.meta.get("visible") == "1"
            over = c.meta.get("over", "none")
            # the base of the lookup itself (the /proc/self or /proc/thread-self symlink) is over-mounted
            base_dst = {"thread_self": "/proc/thread-self", "self": "/proc/self"}.get(c.op[1] if len(c.op) > 1 else "")
            base_over = bool(base_dst) and layout != "none" and any(i.rsplit("@", 1)[0] == base_dst for i in layout.split(","))
            if visible and base_over and over == "none":
                stats["visible_overmounted_base_lookups"] = stats.get("visible_overmounted_base_lookups", 0) + 1
                over = "base"
            if visible and over != "none":
                stats["visible_overmounted_lookups"] += 1
                if c.res[:3] == ["err", "OsError", "18"]:
                    stats["exdev"] += 1
            el = (c.extra.get("elapsed") or [None])[0]
            if el and int(el[0]) > 1500:
                stats["blocked_lookups"] = stats.get("blocked_lookups", 0) + 1
                msg = (f"a lookup of an entry that is over-mounted with a FIFO blocked for {el[0]} ms: what is mounted there was "
                       "opened for I/O before the mount was looked at (whoever made the mount decides if and when the call returns)")
            elif el:
                stats["timed_lookups_on_fifo_overmount"] = stats.get("timed_lookups_on_fifo_overmount", 0) + 1
            if msg is None and d is not None:
                ident = f"{d.get('dev')}:{d.get('ino')}"
                if ident in overs:
                    msg = f"the over-mounted object {ident} was returned"
                elif visible and over == "base":
                    msg = (f"{base_dst} itself is visibly over-mounted, and a lookup below that base succeeded instead of failing "
                           "with EXDEV")
                elif visible and over != "none":
                    msg = "lookup of a visibly over-mounted entry succeeded instead of failing with EXDEV"
                elif c.op[0] == "proc_open" and (d.get("fstype") != PROC_MAGIC or
                                                  (d.get("mnt") != c.cfg.get("hmnt") and c.cfg.get("hsubset") != "1")):
                    # (a masked handle may answer from a fresh private unmasked procfs: other mount id, still procfs)
                    msg = f"non-following open returned an object that is not on the handle's procfs mount: {d}"
            if msg is None and d is not None and c.meta.get("mask") != "0" and c.op[0] == "proc_open":
                # whatever is mounted wherever: a successful non-following lookup names the object it names on the pristine procfs
                key = (c.meta.get("handle"), c.cfg.get("hemu"), tuple(c.op))
                want = pristine_path.get(key)
                if want is not None and d.get("path") not in (None, "x") and want != d.get("path"):
                    stats["path_identity_checks"] = stats.get("path_identity_checks", 0) + 1
                    msg = (f"lookup returned another object than on the pristine procfs: "
                           f"{unhex(want).decode('latin1')} there, {unhex(d.get('path')).decode('latin1')} under this layout")
                elif want is not None:
                    stats["path_identity_checks"] = stats.get("path_identity_checks", 0) + 1
            if msg is None and not visible and c.meta.get("mask") != "0":
                stats["private_lookups"] += 1
                key = (c.meta.get("handle"), c.cfg.get("hemu"), tuple(c.op))
                want = pristine.get(key)
                got = (c.res[:3] if d is None else ["ok", "fd", d.get("kind"), d.get("fstype")])
                if want is not None and want != got:
                    msg = f"private handle affected by host over-mounts: pristine {want}, now {got}"
            if msg:
                facts = proc_facts(c)
                facts.update({"kind": "oracle", "oracle": msg})
                v.fail(facts, case_replay(c, msg))
                concrete.add((r.name, c.id))
    ctor = constructor_step(v, "C06", runs, concrete)
    # one mount racing with a non-following lookup: placed before the k-th system call, for every k
    rm = Run("C06-racemount", ["proc-racemount"])
    race = {"cases": 0, "mounted_during_lookup": 0, "exdev": 0, "genuine_object": 0}
    for c in rm.cases:
        if c.op[:1] == ["skip"]:
            continue
        race["cases"] += 1
        ident = (c.extra.get("racemount", [["none"]])[0] or ["none"])[0]
        d = res_fd(c)
        if ident != "none":
            race["mounted_during_lookup"] += 1
            if c.res[:3] == ["err", "OsError", "18"]:
                race["exdev"] += 1
            if d is not None:
                if f"{d.get('dev')}:{d.get('ino')}" == ident:
                    facts = proc_facts(c)
                    msg = (f"a mount placed over {c.meta.get('dst')} before system call {c.meta.get('race_at')} of the lookup: "
                           f"the over-mounted object {ident} was returned")
                    facts.update({"kind": "oracle", "oracle": msg})
                    v.fail(facts, case_replay(c, msg))
                    concrete.add((rm.name, c.id))
                else:
                    race["genuine_object"] += 1
    runs.append(rm)
    broken = generic_tie(v, runs, concrete)
    cov = coverage_of(runs, nontrivial=lambda c: c.meta.get("mask") not in (None, "0"),
                      key=lambda c: (c.meta.get("mask"), c.meta.get("handle"), c.cfg.get("hemu"), tuple(c.op),
                                     repr(c.extra.get("fault"))))
    cov["probe_faults_with_overmounts"] = sum(1 for r in runs for c in r.cases if c.extra.get("fault"))
    cov["rule"] = ("private mount namespace; subsets (masks) of 12 over-mountable procfs entries (files, directories, symlinks, "
                   "magic-links; tmpfs / foreign file / other procfs object) x 7 handle kinds x both resolvers x "
                   "{open O_PATH, open O_RDONLY, open_follow, readlink} on every candidate and on symlinks whose target is "
                   "over-mounted; non-trivial = at least one over-mount present")
    cov["tie_mismatches"] = broken
    cov["layouts"] = len(masks)
    cov["handle_constructors"] = ctor
    cov["pspec_vs_live_kernel"] = pspec_validation(v, "C06", seed, sizes(tier, 600, 6000))
    cov["racing_mount"] = race
    cov.update(stats)
    return cov


def check_C07(v, tier, seed):
    n = sizes(tier, 250, 1500)
    runs = [Run("C07-live", ["proc-live", "--seed", str(seed), "--n", str(n)])]
    if tier == "thorough":
        runs.append(Run("C07-live-enosys", ["proc-live", "--seed", str(seed + 1), "--n", str(n // 2), "--no-openat2"]))
    concrete = set()
    pairs = 0
    for r in runs:
        for c in r.cases:
            msg = None
            path = unhex(c.op[3])
            comps = path.split(b"/")
            flags = int(c.op[2])
            d = res_fd(c)
            creation = flags & (0o100 | 0o200) or (flags & 0o20200000) == 0o20200000
            # open_follow adds O_DIRECTORY for a trailing slash: the bare __O_TMPFILE bit then is O_TMPFILE (finding F21)
            if c.op[0] == "proc_open_follow" and flags & 0o20000000 and path.endswith(b"/") and path.strip(b"/"):
                creation = True
            if creation and c.op[0] != "proc_readlink":
                if c.res[:1] != ["err"]:
                    msg = f"creation flags not refused: {' '.join(c.res)}"
            elif b".." in comps and d is not None and c.cfg.get("hemu") == "1":
                msg = "the emulated resolver walked through '..'"
            elif c.op[0] == "proc_open" and d is not None and d.get("fstype") != PROC_MAGIC:
                msg = f"non-following open left procfs: {d}"
            if msg:
                facts = proc_facts(c)
                facts.update({"kind": "oracle", "oracle": msg})
                v.fail(facts, case_replay(c, msg))
                concrete.add((r.name, c.id))
        # resolver vs resolver
        for c in r.cases:
            if not c.id.endswith("k"):
                continue
            e = r.by_id.get(c.id[:-1] + "e")
            if e is None:
                continue
            pairs += 1
            path = unhex(c.op[3])
            if path == b"" or b".." in path.split(b"/"):
                continue  # outside the agreement clause of the property
            if int(c.op[2]) & 0o20000000 and (int(c.op[2]) & 0o20200000) != 0o20200000:
                continue  # the bare __O_TMPFILE bit is not a flag set openat2 accepts (EINVAL); only the F21 clause uses it
            import re as _re
            mfd = _re.search(rb"(^|/)fd(info)?/(\d+)", path)
            if mfd and int(mfd.group(3)) > 2:
                continue  # descriptors of the harness itself differ between the two runs
            def canon(x):
                dd = res_fd(x)
                if dd is None:
                    return tuple(x.res[:3])
                # (inode numbers of per-process entries differ between procfs instances)
                return ("ok", "fd", dd.get("kind"), dd.get("fstype"), int(dd.get("fl", "0")) & ~0o400000)
            if canon(c) != canon(e):
                facts = proc_facts(e)
                facts.update({"kind": "oracle", "oracle": f"procfs resolvers disagree: kernel {canon(c)} emulated {canon(e)}",
                              "kernel_res": " ".join(c.res[:3]), "emulated_res": " ".join(e.res[:3])})
                v.fail(facts, {"why": facts["oracle"], "case": {"kernel_resolver": c.raw, "emulated_resolver": e.raw}})
                concrete.add((r.name, c.id))
                concrete.add((r.name, e.id))
    broken = generic_tie(v, runs, concrete)
    cov = coverage_of(runs, nontrivial=lambda c: len(c.events) >= 3,
                      key=lambda c: (c.meta.get("handle"), c.cfg.get("hemu"), tuple(c.op)))
    cov["rule"] = ("sub-paths built from the live listings of /proc, /proc/self, /proc/thread-self (every fd and ns link, with "
                   "'.', '..', '', trailing-slash decorations, non-existent tails) x {open, open_follow, readlink} x 10 flag sets "
                   "x {private full procfs, host /proc} x both resolvers; non-trivial = at least 3 system calls")
    cov["tie_mismatches"] = broken
    cov["resolver_pairs_compared"] = pairs
    cov["pspec_vs_live_kernel"] = pspec_validation(v, "C07", seed, sizes(tier, 800, 8000))
    return cov


def pspec_validation(v, prop, seed, n):
    """PWorld.resolveBeneath (Kernel/ProcWorld.lean), the trusted specification of
    openat2(RESOLVE_BENEATH|RESOLVE_NO_XDEV|RESOLVE_NO_MAGICLINKS) behind the C06/C07 refinement theorems, evaluated by the
    model driver on generated trees against the live kernel's answer to that very call (harness `kernb` line)."""
    r = Run(f"{prop}-pspec", ["root", "--ops", "lookups", "--seed", str(seed + 61), "--n", str(n)])
    st = {"ok": 0, "skip": 0, "DIFF": 0}
    for cid, (verdict, line) in r.extra.get("pspec", {}).items():
        st[verdict] = st.get(verdict, 0) + 1
        if verdict == "DIFF":
            c = r.by_id.get(cid)
            facts = case_facts(c) if c else {}
            facts.update({"kind": "spec", "verdict": line})
            v.fail(facts, case_replay(c, "the specification PWorld.resolveBeneath disagrees with the live kernel's "
                                         "openat2(RESOLVE_BENEATH|RESOLVE_NO_XDEV|RESOLVE_NO_MAGICLINKS) on this tree and path: " + line,
                                      {"broken": ["validation of PWorld.resolveBeneath against raw openat2"]}), concrete=False)
    return st


def oracle_reopen(c):
    """C09: a successful reopen is a descriptor of the handle's inode with the requested mode and flags;
    creation flags and symlink handles are refused.  Returns (message or None, 1 if the same inode was returned)."""
    msg = None
    same_inode = 0
    flags = int(c.op[2])
    creation = flags & (0o100 | 0o200) or (flags & 0o20200000) == 0o20200000
    h = c.handle or {}
    d = res_fd(c)
    faulted = any(f[:1] != ["none"] for f in c.extra.get("fault", []))
    if creation:
        if c.res[:2] != ["err", "InvalidArgument"]:
            msg = f"creation flags not refused: {' '.join(c.res[:4])}"
        elif c.events:
            msg = "system calls made although creation flags must be refused up front"
    elif h.get("kind") == "l":
        if c.res[:3] != ["err", "OsError", "40"] and not (faulted and c.res[:1] == ["err"]):
            msg = f"reopen of a symlink handle did not fail with ELOOP: {' '.join(c.res[:4])}"
    elif d is not None:
        if d.get("label") != h.get("label") or d.get("kind") != h.get("kind"):
            msg = f"reopen returned another object: handle {h.get('label')}/{h.get('kind')} result {d.get('label')}/{d.get('kind')}"
        elif d.get("cloexec") != "1":
            msg = "reopened descriptor is not close-on-exec"
        else:
            fl = int(d.get("fl", "0"))
            if flags & 0o10000000:
                if not fl & 0o10000000:
                    msg = "O_PATH requested but not obtained"
            elif (fl & 3) != (flags & 3):
                msg = f"access mode differs: requested {flags & 3} got {fl & 3}"
            for bit, name in ((0o2000, "O_APPEND"), (0o4000, "O_NONBLOCK"), (0o1000000, "O_NOATIME"), (0o200000, "O_DIRECTORY")):
                if not msg and not (flags & 0o10000000) and bool(fl & bit) != bool(flags & bit):
                    msg = f"status flag {name} differs: requested {bool(flags & bit)} got {bool(fl & bit)}"
            if not msg:
                same_inode = 1
    # the kernel's own re-open through the /proc/self/fd/<n> magic-link, done by the harness just before the call, is what
    # reopen is specified to be: success where that succeeds, the same errno where it fails
    kref = (c.extra.get("kref") or [None])[0]
    if not msg and kref and not creation and h.get("kind") != "l" and not faulted:
        if kref[0] == "ok" and d is None:
            msg = (f"reopen failed ({' '.join(c.res[:3])}) although the kernel's re-open of the same descriptor through its "
                   f"/proc/self/fd magic-link succeeds (history: {c.meta.get('history')})")
        elif kref[0] == "err" and d is not None:
            msg = f"reopen succeeded although the kernel's re-open through the magic-link fails with errno {kref[1]}"
        elif kref[0] == "err" and c.res[:3] != ["err", "OsError", kref[1]]:
            msg = (f"reopen failed with {' '.join(c.res[:3])}, the kernel's re-open through the magic-link fails with errno {kref[1]} "
                   f"(history: {c.meta.get('history')})")
    # the same request through pathrs_reopen (the descriptor number crosses the C boundary as an int, 0 included): the same
    # object with the same flags, or the same errno
    cres = (c.extra.get("cres") or [None])[0]
    if not msg and cres and not faulted:
        if cres[0] == "ok":
            cd = dict(t.split("=", 1) for t in cres[2:] if "=" in t)
            if d is None:
                msg = f"pathrs_reopen succeeded where Handle::reopen failed ({' '.join(c.res[:3])})"
            elif any(cd.get(k) != d.get(k) for k in ("label", "kind", "fl", "cloexec")):
                msg = f"pathrs_reopen returned {' '.join(cres[2:])}, Handle::reopen {' '.join(c.res[2:])}"
        elif d is not None:
            msg = (f"pathrs_reopen of descriptor number {c.meta.get('fdnum')} failed with errno {cres[1]} where Handle::reopen of the "
                   f"same descriptor succeeds")
        elif c.res[:2] == ["err", "OsError"] and c.res[2:3] != [cres[1]]:
            msg = f"pathrs_reopen failed with errno {cres[1]}, Handle::reopen with {' '.join(c.res[:3])}"
    return msg, same_inode


def reopen_fault_cases(v, run, concrete):
    """reopen under single injected faults: an error, or the handle's inode — never another object"""
    n = 0
    tolerated = [0]
    for c in run.cases:
        n += 1
        msg, _ = oracle_reopen(c)
        f0 = c.extra.get("fault", [["none"]])[0]
        kv0 = dict(t.split("=", 1) for t in f0[1:] if "=" in t)
        if msg and msg.startswith("reopen returned another object") and kv0.get("errno") in ("2", "22") \
                and (res_fd(c) or {}).get("kind") == "l":
            # ENOENT and EINVAL are the kernel's words for "no such file" and "not a symbolic link": the answers on which
            # open_follow *by design* opens the path itself (no-follow).  An injected ENOENT/EINVAL in the readlink probe
            # is, for the library, indistinguishable from that answer (like remove_all and an injected ENOENT), so the
            # O_PATH handle to the link is the tolerated result; every other errno must surface as the error (F22).
            tolerated[0] += 1
            msg = None
        if not msg and c.res[:1] == ["panic"]:
            msg = "reopen panicked under an injected fault"
        if not msg and c.fdt and c.fdt != ["same"]:
            msg = "descriptor table changed across the call: " + " ".join(c.fdt)
        if msg:
            f = c.extra.get("fault", [["none"]])[0]
            fkv = dict(t.split("=", 1) for t in f[1:] if "=" in t)
            failed = c.events[int(fkv["at"])][0][0] if "at" in fkv and int(fkv["at"]) < len(c.events) else None
            facts = case_facts(c)
            facts.update({"kind": "oracle", "oracle": msg, "target": c.meta.get("target"), "fault": " ".join(f),
                          "fault_errno": fkv.get("errno"), "failed_call": failed, "flags": c.op[2]})
            v.fail(facts, case_replay(c, "reopen under an injected fault (" + " ".join(f) + "): " + msg))
            concrete.add((run.name, c.id))
    return {"cases": n, "tolerated_enoent_einval_in_the_probe": tolerated[0]}


def check_C09(v, tier, seed):
    args = ["reopen", "--seed", str(seed)] + (["--thorough"] if tier == "thorough" else [])
    runs = [Run("C09-reopen", args), Run("C09-reopen-unshared", ["reopen-unshared"])]
    if tier == "thorough":
        runs.append(Run("C09-reopen-enosys", args + ["--no-openat2"]))
    concrete = set()
    same_inode = 0
    for r in runs:
        for c in r.cases:
            msg = None
            for t in c.extra.get("unshared", []):
                if t and t[0] == "OTHER":
                    msg = "reopen from a thread with its own descriptor table: " + " ".join(t[1:])
            if msg:
                facts = case_facts(c)
                facts.update({"kind": "oracle", "oracle": msg})
                v.fail(facts, case_replay(c, msg))
                concrete.add((r.name, c.id))
                continue
            msg, same = oracle_reopen(c)
            same_inode += same
            if msg:
                facts = case_facts(c)
                facts.update({"kind": "oracle", "oracle": msg, "fdnum": c.meta.get("fdnum"), "history": c.meta.get("history"),
                              "target": c.meta.get("target")})
                v.fail(facts, case_replay(c, msg))
                concrete.add((r.name, c.id))
    # the outcome must not depend on the descriptor number the handle happens to have
    for r in runs:
        groups = {}
        for c in r.cases:
            k = (tuple(sorted((a, b) for a, b in c.meta.items() if a != "fdnum")), tuple(c.op), c.cfg.get("backend"),
                 (c.handle or {}).get("kind"))
            cls = ("ok",) if c.res[:1] == ["ok"] else tuple(c.res[:3])
            groups.setdefault(k, {}).setdefault(cls, []).append(c)
        for k, by_cls in groups.items():
            if len(by_cls) > 1:
                major = max(by_cls.values(), key=len)
                for cls, cs in by_cls.items():
                    if cs is major:
                        continue
                    for c in cs:
                        if (r.name, c.id) in concrete:
                            continue
                        msg = (f"reopen outcome depends on the descriptor number: fd {c.meta.get('fdnum')} gives {' '.join(cls)}, "
                               f"{len(major)} other numbers give {' '.join(major[0].res[:3])}")
                        facts = case_facts(c)
                        facts.update({"kind": "oracle", "oracle": msg, "fdnum": c.meta.get("fdnum")})
                        v.fail(facts, case_replay(c, msg))
                        concrete.add((r.name, c.id))
    rf = Run("C09-reopen-fault", ["reopen-fault", "--seed", str(seed)])
    nrf = reopen_fault_cases(v, rf, concrete)
    runs.append(rf)
    # the host's /proc over-mounted so that thread-self/fd/<n> leads into a decoy process holding another file under the
    # same descriptor number: the reopen step (open_follow(ProcThreadSelf, "fd/<n>")) on every kind of handle and both resolvers
    rom = Run("C09-reopen-overmount", ["reopen-overmount"])
    om = {"cases": 0, "same_inode": 0, "errors_on_host_visible_handles": 0, "layouts": {}}
    for c in rom.cases:
        if c.meta.get("skipped"):
            om["skipped"] = c.meta["skipped"]
            continue
        om["cases"] += 1
        lay = c.meta.get("layout")
        om["layouts"][lay] = om["layouts"].get(lay, 0) + 1
        d = res_fd(c)
        msg = None
        if d is not None:
            ident = f"{d.get('dev')}:{d.get('ino')}"
            if ident == c.meta.get("want"):
                om["same_inode"] += 1
            elif ident == c.meta.get("decoy"):
                msg = (f"re-opening descriptor 40 returned the file the decoy process holds under that number (layout {lay}): "
                       "an over-mounted /proc turned the call into a different object")
            else:
                msg = f"re-opening descriptor 40 returned another object {ident} (layout {lay})"
        elif c.res[:1] == ["panic"]:
            msg = "panic"
        elif c.meta.get("visible") == "0" or lay == "none" or c.meta.get("placed") == "0":
            msg = (f"re-open failed ({' '.join(c.res[:3])}) on a handle that does not see the host's mounts / with nothing "
                   f"mounted (layout {lay}): mounts over the host's /proc must have no effect for a private procfs")
        else:
            om["errors_on_host_visible_handles"] += 1
        if msg:
            facts = proc_facts(c)
            facts.update({"kind": "oracle", "oracle": msg, "layout": lay})
            v.fail(facts, case_replay(c, msg))
            concrete.add((rom.name, c.id))
    runs.append(rom)
    broken = generic_tie(v, runs, concrete)
    cov = coverage_of(runs, nontrivial=lambda c: True,
                      key=lambda c: (tuple(sorted(c.meta.items())), tuple(c.op), repr(c.extra.get("fault"))))
    cov["reopen_under_single_faults"] = nrf
    cov["rule"] = ("handles to {file, dir, fifo, socket, symlink (nofollow), file through a link} x forced descriptor numbers "
                   "{0,1,2,3,...,1023} (dup3) x history applied to the handle's path between resolve and reopen "
                   "{none, rename, replace by another file, unlink, moved below a path longer than PATH_MAX} x flag set (every spelling of a "
                   "creation request, with and without O_PATH, per target); oracle: (st_dev, st_ino), access mode, status flags "
                   "and FD_CLOEXEC of the result vs the handle; host /proc over-mounted (symlinks over self / thread-self into a decoy "
                   "process holding another file under the same number, tmpfs over the fd directory) x every handle kind x resolver")
    cov["tie_mismatches"] = broken
    cov["reopens_returning_the_handles_inode"] = same_inode
    cov["reopen_with_host_proc_overmounted"] = om
    return cov


C08_ENVS = [
    ("default", None),
    ("hidepid1", "hidepid=1"),
    ("hidepid2", "hidepid=2"),
    ("ptraceable", "hidepid=ptraceable"),
    ("subsetpid", "subset=pid"),
    ("subset-hidepid2", "subset=pid,hidepid=2"),
]


def check_C08(v, tier, seed):
    """privilege x host /proc options matrix, each in its own mount+pid namespace."""
    import shutil
    import tempfile
    tmp = tempfile.mkdtemp(prefix="vh-c08-", dir="/tmp")
    os.chmod(tmp, 0o777)
    runs = []
    skipped = []
    try:
        for label, opts in C08_ENVS:
            # three kinds of caller: root (fsopen of procfs works); the root of a user namespace that owns its mount
            # namespace but not its pid namespace (open_tree works, mounting a fresh procfs does not); uid 65534 (neither)
            for who, prefix in (("root", ""), ("userns", "unshare -Ur -m "),
                                ("nobody", "setpriv --reuid=65534 --regid=65534 --clear-groups ")):
                name = f"{label}-{who}"
                out = os.path.join(tmp, name + ".txt")
                harness = prefix + f"{vlib.HARNESS_BIN} proc-matrix --label {name} --work {tmp}/w-{name} --out {out}"
                mount = f"mount -t proc -o {opts} proc /proc" if opts else "mount -t proc proc /proc"
                rc, log = vlib.sh(["unshare", "-m", "-p", "-f", "sh", "-c", f"{mount} && echo MOUNT-OK && {harness}"], timeout=600)
                if rc in (126, 127) and not os.path.exists(out):
                    # the harness binary could not even be started in this environment (exec / dynamic loader failure)
                    skipped.append(f"{name}: rc={rc} {log[-200:]}")
                    continue
                if "MOUNT-OK" in log and rc != 0 and who != "userns" or (who == "userns" and os.path.exists(out) and rc != 0):
                    # the environment was set up and the harness (the library inside it) died or hung
                    cases = parse_cases(out) if os.path.exists(out) else []
                    last = cases[-1].id if cases else "none"
                    v.fail({"kind": "oracle", "oracle": f"the process died during a procfs lookup (rc={rc})", "env": name,
                            "last_completed_case": last},
                           {"why": f"in environment {name} the harness process running the lookup matrix ended with status {rc} "
                                   f"after case {last}: a lookup crashed or did not return",
                            "how": f"unshare -m -p -f sh -c '{mount} && {harness}'", "log": log[-1500:]})
                    continue
                if rc != 0 or not os.path.exists(out):
                    skipped.append(f"{name}: rc={rc} {log[-200:]}")
                    continue
                r = Run.__new__(Run)
                r.name = f"C08-{name}"
                r.tpath = os.path.join(CACHE, "runs", f"C08-{name}.txt")
                r.opath = os.path.join(CACHE, "runs", f"C08-{name}.out")
                os.makedirs(os.path.dirname(r.tpath), exist_ok=True)
                shutil.copy(out, r.tpath)
                r.cases = parse_cases(r.tpath)
                r.verdicts, r.extra = run_model(r.tpath, r.opath)
                r.by_id = {c.id: c for c in r.cases}
                runs.append(r)
    finally:
        shutil.rmtree(tmp, ignore_errors=True)
    concrete = set()
    peak_handles = 0
    peak_calls = 0
    for r in runs:
        for c in r.cases:
            msg = None
            cls = c.meta.get("class")
            if cls == "faulted":
                continue    # lookups under (injected) descriptor exhaustion: tie only; what they leave behind is judged below
            created = sum(1 for call, resp in c.events
                          if call[0] in ("fsmount", "open_tree") and resp[0] == "fd") + \
                sum(1 for call, resp in c.events
                    if call[0] == "openat" and resp[0] == "fd" and len(call) > 4 and call[4] == "x2f70726f63")
            peak_handles = max(peak_handles, created)
            peak_calls = max(peak_calls, len(c.events))
            if created > 1:
                msg = f"{created} procfs handles were created during one lookup"
            elif len(c.events) > 400:
                msg = f"{len(c.events)} system calls for one lookup"
            elif cls == "missing" and c.res[:3] != ["err", "OsError", "2"]:
                msg = f"a missing path is not reported as ENOENT: {' '.join(c.res[:3])}"
            elif c.res[:1] == ["err"] and c.res[:3] != ["err", "OsError", "2"] and not (
                    cls == "existing-or-masked" and c.res[:3] in (["err", "OsError", "1"], ["err", "OsError", "13"])):
                # (hidepid=1 answers EPERM for other processes' directories)
                msg = f"unexpected error: {' '.join(c.res[:3])}"
            elif c.res[:3] == ["err", "OsError", "2"] and cls != "missing" and c.meta.get("host_visible") == "1":
                msg = "ENOENT for a path that exists on the caller's /proc"
            if msg:
                facts = proc_facts(c)
                facts.update({"kind": "oracle", "oracle": msg})
                v.fail(facts, case_replay(c, msg))
                concrete.add((r.name, c.id))
    # history independence: the matrix is run before and after a series of lookups that failed under descriptor exhaustion
    # (at every second system call); the same lookup on the same kind of handle answers the same
    stable = 0
    for r in runs:
        seen = {}
        for c in r.cases:
            if c.meta.get("pass") in ("first", "again"):
                seen.setdefault((c.meta.get("handle"), c.cfg.get("hemu"), tuple(c.op)), {})[c.meta.get("pass")] = c
        for key, d in seen.items():
            a, b = d.get("first"), d.get("again")
            if a is None or b is None:
                continue
            ra = a.res[:3] if a.res[:1] == ["err"] else a.res[:2]
            rb = b.res[:3] if b.res[:1] == ["err"] else b.res[:2]
            if ra == rb:
                stable += 1
            elif (r.name, b.id) not in concrete:
                facts = proc_facts(b)
                msg = (f"the same lookup answered {' '.join(ra)} before and {' '.join(rb)} after other lookups of the process had failed "
                       f"under descriptor exhaustion: a failure was remembered")
                facts.update({"kind": "oracle", "oracle": msg})
                v.fail(facts, case_replay(b, msg, {"before": a.raw, "history": "cases with pass=exhausted of the same run, in order"}))
                concrete.add((r.name, b.id))
    broken = generic_tie(v, runs, concrete)
    cov = coverage_of(runs, nontrivial=lambda c: True,
                      key=lambda c: (c.meta.get("env"), c.meta.get("handle"), c.cfg.get("hemu"), tuple(c.op), c.meta.get("pass"),
                                     repr(c.extra.get("fault"))))
    cov["lookups_stable_across_failed_lookups"] = stable
    cov["rule"] = ("each of {default, hidepid=1, hidepid=2, hidepid=ptraceable, subset=pid, subset=pid+hidepid=2} is mounted as /proc "
                   "in a fresh mount+pid namespace, and the matrix handle constructor x resolver x base x {existing, missing, "
                   "masked-but-existing} sub-path is run as root, as the root of a user namespace that owns its mount namespace but "
                   "not the pid namespace (open_tree clones work, a fresh procfs cannot be mounted) and as uid 65534 (which can create "
                   "no private procfs mount at all)")
    cov["tie_mismatches"] = broken
    cov["environments_run"] = len(runs)
    cov["environments_skipped"] = skipped
    cov["peak_handles_created_in_one_call"] = peak_handles
    cov["peak_syscalls_in_one_call"] = peak_calls
    cov["exhaustive"] = not skipped
    return cov


SYSCTL_PSL = "/proc/sys/fs/protected_symlinks"


def check_C15(v, tier, seed):
    """Runs the uid/mode/owner/position matrix once per sysctl value (the
    library caches the value per process)."""
    runs = []
    skipped = []
    try:
        original = open(SYSCTL_PSL).read().strip()
    except OSError:
        original = None
    try:
        for val in ("0", "1"):
            try:
                with open(SYSCTL_PSL, "w") as f:
                    f.write(val)
            except OSError as e:
                if original != val:
                    skipped.append(f"sysctl={val}: not writable ({e})")
                    continue
            runs.append(Run(f"C15-psl{val}", ["c15"]))
            if val == "1":
                # the sysctl cannot be read: a /proc mounted subset=pid has no sys/ directory, and the unprivileged
                # callers of the matrix cannot mount a procfs of their own.  The rule is in force all the same.
                try:
                    runs.append(Run("C15-psl1-subsetpid", ["c15", "--cold"],
                                    prefix=["unshare", "-m", "-p", "-f", "sh", "-c",
                                            'mount -t proc -o subset=pid proc /proc && exec "$@"', "sh"]))
                except vlib.BuildError as e:
                    skipped.append("subset=pid environment: " + str(e)[-200:])
    finally:
        if original is not None:
            try:
                with open(SYSCTL_PSL, "w") as f:
                    f.write(original)
            except OSError:
                pass
    concrete = set()
    refused = 0
    for r in runs:
        for c in r.cases:
            msg = oracle_kernel_equiv(c)
            if " ".join(c.res[:3]) == "err OsError 13":
                refused += 1
            if msg:
                facts = case_facts(c)
                facts.update({"kind": "oracle", "oracle": msg, "position": c.meta.get("position"),
                              "psl": c.cfg.get("psl"), "caller": c.meta.get("caller")})
                v.fail(facts, case_replay(c, "emulated fs.protected_symlinks decision differs from the kernel's (same user, same tree): " + msg))
                concrete.add((r.name, c.id))
    broken = generic_tie(v, runs, concrete)
    cov = coverage_of(runs, nontrivial=lambda c: True,
                      key=lambda c: (tuple(sorted(c.meta.items())), c.cfg.get("backend"), c.cfg.get("psl")))
    cov["rule"] = ("directory mode {1777,777,1775,755} x directory owner x link owner x caller uid over {0,1000,2000} x link position "
                   "{trailing, trailing slash, intermediate} x backend {kernel, emulated} x sysctl {0,1}; every case is compared with "
                   "openat2(RESOLVE_IN_ROOT) issued by the same user; distinct = distinct matrix cells")
    cov["exhaustive"] = not skipped
    cov["skipped"] = skipped
    cov["tie_mismatches"] = broken
    cov["lookups_refused_with_EACCES"] = refused
    return cov


def pre_C18(v):
    """Regenerate the Lean tables from the sources before the theorems are built."""
    rc, out = vlib.sh([sys.executable, os.path.join(VERIF, "tools", "abi_extract.py")])
    if rc != 0:
        v.fail({"kind": "translator"},
               {"why": "the ABI translator could not parse the sources: " + out.strip(),
                "broken": ["tools/abi_extract.py"]}, concrete=False)
    return out.strip()


def check_C18(v, tier, seed):
    sys.argv = [sys.argv[0]]
    import abi_extract as A
    items = []
    try:
        rfns, renums, rstruct = A.parse_rust()
        hfns, henums, hstruct = A.parse_header()
        ren = A.parse_cbindgen()
        gocalls, goconsts = A.parse_go()
        pycalls, pyconsts, pytypedefs = A.parse_python()
    except Exception as e:  # already reported by pre_C18
        return {"evaluations": 1, "distinct_nontrivial": 0, "rule": "translator failed", "samples": [str(e)]}

    def bad(what, detail):
        v.fail({"kind": "oracle", "oracle": what, "item": detail},
               {"why": f"{what}: {detail}", "case": {"item": detail}})

    for n in sorted(set(rfns) | set(hfns)):
        items.append(f"fn {n}")
        if n not in hfns:
            bad("exported function missing from include/pathrs.h", n)
        elif n not in rfns:
            bad("header declares a function the library does not export", n)
        elif rfns[n] != hfns[n]:
            bad("signature differs between Rust export and header", f"{n}: rust {rfns[n]} header {hfns[n]}")
    for n in sorted(set(renums) | set(henums)):
        items.append(f"enum {n}")
        if renums.get(n) != henums.get(n):
            bad("enum value differs", f"{n}: rust {renums.get(n)} header {henums.get(n)}")
    items.append("struct pathrs_error_t")
    if rstruct != hstruct:
        bad("pathrs_error_t layout differs", f"rust {rstruct} header {hstruct}")
    for n, classes, fn in gocalls:
        items.append(f"go {fn}:{n}")
        if n not in hfns:
            bad("Go binding calls an undeclared function", n)
        else:
            d = hfns[n][1]
            if len(d) != len(classes) or any(u != "any" and u != dd for dd, u in zip(d, classes)):
                bad("Go binding passes arguments that do not match the header", f"{n}: header {d} call {classes} ({fn})")
    for n, k in pycalls:
        items.append(f"py {n}/{k}")
        if n not in hfns:
            bad("Python binding calls an undeclared function", n)
        elif len(hfns[n][1]) != k:
            bad("Python binding calls with the wrong number of arguments", f"{n}: header {len(hfns[n][1])} call {k}")
    for c in set(goconsts) | set(pyconsts):
        items.append(f"const {c}")
        if c not in henums:
            bad("binding uses an undeclared constant", c)
    width = {"i32": 32, "u32": 32}
    for name, cls in pytypedefs.items():
        items.append(f"py typedef {name}")
        real = {"dev_t": "devt"}.get(name)
        if real and width.get(cls, 64) != width.get(real, 64):
            bad("Python binding declares an integer typedef with the wrong width", f"{name} declared {cls}, ABI {real}")
    if ren.get("CProcfsBase") != "pathrs_proc_base_t" or ren.get("CError") != "pathrs_error_t":
        bad("cbindgen renames changed", str(ren))
    # the named constants the bindings export (PROC_SELF = libpathrs_so.PATHRS_PROC_SELF, pathrsProcSelf = C.PATHRS_PROC_SELF,
    # case ProcBaseSelf: return pathrsProcSelf): each denotes the header constant of the same name
    bynorm = {A.norm_const(n): n for n in set(renums) | set(henums)}
    aliases = list(A.ALIASES) + [("go-switch", "PROC_" + pub[len("ProcBase"):], A.GO_PRIVATE.get(priv, "?" + priv)) for pub, priv in A.GO_SWITCH]
    seen_alias = set()
    for binding, alias, const in aliases:
        if (binding, alias, const) in seen_alias:
            continue
        seen_alias.add((binding, alias, const))
        items.append(f"{binding} const {alias}")
        want = bynorm.get(A.norm_const(alias))
        if want != const:
            bad("a binding's named constant denotes another header constant than its name says",
                f"{binding}: {alias} = {const} (value {henums.get(const)}), the header constant of that name is {want} (value {henums.get(want)})")
    # argument order at the cgo call sites: a variable named after a parameter of the called function stands at that
    # parameter's position (two same-typed arguments exchanged keep every width and class: seeded change C18/e)
    for i, j, what in A.arg_order_pairs():
        items.append(what)
        if i != j:
            fname = what.split(":", 1)[1].split("#", 1)[0]
            bad("a cgo call passes arguments in another order than the header declares them",
                f"{what}: argument {i} of C.{fname} is the variable named after parameter {j} "
                f"({', '.join(A.HEADER_PARAMS.get(fname, []))})")
    extra = {}
    if tier == "thorough":
        extra = thorough_C18(v, hfns, henums)
    cov = {
        "evaluations": len(items),
        "distinct_nontrivial": len(set(items)),
        "rule": "every exported function, header declaration, enum constant, struct field, cgo call site and Python call site "
                "extracted from the current sources; the Lean tables are regenerated from them on every run and "
                "`check tables = true` is re-proved by `decide`; distinct = distinct declarations / call sites",
        "samples": items[:5],
        "exhaustive": True,
        "programs": len(items),
    }
    cov.update(extra)
    return cov


def thorough_C18(v, hfns, henums):
    """Build the staticlib from the working tree, compare its symbol table with the header and
    compile + link a C unit with static assertions on the layout."""
    tdir = os.path.join(CACHE, "target-capi")
    rc, out = vlib.sh(["cargo", "rustc", "--offline", "--features", "capi", "--crate-type", "staticlib",
                       "--target-dir", tdir], cwd=vlib.REPO, timeout=3600)
    if rc != 0:
        v.fail({"kind": "build"}, {"why": "capi staticlib build failed", "log": out[-3000:], "broken": ["cargo rustc staticlib"]}, concrete=False)
        return {}
    lib = os.path.join(tdir, "debug", "libpathrs.a")
    rc, out = vlib.sh(["nm", "-g", "--defined-only", lib])
    syms = {l.split()[-1] for l in out.splitlines() if " T " in l and l.split()[-1].startswith("pathrs_")}
    for n in sorted(set(hfns) ^ syms):
        v.fail({"kind": "oracle", "oracle": "symbol table differs from header", "item": n},
               {"why": f"symbol {n}: in library={n in syms} in header={n in hfns}", "case": {"item": n}})
    cfile = os.path.join(CACHE, "abi_check.c")
    with open(cfile, "w") as f:
        f.write("#include <stddef.h>\n#include <stdint.h>\n#include <sys/types.h>\n#include \"pathrs.h\"\n")
        f.write("_Static_assert(sizeof(pathrs_error_t) == 16, \"size\");\n")
        f.write("_Static_assert(_Alignof(pathrs_error_t) == 8, \"align\");\n")
        f.write("_Static_assert(offsetof(pathrs_error_t, saved_errno) == 0, \"off0\");\n")
        f.write("_Static_assert(offsetof(pathrs_error_t, description) == 8, \"off8\");\n")
        f.write("_Static_assert(sizeof(pathrs_proc_base_t) == 8, \"base\");\n")
        f.write("_Static_assert(sizeof(dev_t) == 8, \"dev_t\");\n")
        for k, val in henums.items():
            f.write(f"_Static_assert({k} == {val}ULL, \"{k}\");\n")
        f.write("void *table[] = {" + ", ".join(f"(void *){n}" for n in sorted(hfns)) + "};\n")
        f.write("int main(void) { return table[0] == 0; }\n")
    exe = os.path.join(CACHE, "abi_check")
    rc, out = vlib.sh(["gcc", "-I", os.path.join(vlib.REPO, "include"), cfile, lib, "-lpthread", "-ldl", "-lm", "-o", exe])
    if rc != 0:
        v.fail({"kind": "oracle", "oracle": "C unit does not compile/link against header + library"},
               {"why": "a C translation unit with static assertions on the header's layout does not build against the library",
                "log": out[-3000:], "case": {"file": cfile}})
    return {"symbols_in_staticlib": len(syms), "c_unit_linked": rc == 0}


def check_C17(v, tier, seed):
    args = ["capi-args"] + (["--thorough"] if tier == "thorough" else [])
    runs = [Run("C17-capi", args)]
    if tier == "thorough":
        runs.append(Run("C17-capi-enosys", args + ["--no-openat2"]))
    concrete = set()
    classes = {}
    for r in runs:
        for c in r.cases:
            kv = c.kv(c.op[2:])
            func = c.op[1]
            fdclass = kv.get("fdclass")
            msg = None
            bad_fd = fdclass in ("neg1", "atfdcwd", "min", "neg4096")
            null_path = kv.get("path") == "null" or (kv.get("path2") == "null" and func in ("rename", "symlink", "hardlink"))
            classes[(func, fdclass, null_path)] = classes.get((func, fdclass, null_path), 0) + 1
            if bad_fd or null_path:
                if c.res[:2] != ["cerr", "22"]:
                    msg = f"invalid argument accepted or misreported: res={' '.join(c.res)}"
                elif c.events:
                    msg = f"system calls were made before the argument was refused: {len(c.events)}"
            # the other two invalid-argument classes of the property: a file-type field that `mknod` cannot create
            # (theorems C17_mknod_ok_only / C17_invalid_mode_rejected / C17_socket_not_implemented) and a procfs base
            # that is none of the three constants (C17_base_decoding): an error id, and no system call
            if msg is None and not (bad_fd or null_path):
                try:
                    if func == "mknod":
                        fmt = int(kv.get("mode", "0")) & 0o170000
                        if fmt not in (0o100000, 0o040000, 0o060000, 0o020000, 0o010000):
                            want = "38" if fmt == 0o140000 else "22"
                            if c.res[:2] != ["cerr", want]:
                                msg = (f"mknod with file-type field {fmt:#o} (mode {int(kv['mode']):#o}) accepted or "
                                       f"misreported (want error {want}): res={' '.join(c.res)}")
                            elif c.events:
                                msg = f"system calls were made before the mode was refused: {len(c.events)}"
                    elif func in ("proc_open", "proc_readlink"):
                        if int(kv.get("base", "0")) not in (0x5001FFFF, 0x091D5E1F, 0x3EAD5E1F):
                            if c.res[:2] != ["cerr", "22"]:
                                msg = f"unknown procfs base {int(kv['base']):#x} accepted or misreported: res={' '.join(c.res)}"
                            elif c.events:
                                msg = f"system calls were made before the base was refused: {len(c.events)}"
                except ValueError:
                    pass
            if msg is None and c.res[:1] == ["cerr"]:
                d = c.kv(c.res[2:])
                if d.get("id_in_range") != "true" or d.get("consumed_once") != "true":
                    msg = f"error id malformed: {' '.join(c.res)}"
            if msg is None and c.fdt != ["same"]:
                msg = f"descriptor table changed: {' '.join(c.fdt)}"
            if msg is None:
                b = c.extra.get("borrowed", [[]])[0]
                d = c.kv(b)
                # describe_fd prints fd=.. label=.. kind=.. for root then handle; both must still be open
                if any(t.startswith("label=badfd") for t in b):
                    msg = "a borrowed descriptor was closed: " + " ".join(b)
            if msg is None and "buf" in c.extra:
                region = unhex(c.extra["buf"][0][0])
                bufsize = len(region) - 16
                if region[:8] != b"\xaa" * 8 or region[8 + bufsize:] != b"\xaa" * 8:
                    msg = "bytes outside the caller's buffer were written"
            if msg:
                facts = case_facts(c)
                facts.update({"kind": "oracle", "oracle": msg, "func": func, "fdclass": fdclass})
                v.fail(facts, case_replay(c, msg))
                concrete.add((r.name, c.id))
    broken = generic_tie(v, runs, concrete)
    cov = coverage_of(runs, nontrivial=lambda c: True)
    cov["rule"] = ("every C function x descriptor class {valid,-1,AT_FDCWD,INT_MIN,-4096} x path class {valid,NULL}; "
                   "procfs base values; mknod/mkdir/creat modes; readlink bodies of length 1..300 x buffer sizes 0..len+8 and NULL "
                   "with canary bytes around the buffer; distinct = distinct (function, arguments)")
    cov["tie_mismatches"] = broken
    cov["argument_classes"] = len(classes)
    cov["exhaustive"] = True
    return cov


def check_C16(v, tier, seed):
    n = sizes(tier, 2000, 40000)
    threads = sizes(tier, 8, 16)
    # the id generator on millions of draws (the model takes its range as given): every id in [INT_MIN, -4096]
    os.environ["VERIF_ERRID_SOAK"] = str(sizes(tier, 4000000, 60000000))
    vlib.ENV["VERIF_ERRID_SOAK"] = os.environ["VERIF_ERRID_SOAK"]
    runs = [Run("C16-errtable", ["errtable", "--seed", str(seed), "--n", str(n), "--threads", str(threads)])]
    concrete = set()
    r = runs[0]
    stats = {"stores": 0, "takes_some": 0, "takes_none": 0, "threads": threads, "id_draws_soaked": 0}
    for c in r.cases:
        if c.op == ["errtable_threads"]:
            for t in c.extra.get("stampede", []):
                kv = dict(x.split("=", 1) for x in t if "=" in x)
                stats["stampede_rounds"] = int(kv.get("rounds", "0"))
                if kv.get("first", "none") != "none":
                    rnd, i, n = kv["first"].split(":")
                    v.fail({"kind": "oracle", "oracle": f"id {i} consumed {n} times", "round": int(rnd)},
                           case_replay(c, f"stampede round {rnd}: the error id {i}, stored once, was handed out by pathrs_errorinfo to {n} of "
                                          f"{kv.get('threads')} threads that asked for it at the same moment ({kv.get('multi')} rounds with more "
                                          f"than one consumer, {kv.get('none')} with none)"))
                    concrete.add((r.name, c.id))
            for t in c.extra.get("soak", []):
                kv = dict(x.split("=", 1) for x in t if "=" in x)
                stats["id_draws_soaked"] = int(kv.get("n", "0"))
                if kv.get("bad", "none") != "none":
                    k, i = kv["bad"].split(":")
                    v.fail({"kind": "oracle", "oracle": f"id {i} out of range", "draw": int(k)},
                           case_replay(c, f"failing call number {k} of the process returned the error id {i}, which is not in "
                                          f"[INT_MIN, -4096] (a C caller takes it for a descriptor or an -errno)"))
                    concrete.add((r.name, c.id))
                if kv.get("lost", "none") != "none":
                    k, i = kv["lost"].split(":")
                    v.fail({"kind": "oracle", "oracle": f"id {i} not retrievable", "draw": int(k)},
                           case_replay(c, f"failing call number {k} returned the error id {i}, for which pathrs_errorinfo has nothing"))
                    concrete.add((r.name, c.id))
        if c.op != ["errtable_threads"]:
            continue
        stored = {}
        taken = {}
        for h in c.extra.get("h", []):
            # h <thread> store <want> <id> | h <thread> take <id> some <errno> <want> | ... none <want>
            if h[1] == "store":
                want, i = int(h[2]), int(h[3])
                stats["stores"] += 1
                stored.setdefault(i, []).append(want)
                if not (-2**31 <= i <= -4096):
                    v.fail({"kind": "oracle", "oracle": f"id {i} out of range"}, case_replay(c, f"error id {i} is not in [INT_MIN, -4096]"))
                    concrete.add((r.name, c.id))
            elif h[1] == "take":
                i = int(h[2])
                if h[3] == "some":
                    stats["takes_some"] += 1
                    taken.setdefault(i, []).append(int(h[4]))
                else:
                    stats["takes_none"] += 1
        for i, wants in stored.items():
            got = taken.get(i, [])
            if len(got) != len(wants):
                v.fail({"kind": "oracle", "oracle": "consumed != stored", "id": i},
                       case_replay(c, f"id {i}: stored {len(wants)} time(s) but consumed {len(got)} time(s) across threads"))
                concrete.add((r.name, c.id))
            elif len(wants) == 1 and got[0] != wants[0] and not (got == [0]):
                v.fail({"kind": "oracle", "oracle": "wrong errno", "id": i},
                       case_replay(c, f"id {i}: errno {got[0]} reported, {wants[0]} stored"))
                concrete.add((r.name, c.id))
        for i in taken:
            if i not in stored:
                v.fail({"kind": "oracle", "oracle": "take of unknown id succeeded", "id": i},
                       case_replay(c, f"id {i} was never issued but errorinfo returned an error"))
                concrete.add((r.name, c.id))
    broken = generic_tie(v, runs, concrete)
    nseq = sum(len(c.extra.get("t", [])) for c in r.cases)
    cov = {
        "evaluations": nseq + stats["stores"] + stats["takes_some"] + stats["takes_none"],
        "distinct_nontrivial": stats["stores"],
        "rule": "one sequential history of store/take operations replayed step by step through the Lean table model "
                "(ids returned by the implementation are fed to the model as the random candidate), and one history of "
                f"{threads} threads racing for the same ids checked for exactly-once consumption; distinct = issued ids",
        "samples": [" ".join(x) for c in r.cases for x in c.extra.get("t", [])[:5]] or ["(none)"],
        "traces_validated_against_impl": sum(1 for c in r.cases if r.verdicts.get(c.id, ("",))[0] == "ok"),
        "tie_mismatches": broken,
        "thread_history": stats,
    }
    return cov


PROPS = {
    "C01": check_C01,
    "C03": check_C03,
    "C04": check_C04,
    "C05": check_C05,
    "C06": check_C06,
    "C07": check_C07,
    "C08": check_C08,
    "C09": check_C09,
    "C11": check_C11,
    "C15": check_C15,
    "C16": check_C16,
    "C18": check_C18,
    "C17": check_C17,
    "C02": check_C02,
    "C10": check_C10,
    "C12": check_C12,
    "C13": check_C13,
    "C14": check_C14,
}


PRE = {"C18": pre_C18}


def main(argv):
    if not argv:
        print(__doc__)
        return 2
    prop = argv[0]
    tier = opt(argv, "--tier", os.environ.get("VERIF_TIER", "quick"))
    if tier not in ("quick", "thorough"):
        tier = "quick"
    try:
        seed = int(os.environ.get("VERIF_SEED", "1"))
    except ValueError:
        seed = 1
    replay = opt(argv, "--replay")
    if replay:
        return replay_file(prop, replay)
    if prop not in PROPS:
        print(f"unknown or unclaimed property {prop}")
        return 2
    v = Verdict(prop, tier, seed)
    evidence = {"level": "proof", "coverage": {}, "assumptions": list(TRUSTED_BASE)}
    cov = evidence["coverage"]
    cov["checker_cmd"] = f"cd /verif/lean && lake build Pathrs.Proofs.Props.{prop} pathrs_model && lake env lean <#print axioms of every theorem in Pathrs/Proofs/Props/{prop}.lean>"
    cov["trusted_base"] = list(TRUSTED_BASE)

    # 1. harness against the working tree
    try:
        build_harness()
    except BuildError as e:
        v.fail({"kind": "build", "what": "harness"},
               {"why": "the harness (libpathrs with verification hooks) no longer builds from /repo's working tree",
                "broken": ["harness build"], "log": str(e)}, concrete=False)
        cov.update({"obligations": 1, "discharged": 0, "evaluations": 1, "distinct_nontrivial": 0})
        if prop != "C18":
            return v.finish(evidence)
        # (C18 reads the sources, not the harness: go on and name what differs — the harness itself links against every
        # function the header declares, so a lost export is one way for it not to build)

    # 1b. translator (C18): regenerate the model from the sources
    if prop in PRE:
        cov["translator"] = PRE[prop](v)

    # 2. theorems
    rc, out = build_lean([m for _, m in vlib.prop_modules(prop)] + ["pathrs_model"])
    lean_ok = rc == 0
    names, axioms = [], {}
    bad_axioms = {}
    if lean_ok:
        arc, aout, names, axioms = audit_axioms(prop)
        for n in names:
            if n not in axioms:
                bad_axioms[n] = "no #print axioms output"
            elif not axioms[n] <= vlib.ALLOWED_AXIOMS:
                bad_axioms[n] = sorted(axioms[n] - vlib.ALLOWED_AXIOMS)
    banned = scan_sources()
    # thorough tier: the compiled property modules are re-checked by leanchecker, the toolchain's independent checker of
    # .olean files (a declaration that the elaborator let through and the kernel would not is found here)
    if lean_ok and tier == "thorough":
        for _, m in vlib.prop_modules(prop):
            lrc, lout = vlib.sh(["lake", "env", "leanchecker", m], cwd=vlib.LEAN_DIR, timeout=1800)
            cov.setdefault("leanchecker", {})[m] = "ok" if lrc == 0 else "FAILED"
            if lrc != 0:
                bad_axioms[m] = "leanchecker: " + lout[-300:]
    cov["obligations"] = max(len(names), 1)
    cov["discharged"] = len([n for n in names if n not in bad_axioms]) if lean_ok else 0
    cov["theorems"] = names
    cov["axioms"] = {n: sorted(a) for n, a in axioms.items()}
    cov["banned_constructs"] = banned
    if not lean_ok or bad_axioms or banned:
        v.fail({"kind": "proof"},
               {"why": "a proof obligation of the property no longer checks",
                "broken": ["lake build failed"] if not lean_ok else [f"{k}: {val}" for k, val in bad_axioms.items()] + banned,
                "log": out[-4000:] if not lean_ok else ""}, concrete=False)
        if not lean_ok and prop not in PRE:
            cov.update({"evaluations": 1, "distinct_nontrivial": 0})
            return v.finish(evidence)

    # 3./4. tie and oracle
    try:
        cov.update(PROPS[prop](v, tier, seed))
    except BuildError as e:
        v.fail({"kind": "run"}, {"why": "a suite run failed", "broken": ["harness/model run"], "log": str(e)}, concrete=False)
        cov.setdefault("evaluations", 1)
        cov.setdefault("distinct_nontrivial", 0)
    return v.finish(evidence)


def replay_file(prop, path):
    d = json.load(open(path))
    print(json.dumps({k: d[k] for k in d if k != "case"}, indent=1)[:4000])
    case = d.get("case", {})
    lines = case.get("transcript") or case.get("emulated_backend") or []
    if lines:
        tmp = os.path.join(CACHE, "replay_case.txt")
        with open(tmp, "w") as f:
            f.write("\n".join(lines) + "\n")
        out = os.path.join(CACHE, "replay_case.out")
        verdicts, extra = run_model(tmp, out)
        print(open(out).read())
    return 0
