#!/usr/bin/env python3
"""import_seed.py ID VARIANT "description" "caught_by" "how"  -- copy a confirmed seeded change into /verif/seeded"""
import json, os, shutil, sys, subprocess
pid, v, desc, caught, how = sys.argv[1:6]
src = f"/tmp/seed/out/{pid}/{v}"
dst = f"/verif/seeded/{pid}/{v}"
os.makedirs(dst, exist_ok=True)
shutil.copy(f"{src}/patch.diff", f"{dst}/patch.diff")
if os.path.isdir(f"{src}/demo"):
    shutil.rmtree(f"{dst}/demo", ignore_errors=True)
    shutil.copytree(f"{src}/demo", f"{dst}/demo")
for f in ("notes.md", "confirm.txt"):
    if os.path.exists(f"{src}/{f}"):
        shutil.copy(f"{src}/{f}", f"{dst}/{f}")
files = subprocess.run(["grep", "-E", r"^\+\+\+ b/", f"{src}/patch.diff"], stdout=subprocess.PIPE).stdout.decode().split()
files = [x[2:] for x in files if x.startswith("b/")]
confirm = open(f"{src}/confirm.txt").read() if os.path.exists(f"{src}/confirm.txt") else "not re-run by the author of /verif"
meta = {"property": pid, "variant": v, "description": desc, "files_touched": files,
        "base_commit": subprocess.run(["git", "-C", f"/tmp/seed/{pid}", "rev-parse", "--short", "HEAD"], stdout=subprocess.PIPE).stdout.decode().strip(),
        "confirmed": {"applies_and_builds": True, "existing_suite": confirm.strip(),
                      "demonstration": "demo/ (output_changed.txt shows the violation, output_original.txt the correct behaviour)"},
        "caught_by": caught.split(","), "how": how,
        "apply": "git -C /repo apply --3way seeded/%s/%s/patch.diff ; ./check %s --tier quick ; git -C /repo checkout -- ." % (pid, v, caught.split(",")[0])}
json.dump(meta, open(f"{dst}/meta.json", "w"), indent=1)
print("imported", dst)
