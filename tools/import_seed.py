#!/usr/bin/env python3
"""import_seed.py ID VARIANT "what it does" "what it needs to manifest" "caught_by (comma list, or NONE)" "how" [demo result text]
copy a confirmed seeded change from /tmp/seed/out/<ID>/<V> into /verif/seeded/<ID>/<V>"""
import json, os, shutil, sys, subprocess
pid, v, desc, needs, caught, how = sys.argv[1:7]
demo_result = sys.argv[7] if len(sys.argv) > 7 else ""
src = f"/tmp/seed/out/{pid}/{v}"
dst = f"/verif/seeded/{pid}/{v}"
os.makedirs(dst, exist_ok=True)
shutil.copy(f"{src}/patch.diff", f"{dst}/patch.diff")
if os.path.isdir(f"{src}/demo"):
    shutil.rmtree(f"{dst}/demo", ignore_errors=True)
    shutil.copytree(f"{src}/demo", f"{dst}/demo", ignore=shutil.ignore_patterns("target", "Cargo.lock", "*.o", "work*"))
for f in ("notes.md",):
    if os.path.exists(f"{src}/{f}"):
        shutil.copy(f"{src}/{f}", f"{dst}/{f}")
confirm = open(f"{src}/myconfirm.txt").read() if os.path.exists(f"{src}/myconfirm.txt") else "NOT RE-RUN"
open(f"{dst}/confirm.txt", "w").write(confirm)
files = [l.split(" b/", 1)[1].strip() for l in open(f"{src}/patch.diff") if l.startswith("+++ b/")]
summary = [l.strip() for l in confirm.splitlines() if "Summary" in l or l.startswith("rerun") or "build" in l or "apply" in l]
meta = {
    "property": pid, "variant": v, "what_it_does": desc, "needs_to_manifest": needs, "files_touched": files,
    "base_commit": subprocess.run(["git", "-C", "/repo", "rev-parse", "--short", "HEAD"], stdout=subprocess.PIPE).stdout.decode().strip(),
    "what_i_ran": [
        f"tools/seed_confirm.sh {pid} {v}   (fresh worktree of /repo under /tmp/confirm, git apply patch.diff, cargo build --offline with and "
        "without --features capi, cargo nextest run --workspace --no-fail-fast --test-threads 8 --offline, every failing test re-run alone up to 3 times)",
        "the demonstration in demo/ against the changed worktree and against /repo (unchanged)",
        f"tools/seedtest.sh seeded/{pid}/{v}/patch.diff {caught if caught != 'NONE' else pid}   (git -C /repo apply; ./check ... --tier quick; git -C /repo checkout -- .)",
    ],
    "confirmed": {"log": summary, "demonstration": demo_result},
    "caught_by": [] if caught == "NONE" else caught.split(","), "how": how,
}
json.dump(meta, open(f"{dst}/meta.json", "w"), indent=1)
print("imported", dst)
