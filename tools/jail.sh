#!/bin/sh
# jail.sh <rw-dir> cmd...: run cmd in a private mount namespace in which every mount except procfs is read-only and only
# <rw-dir> (bind-mounted over itself) can be written.  The harness applies libpathrs operations, as root, to trees that
# contain links to "/" and to host directories on purpose: a change to libpathrs that follows one of them (what the checks
# exist to detect) must not be able to remove or overwrite anything but the scratch area while it is being detected.
# Device nodes stay writable (a read-only mount does not stop writes to /dev/null), /proc stays as it is (the C15 suite
# writes a sysctl; nothing can be unlinked there).
RW=$1; shift
if [ "$(id -u)" != 0 ] || ! unshare -m true 2>/dev/null; then
  exec "$@"
fi
exec unshare -m --propagation private sh -c '
RW=$0
mount --bind "$RW" "$RW" || exit 125
awk "{print \$2}" /proc/self/mounts | sort -r | while read -r mp; do
  case "$mp" in "$RW"|"$RW"/*|/proc|/proc/*) continue;; esac
  mount -o remount,bind,ro "$mp" 2>/dev/null
done
exec "$@"' "$RW" "$@"
