#!/usr/bin/env python3
"""Regenerate section 9 of DESIGN.md (seeded changes) from seeded/*/*/meta.json."""
import glob, json, os, re, subprocess
ROOT = os.path.dirname(os.path.dirname(os.path.abspath(__file__)))
table = subprocess.run(["python3", os.path.join(ROOT, "tools", "seedtable.py")], stdout=subprocess.PIPE).stdout.decode()
metas = [json.load(open(p)) for p in sorted(glob.glob(os.path.join(ROOT, "seeded", "*", "*", "meta.json")))]
n = len(metas)
own = sum(1 for m in metas if m["property"] in m.get("caught_by", []))
intro = f"""## 9. Seeded changes: which check catches which

Fresh sub-agents, each given only the text of one property and its own scratch worktree of /repo (nothing from /verif),
produced changes that compile, pass the existing test suite and break the property while needing something specific to
manifest, each with a demonstration.  Every change kept here was confirmed by me in a fresh worktree
(`tools/seed_confirm.sh`: applies, builds with and without the C API, the 3 203 tests pass — tests that fail under load
with the `openat2` `EAGAIN` flake are re-run alone — and the demonstration shows the violation on the changed tree and
not on the original) and is stored under `/verif/seeded/<id>/<variant>/` (`patch.diff`, `demo/`, `notes.md`,
`confirm.txt`, `meta.json`: property, what it needs to manifest, what was run).  `tools/seedtest.sh <patch> <props>`
applies a patch to /repo (`git apply`), runs the checks and undoes it (`git checkout -- .`); no seeded change is ever
committed to /repo.

{n} changes; {own} are caught *with a concrete failing input* by the check of the property they were written against
(the others by a neighbouring property's check and by that property's tie).  Where the first run of a check missed a
change or saw only the broken tie, the check was strengthened (the `how` column says what was added) — that is how the
Disc oracle, the constructor step in user namespaces, the aftermath oracle, the ladder cases, the backend-pair oracle
for `mkdir_all`, the first-use descriptor oracle, the kernel-reference oracle of reopen, the reopen-overmount suite,
the `unshare -Ur -m` caller class of the /proc matrix, the error backlog, the mode probe and the full open-flag space
of `create_file` came to be; two genuine defects of the unchanged code (F24, F25) and F21/F22 surfaced on the way.
The second round (variants `c`, `d`; the agents were told which two changes existed already) added: the attacker grid
for mutating operations with a host-side oracle, `pathrs_reopen` for every descriptor number, "the base itself
over-mounted", runs with descriptor 0 free, the soak of the id generator, the named constants of the bindings, creation
requests spelled with `O_PATH` on procfs, the no-follow operations and the unreadable sysctl of C15, history
independence of procfs lookups across failed lookups, final `..` behind spellings of the root, and a FIFO over-mount
with timed blocking lookups; it also showed two defects of the machinery itself (the `loc` oracle took the directory
that contains the root for "location unknown"; an interposer's panic left the recorder switched off for the rest of
the process) and why the harness must be jailed (§7.3).  A third round (variants `e`, `f`, six properties) added the
lookups and `mkdir_all` of a thread with a private descriptor table, the rename flags under faults and the C API with
descriptor 0 free; its author for C13 handed in no change at all — every weakening of `remove_all`'s tolerances he tried
was caught by the project's own 42 racing tests — but conjectured F29, which the racing suite then confirmed.  Two
changes remain visible only as a broken tie: C02/e needs an attacker who moves the root directory itself (outside the
property's attacker, who acts on entries of the tree), C12/f is caught with its input by C03 and C05 and by the tie in C12.

"""
outro = """
What a check can *not* see: a change confined to code no suite reaches and no theorem mentions (e.g. the Go binding's
logic beyond its C call sites), or a property violation that needs an environment outside every suite *and* leaves the
syscall transcript of the suites unchanged.

---------------------------------------------------------------------------

"""
p = os.path.join(ROOT, "DESIGN.md")
s = open(p).read()
a = s.index("## 9. Seeded changes")
b = s.index("## 10. Trusted base")
s = s[:a] + intro + table + outro + s[b:]
open(p, "w").write(s)
print("section 9 regenerated:", n, "changes")
