#!/usr/bin/env python3
"""Regenerate /verif/MANIFEST.json from the table below."""
import json
import os
import subprocess

VERIF = os.path.dirname(os.path.dirname(os.path.abspath(__file__)))

COMMON_NOTE = ("Trusted: Lean 4.33 kernel; the hand-written Lean model (lean/Pathrs) and its tie to /repo "
               "(recorder shim src/verif.rs below the syscall wrappers, libc symbol interposition of close/fcntl/readlink, "
               "transcript replay by lean/Main.lean; the recorder itself is cross-checked against strace by tools/strace_tie.py where the "
               "check says so); the harness generators; Linux 6.18 as the environment. ")

CLAIMS = {
    "C01": dict(
        text="Lean theorems (Props/C01.lean over Kernel/World.lean): for every well-formed immutable directory tree (arbitrary "
             "shape, symlink bodies, '..'), every path byte string and both trailing-symlink modes and every resolver flag word, "
             "running the model of the emulated walk (Opath.resolve, incl. every check_current through libpathrs' procfs handle) on "
             "that world returns exactly World.resolveInRoot — the specification of openat2(RESOLVE_IN_ROOT|RESOLVE_NO_MAGICLINKS): "
             "the same object or the same errno (simulation proof by induction over the walk); the kernel backend's retry loop "
             "returns the kernel's answer; Root::readlink returns the body of that object or EINVAL; every successful result has "
             "a path below the root; a self-referencing link gives ELOOP for any spent budget and both the walk and the "
             "specification are total functions (termination measure: link budget, remaining components); Root::open_subpath on "
             "either backend is that resolution (no-follow iff O_NOFOLLOW) followed by open(2) of the object found "
             "(World.openKind), the emulated one through Handle::reopen via /proc/thread-self/fd/<n> (C01_open_subpath, "
             "KOpen.run_reopen), and returns only objects inside the root. Tie: generated trees "
             "x path spellings x flag sets on both backends with and without openat2, replayed call-by-call through the same "
             "model programs. Oracle: every lookup is compared with a raw openat2(RESOLVE_IN_ROOT|RESOLVE_NO_MAGICLINKS) issued "
             "by the harness on the same tree (object identity or errno).",
        note="The World's answers (Kernel/World.lean: fd-relative single-component lookup, d_path rendering of "
             "/proc/thread-self/fd/N, kresolve as the meaning of RESOLVE_IN_ROOT) are the trusted statement of kernel behaviour; "
             "the raw-openat2 oracle of the suite compares that specification's subject with the live kernel on every generated "
             "case (resolve, readlink and open_subpath: World.openKind too). The status flags (F_GETFL) of the descriptor a "
             "one-shot open returns are not represented in World: tie and oracle. Known finding F23: between 41 and 127 link "
             "traversals the emulated backend resolves what openat2 refuses with ELOOP (budget 128 vs MAXSYMLINKS 40); boundary "
             "cases of 39/40/41 links and link bodies of 4095/4094 bytes run on every check.",
        technique="Lean 4 proof (simulation of the emulated walk against a kernel specification, fun_induction) + transcript replay + live-kernel openat2 oracle",
        ref="DESIGN.md §8 C01"),
    "C02": dict(
        text="Lean theorems (Props/C02.lean) over the relational semantics Runs, i.e. for every sequence of kernel answers and therefore "
             "for every interleaving of attacker mutations with the library's system calls: a successful emulated lookup ends with a "
             "passed check_current on the very descriptor it returns (or on the root duplicate followed by the O_PATH|O_NOFOLLOW open of "
             "'.' beneath it) — the three /proc/thread-self/fd reads root, fd, root with Path-equal results; the bytes compared are the "
             "kernel's readlinkat answers on the descriptor libpathrs' own verified procfs lookup returned; a passed check means the "
             "printed path of fd is the root's components followed only by normal components (no '..'), and the root's path did not "
             "change in between; invariant: the expected path never contains '', '.', '..' or '/'. Kernel backend: a result is the "
             "answer of openat2(root, .., RESOLVE_IN_ROOT|RESOLVE_NO_MAGICLINKS|..), at most 16 openat2 calls, EAGAIN never "
             "surfaces (SafetyViolation after the 16th). C02_under_attack (Proofs/Attack.lean): the emulated lookup run against an "
             "attacker who rearranges the tree between ANY two system calls (the i-th call is answered by the world of moment i; "
             "the worlds of different moments are unrelated and need not be well-formed; only the root directory itself stays put) "
             "returns only descriptors of objects that the kernel's d_path placed below the root at some moment of the call. "
             "C02_kernel_under_attack (Props/C02_Kernel.lean): the same run for the kernel backend, worlds well-formed with the same "
             "root — the descriptor returned was below the root in the world of the very moment of the successful openat2. "
             "Tie and oracle: attacker-interposition suite — for generated and hand-made "
             "trees/lookups with '..' and links, a mutation (move out of the root, replace by a link to a host dir/file, "
             "RENAME_EXCHANGE with a tree or host entry, move up) is performed on the real filesystem by the interposer before every "
             "system-call boundary of the lookup, permanently or undone at the next boundary; every schedule is replayed through the "
             "model and the identity of the returned object (or link body) must be an inode of the tree or one the attacker put inside.",
        note="Kernel facts the semantic conclusion rests on (DPathSound: the procfs magic-link prints where the open file is at the "
             "instant of the read — the readlinkat clause of World.answer; RESOLVE_IN_ROOT confines the kernel's own walk) are "
             "part of the trusted kernel specification and exercised by the suite on the live kernel, not proved. Schedules with more than one mutation (beyond flip-flop pairs) are covered by the theorems only.",
        technique="Lean 4 proof (run inversion for all environments: every success is a checked descriptor; refinement against a sequence of unrelated worlds, one per system call: the result was below the root at some moment) + deterministic attacker-interposition schedules",
        ref="DESIGN.md §8 C02"),
    "C04": dict(
        text="Lean theorems (Props/C04.lean): both backends compute World.resolveInRoot (C01), whose only backend-dependent "
             "parameter is the link budget (kernel 40, emulated 128); kresolve_limit_mono proves a larger budget changes nothing "
             "unless the smaller was exhausted, so resolve / resolve_nofollow / readlink (and every parent lookup) return the "
             "same object or errno on both backends whenever the kernel does not answer ELOOP (every lookup with at most 40 "
             "traversals), unconditionally with NO_SYMLINKS; C04_open_agree: the one-shot open returns the same object or errno on "
             "both backends; C04_partial_agree: the two partial lookups behind mkdir_all — the emulated walk with its symlink "
             "stack (KSimStack.walk_sim_stack: the stack operations never fail, the reported position is the outermost link in "
             "progress) and the kernel backend's probing of ever shorter prefixes over partial_ancestors "
             "(Ancestors.partialAncestors_eq, KProbe.anc_probe) — hand mkdir_all the same directory and the same components to "
             "create, or the same error. Tie and oracle: every generated operation (lookups, one-shot open "
             "flag sets, readlink, create*, mkdir_all, remove_*, rename) is executed on identical trees with the kernel and "
             "the emulated backend and replayed through the model; results, errno classes, access mode/status flags/FD_CLOEXEC of "
             "returned descriptors (O_NOFOLLOW echo excluded) and the resulting tree snapshots are compared pairwise.",
        note="Not in World: the status flags of descriptors returned by the one-shot open, and the mutating operations' effects "
             "(C12-C14): decided by the pairwise differential on generated inputs and the transcript tie.",
        technique="Lean 4 proof (both backends equal one specification; budget monotonicity) + pairwise backend differential",
        ref="DESIGN.md §8 C04"),
    "C03": dict(
        text="Lean theorems (Props/C03.lean), for every environment incl. attackers and arbitrary directory listings: every "
             "unlinkat and directory open of remove_all names one slash-free component that is neither '.' nor '..' below the "
             "directory it was given or one it opened that way, and it makes no other mutating call; the creating loop of "
             "mkdir_all only creates/enters non-empty proper components (the '..' check and the filter are part of the theorem); "
             "a trailing slash makes create/remove_all equal to 'resolve parent; close; InvalidArgument' (the mutating call is "
             "unreachable); the single-entry operations call (resolved parent descriptor, single component) [Disc]; the creating "
             "open of create_file never names '.' or '..' whatever the open flags (with O_PATH the kernel ignores O_CREAT and "
             "'..' would be a plain lookup of the root's parent: finding F24, repaired). Tie: all "
             "mutating operations on generated trees on both backends replayed through the model (create_file over all open "
             "flags). Oracle: snapshot of a sentinel tree surrounding the root before/after every call; every descriptor an "
             "operation hands back points into the root's tree.",
        note="Semantic half (the parent descriptor was inside the root at some moment) rests on C02's containment argument and "
             "the kernel's fd-relative semantics; attacker interleavings are covered by the theorems (any environment) and by "
             "C02's attacker suite, not by this suite.",
        technique="Lean 4 proof (Safe logic with a mutation-target predicate, program equalities) + outside-snapshot differential",
        ref="DESIGN.md §8 C03"),
    "C05": dict(
        text="Lean theorems (Props/C05.lean): for every Root / procfs operation of the model and every environment that never "
             "returns a negative descriptor, every system call satisfies the decidable discipline predicate Disc "
             "(single slash-free component below a real descriptor, forced O_NOFOLLOW|O_CLOEXEC|O_NOCTTY, confining openat2 masks, "
             "no follow flag anywhere; Disc false forbids any openat without O_NOFOLLOW and is proved for everything except the "
             "reopen/open_follow path). Tie: transcript replay of generated operations on both backends (raw flag words, names and "
             "descriptors must agree call by call); Disc is evaluated on every recorded call of the implementation.",
        note="Kernel fact assumed by the theorems: returned descriptors are non-negative. 'The follow-open is preceded by "
             "verify_same_mnt on the link' is checked by the tie (call order), not yet a separate theorem.",
        technique="Lean 4 proof (Safe logic over interaction trees, fun_induction on the walks) + transcript-replay correspondence",
        ref="DESIGN.md §8 C05"),
    "C06": dict(
        text="Lean theorems (Props/C06.lean, over the relational semantics Runs, i.e. for every environment incl. mounts racing with "
             "every call): a descriptor returned by a procfs lookup (and by open_base) was verified *on the descriptor itself* — "
             "statx(fd,\"\") answered with the handle's mount id (unknown iff the handle's is unknown) and the very last call of the "
             "run is fstatfs(fd)=PROC_SUPER_MAGIC; fetch_mnt_id/verify_same_mnt inversion lemmas; on PWorld (Kernel/ProcWorld.lean: a "
             "procfs tree whose objects carry mount ids, an over-mounted entry leading to the root of the other mount) the confined "
             "lookup and the emulated resolver only ever return objects of the mount they started on, whatever is mounted wherever "
             "(C06_spec_same_mount, C06_emulated_same_mount). Tie and oracle: in a private mount "
             "namespace, subsets of 12 over-mounts (tmpfs, foreign file, other procfs object on files, directories, symlinks, "
             "magic-links) x 7 handle kinds x both resolvers x {open, open_follow, readlink}: transcripts replayed through the model; "
             "a visible over-mount must give EXDEV, the over-mounting object's identity must never be returned, private handles "
             "must answer as on the pristine layout; with the over-mounts in place every mount-id/fs-type probe of a lookup fails in turn "
             "with ENOSYS, EINVAL, EACCES and the over-mounted object must still never be returned (the verification fails closed); "
             "the handle constructors (new, new_unmasked and the explicit ones) are recorded and replayed as root, as root of a "
             "user namespace that cannot fsopen procfs, and as uid 65534: whoever can create a private procfs instance gets one "
             "from new(); one mount racing with a non-following lookup: for handles on the host mount the over-mount of the looked-up "
             "entry is placed before the k-th system call of the lookup, for every k (2 000 schedules): EXDEV or the genuine "
             "object, never the over-mount.",
        note="MntIdTruthful (statx mount ids identify mounts) is the kernel fact the theorem rests on. open_follow on a non-magic "
             "procfs symlink whose *target* is over-mounted returns the over-mount (finding F12, known, not repaired). Several "
             "racing mounts in one lookup, and unmounts, are covered by the theorem (any answers) only.",
        technique="Lean 4 proof (history inversion over all environments) + over-mount layout differential in a mount namespace",
        ref="DESIGN.md §8 C06"),
    "C07": dict(
        text="Lean theorems (Props/C07.lean): creation flags are refused by the resolver entry point and by open_follow as bare "
             "error leaves; open forces O_NOFOLLOW; the emulated walk stops at '..' with EXDEV without looking it up; absolute "
             "sub-paths give EXDEV before any call; the kernel resolver's mask is BENEATH|NO_MAGICLINKS|NO_XDEV; every call of the "
             "emulated walk satisfies Disc false (no followed link, single components, bodies read from the opened descriptor). "
             "Refinement against PWorld (procfs tree with directories, ordinary symlinks, magic-links, files and mounts; "
             "presolve/resolveBeneath = openat2 RESOLVE_BENEATH|NO_XDEV|NO_MAGICLINKS): for every such tree, every non-empty sub-path "
             "without '..' and every flag set of the resolver's final-component table the emulated resolver returns exactly the "
             "confined lookup's object or errno (C07_emulated_is_spec: magic-link as component or followed = ELOOP, mount crossing = "
             "EXDEV, trailing link followed iff O_NOFOLLOW absent), hence both resolvers agree unless the kernel's link budget "
             "ran out (C07_resolvers_agree). "
             "Tie and oracle: sub-paths built from the live /proc listings x 10 flag sets x 3 APIs x {private, host} handle x both "
             "resolvers, replayed through the model; resolver-vs-resolver outcome comparison.",
        note="Magic-links whose body is not absolute, used as a component (fd/N/ of a pipe, ns/mnt/): ELOOP vs ENOENT (finding F13, "
             "known). The 7x3 final-component table is covered by the tie, not yet by a table theorem.",
        technique="Lean 4 proof (program equalities, Safe logic) + live-/proc differential between the two procfs resolvers",
        ref="DESIGN.md §8 C07"),
    "C08": dict(
        text="Lean theorems (Props/C08.lean): the ENOENT retry of ProcfsHandle::open has recursion depth at most one for every "
             "environment — openH (n+2) = openH 2 as programs, an unmasked handle never retries, hence at most one additional "
             "handle per lookup and the model's fuel is never exhausted. Tie and oracle: {default, hidepid=1, hidepid=2, "
             "hidepid=ptraceable, subset=pid, subset=pid+hidepid=2} mounted as /proc in fresh mount+pid namespaces x {root, root of a "
             "user namespace that owns its mount namespace but not the pid namespace (open_tree works, mounting procfs does not), "
             "uid 65534} x handle constructors x resolvers x {existing, missing, masked} paths: replayed through the model; missing "
             "paths must report ENOENT, at most one handle may be created per call, the call count is bounded (RLIMIT_NOFILE 256; a "
             "harness that dies or hangs in an environment is a violation).",
        note="Before the repair of F3 the depth theorem was false (the recursion was unbounded on an unprivileged hidepid host). "
             "Peak descriptor use is measured through the recorded handle-creating calls, not through rlimits.",
        technique="Lean 4 proof (program equality: fuel irrelevance) + privilege x /proc-option matrix in namespaces",
        ref="DESIGN.md §8 C08"),
    "C09": dict(
        text="Lean theorems (Props/C09.lean): proc_subpath is total on every descriptor number >= 0 (0 included) and injective "
             "(decimal rendering round-trips); reopen with creation flags is a bare error leaf; otherwise reopen is exactly "
             "fstat -> ELOOP for a symlink -> open_follow(thread-self, fd/<n>, flags without O_NOFOLLOW) on libpathrs' own procfs "
             "handle; for every environment a symlink answer ends the run with ELOOP and no further call; O_NOFOLLOW is stripped "
             "and no other bit changes; C09_no_fallback_on_unrelated_failure: for every environment a successful open_follow had a "
             "readlink probe that succeeded or failed with exactly EINVAL/ENOENT — any other probe failure is the result, never an "
             "O_NOFOLLOW open of the magic-link itself (findings F22, F25, repaired; ENAMETOOLONG = a link whose target cannot be "
             "printed: the following half runs); C09_follow_verified: for every environment the library's one openat without "
             "O_NOFOLLOW is made on (a directory ProcfsHandle::open returned, one component) only after statx of the directory and "
             "of the component stood for the same mount, and its answer is the result; on a world, reopen returns the handle's own "
             "object (KOpen.run_reopen); C09_reopen_on_mounts / C09_open_follow_on_mounts (Proofs/KProcOpen.lean, KProcReopen.lean): "
             "on every procfs tree with ANY mount layout, reopen(fd) returns what the entry fd/<fd> leads to, that entry being on "
             "the handle's own mount in a directory on the handle's own mount — anything mounted over thread-self, the fd directory "
             "or the magic-link makes the call fail. Tie and oracle: handles to every inode type x forced descriptor numbers "
             "0..1023 x histories {none, rename, replace, unlink, moved below a path longer than PATH_MAX} x flag sets, every "
             "spelling of a creation request per target: replayed; kernel reference (raw open of /proc/self/fd/<n> with the same "
             "flags just before the call): success exactly where that succeeds, same inode, same errno otherwise; access mode, "
             "status flags and FD_CLOEXEC; reopen under single injected faults (every index x 12 errnos x {file, dir, fifo} x 4 "
             "flag sets): an error or the handle's inode; reopen-overmount: self/thread-self replaced by symlinks into a decoy "
             "process holding another file under the same number, tmpfs over the fd directory x every handle kind x resolver.",
        note="That thread-self/fd/<n> leads to the inode of descriptor n is the kernel's magic-link contract (MagicLinkSameInode; "
             "PWorld.target in the mount theorems), exercised by the tie. The mount theorems are for the emulated resolver on a "
             "handle that is not masked.",
        technique="Lean 4 proof (total/injective function, program shape, run inversion) + descriptor-number x history differential",
        ref="DESIGN.md §8 C09"),
    "C10": dict(
        text="Lean theorems (Props/C10.lean) over Runs, i.e. for every placement of failing calls: a system-call wrapper returns ok only "
             "if the kernel's answer to its call was the success answer (openat, openat2, readlinkat, mkdirat, mknodat, unlinkat, "
             "symlinkat, linkat, renameat/renameat2), so an err answer always becomes an error value; a successful single *at call of "
             "create made exactly one mutating call the kernel acknowledged; the kernel backend makes at most 16 openat2 calls, EAGAIN "
             "never reaches the caller and resolve has no partial result; fetch_mnt_id reports 'unknown' only for ENOSYS/EINVAL or a "
             "missing mount-id bit and verify_same_mnt succeeds only on equal ids (fails closed); all model programs are total "
             "functions. Tie and oracle: fault-injection suite — for generated (tree, operation, backend), every index of the "
             "unperturbed syscall trace x 12 errnos (single faults), descriptor exhaustion from every index, and EAGAIN on every in-root "
             "openat2, injected below the wrappers by the interposer; every run is replayed through the model (which must predict the "
             "same error path call by call) and checked for: no panic, descriptor table unchanged, nothing outside the root changed, "
             "no success reported for work not done (independent openat2 look-up afterwards), EAGAIN-forever never succeeds; "
             "aftermath oracle: after the fault sweep of a case the same operation without any fault behaves exactly as before "
             "(a fault leaves nothing behind in the process; on a difference the case is re-run in a fresh process to find the first "
             "poisoning schedule); reopen under single faults (C09's oracle). First-use "
             "initialisation: the same single faults and exhaustion in forked fresh processes (no panic, no death, later calls recover).",
        note="Finding F9d (first use under descriptor exhaustion panicked in the global procfs handle's Lazy and poisoned it) was found "
             "by this suite and repaired. Error-message construction (the diagnostic /proc reads of FrozenFd) recursed without bound when /proc/thread-self could "
             "not be found (finding F26, repaired): it now always completes, and the model's failWith always ends in OsError. An injected "
             "ENOENT on remove_all is tolerated by design (C13) and exempt from the work-done oracle; likewise an injected "
             "ENOENT/EINVAL in open_follow's readlink probe (the kernel's words for 'no such file'/'not a symlink', on which the "
             "no-follow open is the design). Finding F22 (any probe failure selected the no-follow open: reopen(O_PATH) under a "
             "fault returned the magic-link) was found by the reopen-fault suite and repaired.",
        technique="Lean 4 proof (run inversion: failure answers never become success; bounded retry; fail-closed comparisons) + exhaustive single-fault injection replayed through the model",
        ref="DESIGN.md §8 C10"),
    "C11": dict(
        text="Lean theorems (Props/C11.lean): for every environment, every call by which an operation can obtain a descriptor "
             "(openat, openat2, dup, fsopen, fsmount, open_tree) asks for close-on-exec — in particular the returned descriptor "
             "is close-on-exec (corollary of the discipline theorems, for every API operation and for the procfs handle "
             "constructors). Descriptor balance (C11_balance_*, Proofs/Ledger*.lean, 2 500 lines): for every environment in which "
             "the kernel hands out only descriptor numbers that are not open (Fresh), walking through the calls of a run with a "
             "ledger (a call whose answer hands out a descriptor adds it, a close removes it, undefined if the program closes a "
             "number it was not handed in that run — in particular one of the caller's), the ledger is defined and what is left "
             "open at the end is exactly the descriptor being returned (nothing on an error) — for resolve/resolve_nofollow, "
             "open_subpath, reopen, readlink, create, create_file, remove_file/remove_dir, rename, mkdir_all, remove_all, the "
             "partial lookup and the unmasked-handle constructor; on every success path, every error path, under every fault "
             "placement and attacker schedule (these are environments), unless the run ended in a fatal model error (an answer of an "
             "impossible shape, exhausted model fuel). Whole sessions (C11_session_at_most_one_long_lived, Session.lean + "
             "Proofs/SessionLedger.lean): the process-global procfs cell (get_or_try_init(ProcfsHandle::new)) is part of the model; "
             "after any sequence of library calls of one process, each balanced on its own, the ledger holds exactly the descriptors "
             "returned to the caller plus at most one — the cell's handle, created by the first call that needed it; a failed "
             "creation leaves nothing open and the cell empty; once filled, no call creates another handle. "
             "Tie: the model closes descriptors explicitly where Rust drops them; on every "
             "replayed case the multiset of descriptors the model closes must equal the multiset the implementation closed "
             "(close(2) and fcntl(F_DUPFD_CLOEXEC) are interposed in the harness), and the model driver evaluates the same ledger "
             "on the recorded calls of the implementation. Oracle: the process's descriptor table (number, identity, FD_CLOEXEC) "
             "before/after every API call of the suite, on success and error paths, Rust and C API; the handle constructors in "
             "three privilege situations; strace cross-check of the recorder (descriptors opened or closed behind its back); first use "
             "in forked fresh processes (no warm-up), three orders of first call: the only descriptor that outlives a call is the one "
             "process-global procfs handle (close-on-exec, root of a procfs).",
        note="RAII is the runtime mechanism the model mirrors by hand (shared ownership Rc<OwnedFd> = descriptor numbers; freshness "
             "of kernel-issued numbers is the hypothesis that makes the two coincide). rustix::fs::Dir's private descriptor is "
             "inside the dir_open/dir_next abstraction of the model (its close is visible to the recorder and matched by the "
             "driver). The C API's pending-error table and the Go/Python wrappers' own descriptor handling are covered by the "
             "fd-table oracle only.",
        technique="Lean 4 proof (close-on-exec of every descriptor source; descriptor-ledger balance for all environments by a Hoare-style ownership logic) + close-multiset correspondence + fd-table oracle",
        ref="DESIGN.md §8 C11"),
    "C12": dict(
        text="Lean theorems (Props/C12.lean + C03): a mode with bits outside 0o1777 and the empty path are refused before any call; for every "
             "environment the creating loop names only proper components (never '..', '.', '/') below the directory it just opened "
             "O_NOFOLLOW|O_DIRECTORY (C03_mkdir_all_targets); a successful loop is, component by component, mkdirat answered success "
             "*or EEXIST* (the race is tolerated), then openat(cur, part, O_NOFOLLOW|O_DIRECTORY|O_CLOEXEC|O_NOCTTY) answered with the next "
             "directory, then close(cur), and the returned handle is the last directory opened that way (C12_loop_chain, for all "
             "environments incl. racing callers); rely/guarantee convergence (C12_converges, Proofs/Rely.lean): against a mutable "
             "kernel state with environment steps interleaved before every system call that only add directories (any number of other "
             "mkdir_all callers), the creating loop succeeds, returns the directory reached by walking the components in the final "
             "state, and the whole history incl. its own steps only added directories, so N callers compose; C12_target_is_spec "
             "(refinement against the kernel specification): on an unmodified tree the partial lookup — on either backend — hands "
             "the creating loop the object after the longest resolvable prefix of the path and exactly the remaining components "
             "that are not ''/'.'; C12_exact (Proofs/MkExact.lean): alone on the mutable kernel state the creating loop succeeds and "
             "the final state is the initial one with one mkdirat per missing component, in order, nothing else. Tie and oracle: mkdir_all on generated trees/paths (existing prefixes through links, "
             "'..' in the existing part, dangling links, non-directories in the way) on both backends, replayed through the model; "
             "exact-effect oracle: nothing removed or modified, additions are directories forming one chain that starts in an "
             "existing directory and ends at the returned handle, the handle is the live kernel's in-root resolution of the path, "
             "created modes = requested & ~umask, a failure leaves at most a prefix chain. Racing-threads suite: 2-6 threads with "
             "seeded yields at syscall boundaries create the same/overlapping chains; all must succeed with handles to the directories "
             "at those paths and the tree must be exactly old + chains; every thread's transcript is replayed through the model.",
        note="The convergence theorem covers the creating loop from the partial-lookup handle (precondition Pre: what exists of the "
             "chain is directories); the composition with the partial lookup under races and the whole-tree frame condition on the real "
             "filesystem are decided by the racing and effect suites. The mutable kernel state KS (mkdirat/openat/close answers and "
             "effects) is a trusted statement of kernel behaviour like Kernel/World. Finding F20 (mkdir_all(\"\") returned the root) was found by the effect oracle and "
             "repaired. setgid inheritance is not exercised (generated trees have no setgid directories).",
        technique="Lean 4 proof (run inversion of the creating loop for all environments; target discipline) + exact-effect differential + racing-threads replay",
        ref="DESIGN.md §8 C12"),
    "C13": dict(
        text="Lean theorems (Props/C13.lean + C03): for every environment — any directory listings, racing callers, attackers — every "
             "unlinkat and directory open of remove_all names one slash-free component that is neither '.' nor '..' below the directory "
             "it was given or one it opened itself with O_DIRECTORY|O_NOFOLLOW, and no other mutating call is made (symlinks are only "
             "unlinked, never traversed; nothing above or beside the named entry is touched); the names '.' and '..' are refused "
             "before any call; success is reported only after the kernel itself said the named entry is gone (an unlinkat(parent,name) "
             "answered success or ENOENT, or the directory open answered ENOENT) — C13_success_witness, hence every racing caller that "
             "reports success has seen the entry absent; trailing slash = resolve parent, close, InvalidArgument; C13_exact (refinement "
             "against a mutable tree, Proofs/RmAll.lean): run against RFS (directory entries, kinds, directory streams; the kernel's "
             "answers to unlinkat, rmdir, the O_DIRECTORY|O_NOFOLLOW open, dirOpen/dirNext; state threaded by exec) the model of "
             "remove_all succeeds, the named entry is gone, every directory below it is empty, the parent lost exactly that entry, "
             "no other directory and no kind changed — for every finite tree and any fuel above rank+3; an absent entry is success "
             "with nothing changed (C13_absent); C13_converges (rely/guarantee, Proofs/RmAllRace.lean): with environment steps "
             "interleaved before every system call that may remove entries anywhere but never add one (any number of other "
             "remove_all callers; directory streams deliver names that may be gone by then), the call succeeds, the named entry is "
             "absent afterwards, the whole history only removed entries (so N callers compose) and everything the call itself "
             "removed is the named entry or lies below it in the initial tree. Tie and oracle: "
             "remove_all on generated trees (deep/wide subtrees, links to siblings/parents/outside, hard links) and path spellings on "
             "both backends, replayed through the model; exact-effect oracle over a snapshot of the root *and its surroundings*: "
             "exactly the named subtree disappears, link targets inside and outside untouched, a failure removes nothing outside the "
             "subtree. Racing-threads suite: 2-6 threads remove the same non-empty directory; all must report success, the entry must "
             "be absent, nothing else changed; every thread's transcript is replayed through the model.",
        note="The mutable tree RFS (answers and effects of unlinkat/rmdir/open/dirOpen/dirNext; directory streams as snapshots) is a "
             "trusted statement of kernel behaviour like Kernel/World; the effect oracle and the racing suite observe the real one. Finding F1 "
             "(remove_all of '.'/'..' emptied the parent) was repaired earlier; before it C13_dot_refused was false.",
        technique="Lean 4 proof (Safe logic with a mutation-target predicate; run inversion; refinement against a mutable tree; rely/guarantee convergence under concurrent removal) + exact-effect differential + racing-threads replay",
        ref="DESIGN.md §8 C13"),
    "C14": dict(
        text="Lean theorems (Props/C14.lean), for every environment: a successful create (all inode types but hard links), remove_file, "
             "remove_dir, rename and create_file is call by call: the in-root resolution (the program C01/C02 are about) of the parent part "
             "as split by path_split; exactly one mutating *at call on (that descriptor, final name) which the kernel acknowledged — for "
             "create_file one openat with O_CREAT|O_NOFOLLOW|O_CLOEXEC|O_NOCTTY whose answer is the returned descriptor; closing the "
             "parent(s); nothing else (C14_createFile_shape: on a name that is neither '.' nor '..'; C14_frame_create_file_dots: such a "
             "final component is refused with EISDIR, tree unchanged, whatever the open flags — finding F24). "
             "The final name is one non-empty slash-free component; a trailing slash never reaches the mutating "
             "call (C03_trailing_slash_*); C14_parent_is_spec / C14_parent_inside_root: when the parent lookup's answers come from a "
             "well-formed world, that descriptor is World.resolveInRoot of the parent path (the meaning of openat2 RESOLVE_IN_ROOT) on "
             "either backend and lies inside the root's tree; C14_effect_* (Proofs/KEffect.lean): run against a well-formed world that "
             "mutating calls change — the kernel's treatment of a mutating call (answer and tree afterwards) being an arbitrary "
             "parameter — remove_file/remove_dir, create (every inode type; hard links with their second lookup), create_file and "
             "rename leave exactly the world of the ONE mutating call on (specification's in-root resolution of the parent, final "
             "name) and return the wrapper's translation of the kernel's answer; a failing parent lookup, a trailing slash or an "
             "unsplittable path leave the world unchanged; the lookups never make a mutating call (for every environment). "
             "Tie and oracle: generator of mostly-applicable single-entry operations (existing entries "
             "spelled plainly, through '..' detours, through links to the parent, with leading slash; fresh and existing destinations; "
             "all rename flags) plus the adversarial generator, both backends, replayed through the model; exact-effect oracle: the "
             "snapshot after = snapshot before with exactly the entry (kernel-resolved parent, name) created/removed/moved/exchanged "
             "(whole subtrees move with a directory), hard-link counts accounted, link bodies equal, nothing else inside or outside "
             "the root changed, failures change nothing, create_file's descriptor is the inode now under that name, O_EXCL/NOREPLACE "
             "honoured, a final symlink is never followed; create_file over all open flags (with O_PATH the *at call is a no-follow "
             "lookup: nothing changes, the descriptor is the entry); permission bits of every newly created entry (set-id, sticky, "
             "umask, set-gid inheritance) equal those of the same raw call in a scratch directory with the parent's mode.",
        note="The effect of one *at call on (O_PATH directory descriptor, single name) is the kernel's contract; the oracle observes it on "
             "the live kernel. Hard-link creation's source lookup is covered by the tie and oracle, not by the shape theorem.",
        technique="Lean 4 proof (run inversion: operation = parent resolution + one acknowledged *at call + close) + exact-effect differential against kernel-resolved targets",
        ref="DESIGN.md §8 C14"),
    "C15": dict(
        text="Lean theorems (Props/C15.lean): the decision the emulated resolver evaluates equals the kernel's may_follow_link "
             "(transcribed from fs/namei.c as early returns) for every sysctl value, caller uid, link owner, directory mode and "
             "owner; nothing is refused with the sysctl off; the refusal condition spelled out. Tie and oracle: the full matrix "
             "directory mode x directory owner x link owner x caller uid (forked; all ids set, and effective uid only with real uid 0) x link position x backend is run with "
             "the real sysctl at 0 and at 1, replayed through the model, and compared with openat2 issued by the same user.",
        note="fsuid = euid is assumed (as the code does). The kernel applies the rule to trailing links only; the emulated "
             "resolver applies it to every followed link (finding F14, listed in known_findings.json, not repaired). The check "
             "writes fs.protected_symlinks and restores it on every exit path; if not writable the step is reported as skipped.",
        technique="Lean 4 proof (decision equality over all inputs) + exhaustive matrix differential against the live kernel",
        ref="DESIGN.md §8 C15"),
    "C16": dict(
        text="Lean theorems (Props/C16.lean) about the error-table state machine: ids lie in [INT_MIN,-4096], an issued id was not "
             "live, the invariant (distinct keys, range) holds after every sequence of store/take operations of any length, an "
             "error is returned by the first errorinfo call and NULL by the second, other ids are undisturbed, errno table. "
             "Tie: a sequential history driven through the real C symbols is replayed step by step through the model; a "
             "multi-threaded history (threads racing for the same ids) is checked for exactly-once consumption; a backlog history "
             "(more than 12 000 failures outstanding at once on several threads, a third of them real failing C calls, consumed "
             "afterwards): none lost, each with its own errno.",
        note="Threads: each table operation is atomic under the Mutex (hypothesis MutexAtomic), so every concurrent history is one "
             "of the sequences the theorem quantifies over; the random id stream is an arbitrary input of the model.",
        technique="Lean 4 proof (state-machine invariant by induction over operation sequences) + history replay",
        ref="DESIGN.md §8 C16"),
    "C17": dict(
        text="Lean theorems (Props/C17.lean): copy_path_into_buffer returns the full length, keeps the buffer size, writes exactly "
             "min(len,bufsize) bytes and leaves the rest; negative descriptors, NULL paths, unknown procfs bases and invalid "
             "mknod modes make the entry point a bare error leaf (no system call at all); base/mode decoding tables (mknod succeeds "
             "only for five type fields, the permission argument carries no type bits); retry/truncation/prefix laws of the "
             "buffer contract. Oracles for each invalid-argument class (descriptor, path, mknod type field, procfs base). Tie: every "
             "C function x argument class and the readlink buffer matrix (with canaries) are driven through the real exported "
             "symbols and replayed through the model, including returned lengths and buffer contents.",
        note="The C glue is modelled in lean/Pathrs/Capi.lean; pointer validity of non-NULL arguments is the caller's obligation "
             "(as in the C API contract) and not modelled.",
        technique="Lean 4 proof (functional laws, programs equal to error leaves) + exhaustive argument-class matrix replay",
        ref="DESIGN.md §8 C17"),
    "C18": dict(
        text="Translator + Lean: tools/abi_extract.py regenerates lean/Pathrs/Generated/AbiData.lean from the current Rust C-API "
             "sources (no_mangle extern fns, repr attributes, open_enum discriminants), include/pathrs.h, cbindgen.toml, every "
             "C.pathrs_* call site of the Go binding (with its casts) and every libpathrs_so.* use plus the cdef preamble of the "
             "Python binding; `check tables = true` is then re-proved by `decide` (Props/C18.lean) and lifted by lemmas to: same "
             "symbol set and per-argument ABI classes, same enum values, same struct layout, every bound symbol declared with "
             "the assumed arity/classes (also against the Rust exports, position by position), integer typedefs of the right width, "
             "cgo arguments named after header parameters standing at those parameters' positions. Thorough tier additionally builds the staticlib from "
             "the working tree, compares `nm` with the header and compiles+links a C unit with _Static_asserts on sizes, offsets, "
             "enum values against it.",
        note="The translator (regex-based parser of the four source languages) is trusted; a parse failure is reported as a broken "
             "tie. cbindgen and go are not installed here, so the header is not regenerated and the Go binding is not compiled.",
        technique="translator-regenerated Lean tables decided by `decide` (kernel-checked) + symbol-table/static-assert cross-check",
        ref="DESIGN.md §8 C18"),
}

# what the checks gained after the second round of seeded changes (appended to the level text)
ADDED = {
    "C03": " Attacker grid on the real filesystem (attack-mut): every kind of mutating operation x the attacker's mutations of an "
           "entry on its path (moved out, replaced by a link to a host directory or file, exchanged, moved up) x every system-call "
           "boundary x {permanent, undone one call later}; the host side is identical before and after and no descriptor of a host "
           "object is handed back; every schedule is replayed through the model. Theorems C03_*_under_attack: against the "
           "sequence-of-worlds attacker the parent descriptor of every mutation was below the root at some moment.",
    "C06": " A lookup below /proc/self or /proc/thread-self whose symlink is itself visibly over-mounted must fail with EXDEV "
           "(no fallback to another spelling of the base). A FIFO nobody writes to over a procfs file: lookups with blocking flags "
           "are timed under an alarm (a resolver that opens the over-mounted object for I/O before checking the mount blocks).",
    "C07": " Final-component table (Props/C07_Table.lean), for every procfs tree, base, sub-path and flag set: open is the open(2) "
           "of the trailing entry itself with O_NOFOLLOW (a link: the link object with O_PATH, ELOOP without, ENOTDIR with "
           "O_DIRECTORY), readlink is the body of the trailing entry itself (EINVAL for a non-link), open_follow returns exactly "
           "the target of a trailing magic-link / what the kernel's walk of the one trailing symlink arrives at / the entry itself; "
           "an entry on another mount than its directory gives EXDEV for all three. The suite spells creation requests with O_PATH too.",
    "C08": " History independence: the matrix runs before and after lookups that failed under descriptor exhaustion (from every "
           "second system call on); the same lookup on the same kind of handle answers the same.",
    "C09": " pathrs_reopen(n, flags) is called for every descriptor number of the suite (0 included) right after Handle::reopen and "
           "must give the same object and flags or the same errno.",
    "C11": " The transcript suite also runs with descriptor 0 closed before every operation (both backends): the kernel's first "
           "answer is then the valid descriptor 0; the C API suite runs that way too.",
    "C02": " Emulated lookups through '..' by a thread with its own descriptor table (unshare(CLONE_FILES)) while the leader holds "
           "other directories under the same numbers: the outcome is the kernel's (check_current reads the calling thread's descriptors).",
    "C12": " mkdir_all by a thread with its own descriptor table while the leader holds another directory under the same numbers "
           "creates the directories where the path says.",
    "C14": " The hand-made operations of the fault grid with every system call failing in turn: RENAME_NOREPLACE never reports "
           "success for an existing destination, RENAME_EXCHANGE leaves both names in place.",
    "C13": " Whole-operation theorem (Props/C13_Dots.lean): when the last component of the path is '.' or '..' (every spelling: "
           "pre/., pre/.., bare) Root::remove_all is 'resolve the parent; close; InvalidArgument' in every environment: never Ok, "
           "and no unlinkat, directory-stream or creating call is made at all.",
    "C15": " At the trailing position also the operations that look at the link without following it, and the whole matrix once "
           "more with an unreadable sysctl (a /proc mounted subset=pid, every caller initialising the library itself).",
    "C16": " The id generator, whose range the model takes as given, is observed on 4 million draws per run (60 million thorough).",
    "C18": " The named constants the bindings export (Python PROC_*, Go pathrsProc*, the Go ProcBase switch) denote the header "
           "constant of the same name (part of the generated tables and of `check`).",
}

PENDING = "check under construction in this session (design in DESIGN.md §8); will be claimed when its theorems and suite are committed"


def main():
    head = subprocess.run(["git", "-C", "/repo", "log", "--format=%h %s"], stdout=subprocess.PIPE).stdout.decode().splitlines()
    hooks = [l.split()[0] for l in head if l.split(" ", 1)[1].startswith("verif hooks")]
    m = {
        "version": 1,
        "setup_cmd": "./setup.sh",
        "hooks": {
            "guard": "cargo feature _verif_hooks",
            "enable": "the harness crate depends on /repo with features [capi, _verif_hooks] (cargo build --offline in /verif/harness)",
            "baseline_off_cmd": "cd /repo && cargo nextest run --workspace --no-fail-fast --test-threads 8 --offline",
            "source_commits": hooks,
            "add_only": True,
        },
        "engines": [
            {"name": "lean-model", "path": "lean/", "serves_properties": sorted(CLAIMS),
             "kind_free_text": "hand-written Lean 4 interaction-tree model of libpathrs + theorems (lake build); the compiled driver "
                               "pathrs_model replays recorded syscall transcripts through the model"},
            {"name": "harness", "path": "harness/", "serves_properties": sorted(CLAIMS),
             "kind_free_text": "Rust harness linking /repo's working tree with the recorder shim; generates trees/operations, "
                               "records transcripts, runs direct oracles on the implementation"},
        ],
        "checks": [],
        "notes": "see DESIGN.md; known findings in known_findings.json",
        "not_applicable": [],
    }
    for pid in sorted(CLAIMS):
        c = CLAIMS[pid]
        m["checks"].append({
            "property_id": pid,
            "quick_cmd": f"./check {pid} --tier quick",
            "thorough_cmd": f"./check {pid} --tier thorough",
            "evidence_file": f"evidence/{pid}.json",
            "replay_cmd_template": f"./check {pid} --replay {{path}}",
            "engine": "lean-model",
            "level_claimed": {"category": "proof", "text": c["text"] + ADDED.get(pid, ""), "design_ref": c["ref"]},
            "level_note": COMMON_NOTE + c["note"],
            "technique": c["technique"],
        })
    for i in range(1, 19):
        pid = "C%02d" % i
        if pid not in CLAIMS:
            m["not_applicable"].append({"property_id": pid, "reason": PENDING})
    with open(os.path.join(VERIF, "MANIFEST.json"), "w") as f:
        json.dump(m, f, indent=1)


if __name__ == "__main__":
    main()
