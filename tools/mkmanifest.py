#!/usr/bin/env python3
"""Regenerate /verif/MANIFEST.json from the table below."""
import json
import os
import subprocess

VERIF = os.path.dirname(os.path.dirname(os.path.abspath(__file__)))

COMMON_NOTE = ("Trusted: Lean 4.33 kernel; the hand-written Lean model (lean/Pathrs) and its tie to /repo "
               "(recorder shim src/verif.rs below the syscall wrappers, libc symbol interposition of close/fcntl/readlink, "
               "transcript replay by lean/Main.lean); the harness generators; Linux 6.18 as the environment. ")

CLAIMS = {
    "C05": dict(
        text="Lean theorems (Props/C05.lean): for every Root / procfs operation of the model and every environment that never "
             "returns a negative descriptor, every system call satisfies the decidable discipline predicate Disc "
             "(single slash-free component below a real descriptor, forced O_NOFOLLOW|O_CLOEXEC|O_NOCTTY, confining openat2 masks, "
             "no follow flag anywhere; Disc false forbids any openat without O_NOFOLLOW and is proved for everything except the "
             "reopen/open_follow path). Tie: transcript replay of generated operations on both backends (raw flag words, names and "
             "descriptors must agree call by call); Disc is evaluated on every recorded call of the implementation.",
        note="Kernel fact assumed by the theorems: returned descriptors are non-negative. 'The follow-open is preceded by "
             "verify_same_mnt on the link' is checked by the tie (call order), not yet a separate theorem.",
        technique="Lean 4 proof (Safe logic over interaction trees, fun_induction on the walks) + transcript-replay correspondence",
        ref="DESIGN.md §8 C05"),
    "C15": dict(
        text="Lean theorems (Props/C15.lean): the decision the emulated resolver evaluates equals the kernel's may_follow_link "
             "(transcribed from fs/namei.c as early returns) for every sysctl value, caller uid, link owner, directory mode and "
             "owner; nothing is refused with the sysctl off; the refusal condition spelled out. Tie and oracle: the full matrix "
             "directory mode x directory owner x link owner x caller uid (forked, setresuid) x link position x backend is run with "
             "the real sysctl at 0 and at 1, replayed through the model, and compared with openat2 issued by the same user.",
        note="fsuid = euid is assumed (as the code does). The kernel applies the rule to trailing links only; the emulated "
             "resolver applies it to every followed link (finding F14, listed in known_findings.json, not repaired). The check "
             "writes fs.protected_symlinks and restores it on every exit path; if not writable the step is reported as skipped.",
        technique="Lean 4 proof (decision equality over all inputs) + exhaustive matrix differential against the live kernel",
        ref="DESIGN.md §8 C15"),
    "C16": dict(
        text="Lean theorems (Props/C16.lean) about the error-table state machine: ids lie in [INT_MIN,-4096], an issued id was not "
             "live, the invariant (distinct keys, range) holds after every sequence of store/take operations of any length, an "
             "error is returned by the first errorinfo call and NULL by the second, other ids are undisturbed, errno table. "
             "Tie: a sequential history driven through the real C symbols is replayed step by step through the model; a "
             "multi-threaded history (threads racing for the same ids) is checked for exactly-once consumption.",
        note="Threads: each table operation is atomic under the Mutex (hypothesis MutexAtomic), so every concurrent history is one "
             "of the sequences the theorem quantifies over; the random id stream is an arbitrary input of the model.",
        technique="Lean 4 proof (state-machine invariant by induction over operation sequences) + history replay",
        ref="DESIGN.md §8 C16"),
    "C17": dict(
        text="Lean theorems (Props/C17.lean): copy_path_into_buffer returns the full length, keeps the buffer size, writes exactly "
             "min(len,bufsize) bytes and leaves the rest; negative descriptors, NULL paths, unknown procfs bases and invalid "
             "mknod modes make the entry point a bare error leaf (no system call at all); base/mode decoding tables. Tie: every "
             "C function x argument class and the readlink buffer matrix (with canaries) are driven through the real exported "
             "symbols and replayed through the model, including returned lengths and buffer contents.",
        note="The C glue is modelled in lean/Pathrs/Capi.lean; pointer validity of non-NULL arguments is the caller's obligation "
             "(as in the C API contract) and not modelled.",
        technique="Lean 4 proof (functional laws, programs equal to error leaves) + exhaustive argument-class matrix replay",
        ref="DESIGN.md §8 C17"),
    "C18": dict(
        text="Translator + Lean: tools/abi_extract.py regenerates lean/Pathrs/Generated/AbiData.lean from the current Rust C-API "
             "sources (no_mangle extern fns, repr attributes, open_enum discriminants), include/pathrs.h, cbindgen.toml, every "
             "C.pathrs_* call site of the Go binding (with its casts) and every libpathrs_so.* use plus the cdef preamble of the "
             "Python binding; `check tables = true` is then re-proved by `decide` (Props/C18.lean) and lifted by lemmas to: same "
             "symbol set and per-argument ABI classes, same enum values, same struct layout, every bound symbol declared with "
             "the assumed arity/classes, integer typedefs of the right width. Thorough tier additionally builds the staticlib from "
             "the working tree, compares `nm` with the header and compiles+links a C unit with _Static_asserts on sizes, offsets, "
             "enum values against it.",
        note="The translator (regex-based parser of the four source languages) is trusted; a parse failure is reported as a broken "
             "tie. cbindgen and go are not installed here, so the header is not regenerated and the Go binding is not compiled.",
        technique="translator-regenerated Lean tables decided by `decide` (kernel-checked) + symbol-table/static-assert cross-check",
        ref="DESIGN.md §8 C18"),
}

PENDING = "check under construction in this session (design in DESIGN.md §8); will be claimed when its theorems and suite are committed"


def main():
    head = subprocess.run(["git", "-C", "/repo", "log", "--format=%h %s"], stdout=subprocess.PIPE).stdout.decode().splitlines()
    hooks = [l.split()[0] for l in head if l.split(" ", 1)[1].startswith("verif hooks")]
    m = {
        "version": 1,
        "setup_cmd": "./setup.sh",
        "hooks": {
            "guard": "cargo feature _verif_hooks",
            "enable": "the harness crate depends on /repo with features [capi, _verif_hooks] (cargo build --offline in /verif/harness)",
            "baseline_off_cmd": "cd /repo && cargo nextest run --workspace --no-fail-fast --test-threads 8 --offline",
            "source_commits": hooks,
            "add_only": True,
        },
        "engines": [
            {"name": "lean-model", "path": "lean/", "serves_properties": sorted(CLAIMS),
             "kind_free_text": "hand-written Lean 4 interaction-tree model of libpathrs + theorems (lake build); the compiled driver "
                               "pathrs_model replays recorded syscall transcripts through the model"},
            {"name": "harness", "path": "harness/", "serves_properties": sorted(CLAIMS),
             "kind_free_text": "Rust harness linking /repo's working tree with the recorder shim; generates trees/operations, "
                               "records transcripts, runs direct oracles on the implementation"},
        ],
        "checks": [],
        "notes": "see DESIGN.md; known findings in known_findings.json",
        "not_applicable": [],
    }
    for pid in sorted(CLAIMS):
        c = CLAIMS[pid]
        m["checks"].append({
            "property_id": pid,
            "quick_cmd": f"./check {pid} --tier quick",
            "thorough_cmd": f"./check {pid} --tier thorough",
            "evidence_file": f"evidence/{pid}.json",
            "replay_cmd_template": f"./check {pid} --replay {{path}}",
            "engine": "lean-model",
            "level_claimed": {"category": "proof", "text": c["text"], "design_ref": c["ref"]},
            "level_note": COMMON_NOTE + c["note"],
            "technique": c["technique"],
        })
    for i in range(1, 19):
        pid = "C%02d" % i
        if pid not in CLAIMS:
            m["not_applicable"].append({"property_id": pid, "reason": PENDING})
    with open(os.path.join(VERIF, "MANIFEST.json"), "w") as f:
        json.dump(m, f, indent=1)


if __name__ == "__main__":
    main()
