#!/bin/bash
# seed_confirm.sh <ID> <variant>: confirm a seeded change in a scratch worktree of /repo:
# applies cleanly, builds (with and without the C API), passes the existing test suite (failing tests are
# re-run alone up to 3 times: openat2 EAGAIN flakes under load).  Leaves the worktree at /tmp/confirm/<ID>-<v>
# for the demonstration; remove it with: git -C /repo worktree remove --force /tmp/confirm/<ID>-<v>
ID=$1; V=$2
SRC=/tmp/seed/out/$ID/$V
WT=/tmp/confirm/$ID-$V
OUT=$SRC/myconfirm.txt
mkdir -p /tmp/confirm
git -C /repo worktree remove --force $WT 2>/dev/null
git -C /repo worktree add -q --detach $WT HEAD || exit 2
cd $WT
{
echo "base $(git rev-parse --short HEAD)"
if git apply $SRC/patch.diff; then echo "apply ok"; else echo "apply FAILED"; exit 3; fi
git diff --stat | tail -1
export CARGO_NET_OFFLINE=true CARGO_TARGET_DIR=$WT/target
if cargo build --offline -q 2>/dev/null; then echo "build ok"; else echo "build FAILED"; fi
if cargo build --offline -q --features capi 2>/dev/null; then echo "build capi ok"; else echo "build capi FAILED"; fi
cargo nextest run --workspace --no-fail-fast --test-threads 8 --offline > $SRC/my_nextest.log 2>&1
grep -E "^\s*Summary|tests run" $SRC/my_nextest.log | tail -2
FAILED=$(grep -E "^\s+(FAIL|SIGABRT|SIGSEGV|TIMEOUT)" $SRC/my_nextest.log | awk '{print $NF}' | sort -u)
for t in $FAILED; do
  ok=0
  for i in 1 2 3; do
    if cargo nextest run --offline -E "test(=$t)" > /tmp/confirm/rerun.log 2>&1; then ok=1; break; fi
  done
  echo "rerun $t -> $([ $ok = 1 ] && echo pass || echo FAIL)"
done
echo "done"
} > $OUT 2>&1
cat $OUT
