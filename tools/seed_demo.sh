#!/bin/bash
# seed_demo.sh <ID> <variant> <worktree> [args...]: run the demonstration of a seeded change against <worktree>
# (a copy of the demo with the agent's worktree path /tmp/seed/<ID> replaced by <worktree>)
ID=$1; V=$2; WT=$3; shift 3
D=/tmp/confirm/demo-$ID-$V-$(basename $WT)
rm -rf $D; cp -a /tmp/seed/out/$ID/$V/demo $D
grep -rl "/tmp/seed/$ID" $D 2>/dev/null | xargs -r sed -i "s|/tmp/seed/$ID\b|$WT|g"
[ -f $D/Cargo.toml ] && cp $WT/Cargo.lock $D/Cargo.lock 2>/dev/null
cd $D && CARGO_TARGET_DIR=$D/target bash ./run.sh "$@" 2>&1
echo "demo exit status: $?"
rm -rf $D/target
