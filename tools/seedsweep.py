#!/usr/bin/env python3
"""seedsweep.py [ID/variant ...]: apply every confirmed seeded change to /repo in turn (git apply), run the quick check of
the property it was written against and of every property listed in its meta.json `caught_by`, undo it
(git checkout -- .), and write what happened to seeded/sweep.json (rc, VIOLATION lines, how many with a concrete
failing input).  /repo must be clean; nothing else may use /repo or the checks while this runs."""
import glob, json, os, re, subprocess, sys, time
ROOT = os.path.dirname(os.path.dirname(os.path.abspath(__file__)))
sel = set(sys.argv[1:])
out = {}
p = os.path.join(ROOT, "seeded", "sweep.json")
if os.path.exists(p):
    out = json.load(open(p))
for meta in sorted(glob.glob(os.path.join(ROOT, "seeded", "*", "*", "meta.json"))):
    d = json.load(open(meta))
    key = f"{d['property']}/{d['variant']}"
    if sel and key not in sel:
        continue
    props = [d["property"]] + [x for x in d.get("caught_by", []) if x != d["property"]]
    patch = os.path.join(os.path.dirname(meta), "patch.diff")
    t0 = time.time()
    r = subprocess.run([os.path.join(ROOT, "tools", "seedtest.sh"), patch, ",".join(props)], stdout=subprocess.PIPE, stderr=subprocess.STDOUT)
    txt = r.stdout.decode(errors="replace")
    res = {}
    for m in re.finditer(r"^(C\d\d) rc=(\d+) (\d+)s violations=(\d+) concrete=(\d+)", txt, flags=re.M):
        res[m.group(1)] = {"rc": int(m.group(2)), "violations": int(m.group(4)), "concrete": int(m.group(5))}
    out[key] = {"checks": res, "applied": "APPLY-FAILED" not in txt, "seconds": int(time.time() - t0),
                "repo_head": subprocess.run(["git", "-C", "/repo", "rev-parse", "--short", "HEAD"], stdout=subprocess.PIPE).stdout.decode().strip()}
    json.dump(out, open(p, "w"), indent=1, sort_keys=True)
    print(key, json.dumps(res), flush=True)
