#!/usr/bin/env python3
"""print the markdown table of DESIGN.md §9 from seeded/*/*/meta.json"""
import glob, json, os
rows = []
for m in sorted(glob.glob(os.path.join(os.path.dirname(os.path.dirname(os.path.abspath(__file__))), "seeded", "*", "*", "meta.json"))):
    d = json.load(open(m))
    rows.append(f"| {d['property']}/{d['variant']} | {d['what_it_does']} | {d['needs_to_manifest']} | {', '.join(d['caught_by']) or 'NOT CAUGHT'} | {d['how']} |")
print("| seeded change | what it does | what it needs to manifest | caught by | how |")
print("|---|---|---|---|---|")
print("\n".join(rows))
