#!/bin/bash
# seedtest.sh <patch.diff> <prop>[,<prop>...] [tier]: apply a seeded change to /repo, run the checks, undo.
P=$1; PROPS=$2; TIER=${3:-quick}
cd /repo || exit 2
if [ -n "$(git status --porcelain)" ]; then echo "repo not clean"; exit 2; fi
if ! git apply "$P" 2>/tmp/seedtest_apply.err; then
  if ! git apply --3way "$P" 2>>/tmp/seedtest_apply.err; then echo "APPLY-FAILED"; head -5 /tmp/seedtest_apply.err; git checkout -q -- . ; git reset -q; exit 3; fi
fi
git reset -q
cd /verif
for PROP in ${PROPS//,/ }; do
  s=$(date +%s)
  timeout 3000 ./check $PROP --tier $TIER > /tmp/seedtest_out_$PROP.txt 2>&1
  RC=$?
  echo "$PROP rc=$RC $(( $(date +%s)-s ))s violations=$(grep -c '^VIOLATION' /tmp/seedtest_out_$PROP.txt) concrete=$(grep '^VIOLATION' /tmp/seedtest_out_$PROP.txt | grep -vc no-failing-input-found)"
  grep "^VIOLATION" /tmp/seedtest_out_$PROP.txt | head -2
done
cd /repo && git checkout -q -- . && git clean -fdq -e target
# the harness binary was built from the seeded tree: rebuild it from the restored one
(cd /verif/harness && CARGO_NET_OFFLINE=true cargo build --offline -q 2>/dev/null)
git status --porcelain | head -3
