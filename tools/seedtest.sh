#!/bin/bash
# seedtest.sh <patch.diff> <prop> [tier]: apply a seeded change to /repo, run the check of <prop>, undo.
P=$1; PROP=$2; TIER=${3:-quick}
cd /repo || exit 2
if [ -n "$(git status --porcelain)" ]; then echo "repo not clean"; exit 2; fi
if ! git apply --3way "$P" 2>/tmp/seedtest_apply.err; then
  if ! git apply "$P" 2>>/tmp/seedtest_apply.err; then echo "APPLY-FAILED"; cat /tmp/seedtest_apply.err | head -5; git checkout -q -- . ; git reset -q; exit 3; fi
fi
git reset -q
cd /verif
timeout 3000 ./check $PROP --tier $TIER > /tmp/seedtest_out.txt 2>&1
RC=$?
echo "rc=$RC"
grep -c "^VIOLATION" /tmp/seedtest_out.txt
grep "^VIOLATION\|^KNOWN" /tmp/seedtest_out.txt | head -3
cd /repo && git checkout -q -- . && git clean -fdq
git status --porcelain | head -3
