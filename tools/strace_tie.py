#!/usr/bin/env python3
"""strace_tie.py: cross-check of the recorder against the kernel's own view.

The transcripts the Lean model is tied to come from a recorder *inside* the
library's system-call wrappers (src/verif.rs) plus symbol interposition of
close/fcntl/readlink in the harness.  A system call that the library made
*without* going through a wrapper (std::fs, a direct rustix or libc call) would
be invisible to that recorder, and so to the tie.  This tool closes that gap: it
runs a harness suite under strace(1), brackets every recorded window with two
marker system calls, and demands that

  * every path-taking, descriptor-creating, descriptor-closing or mutating
    system call the kernel saw inside a window is the next call of the recorded
    transcript — same system call, same descriptor arguments, same byte strings,
    same raw flag words, same answer — and
  * every recorded call of those kinds was seen by the kernel.

run(harness, args, workdir) -> dict(windows=, syscalls=, mismatches=[...])
"""
import os
import re
import subprocess
import sys

STRICT = {
    "openat", "openat2", "open", "creat", "readlinkat", "readlink", "newfstatat", "fstat", "stat", "lstat",
    "statx", "fstatfs", "statfs", "faccessat", "faccessat2", "access", "mkdirat", "mkdir", "mknodat", "mknod",
    "unlinkat", "unlink", "rmdir", "linkat", "link", "symlinkat", "symlink", "renameat", "renameat2", "rename",
    "open_tree", "fsopen", "fsconfig", "fsmount", "move_mount", "mount", "umount2", "fchmodat", "chmod", "fchmod",
    "fchmodat2", "fchownat", "chown", "fchown", "lchown", "truncate", "ftruncate", "utimensat", "chdir", "fchdir",
    "chroot", "pivot_root", "close", "dup", "dup2", "dup3", "fcntl", "execve", "execveat", "name_to_handle_at",
    "open_by_handle_at", "setxattr", "lsetxattr", "fsetxattr", "removexattr", "lremovexattr", "fremovexattr",
    "getdents64", "getdents", "read", "pread64", "write", "pwrite64", "ioctl", "socket", "pipe", "pipe2", "memfd_create",
    "close_range", "fsync", "fallocate", "copy_file_range", "sendfile", "mmap",
}
# system calls that touch neither the filesystem nor the descriptor table; anything that is in neither
# set (an unknown or new system call, printed by strace as syscall_0x..) is reported
HARMLESS = {
    "futex", "brk", "munmap", "mprotect", "madvise", "mremap", "rt_sigaction", "rt_sigprocmask", "rt_sigreturn",
    "sigaltstack", "getrandom", "gettid", "getpid", "getppid", "geteuid", "getuid", "getegid", "getgid", "sched_yield",
    "sched_getaffinity", "set_robust_list", "rseq", "clone", "clone3", "exit", "exit_group", "prctl", "nanosleep",
    "clock_nanosleep", "clock_gettime", "gettimeofday", "getrusage", "prlimit64", "uname", "arch_prctl",
    "set_tid_address", "poll", "ppoll", "tgkill", "wait4", "waitid", "membarrier", "restart_syscall", "getcwd",
    "sysinfo", "times", "capget", "getresuid", "getresgid", "getgroups", "unshare", "setns",
}

LINE = re.compile(r"^(\d+)\s+(\w+)\((.*)\)\s+=\s+(-?\d+|0x[0-9a-f]+|\?)(.*)$")
UNFIN = re.compile(r"^(\d+)\s+(\w+)\((.*) <unfinished \.\.\.>$")
RESUMED = re.compile(r"^(\d+)\s+<\.\.\. (\w+) resumed>(.*)$")


def unhex(s):
    """strace -xx string literal -> bytes"""
    out = bytearray()
    i = 0
    while i < len(s):
        if s[i] == "\\" and s[i + 1] == "x":
            out.append(int(s[i + 2:i + 4], 16))
            i += 4
        else:
            out.append(ord(s[i]))
            i += 1
    return bytes(out)


def split_args(a):
    """split the argument text at top-level commas"""
    args, depth, cur, instr = [], 0, "", False
    i = 0
    while i < len(a):
        ch = a[i]
        if instr:
            cur += ch
            if ch == "\\":
                cur += a[i + 1]
                i += 1
            elif ch == '"':
                instr = False
        elif ch == '"':
            instr = True
            cur += ch
        elif ch in "{[(":
            depth += 1
            cur += ch
        elif ch in "}])":
            depth -= 1
            cur += ch
        elif ch == "," and depth == 0:
            args.append(cur.strip())
            cur = ""
        else:
            cur += ch
        i += 1
    if cur.strip():
        args.append(cur.strip())
    return args


def num(s):
    s = s.strip().lstrip("|")
    s = s.split(" ")[0]
    if s.startswith("0x"):
        return int(s, 16)
    if s.startswith("0") and len(s) > 1 and s.isdigit():
        return int(s, 8)
    return int(s)


def strlit(s):
    s = s.strip()
    if s == "NULL":
        return None
    m = re.match(r'^"(.*)"(\.\.\.)?$', s)
    if not m:
        raise ValueError("not a string literal: " + s[:60])
    return unhex(m.group(1))


def parse_strace(path):
    """-> {tid: [(name, [args], ret, rest)]} with unfinished/resumed lines joined"""
    per = {}
    pending = {}
    for raw in open(path, errors="replace"):
        raw = raw.rstrip("\n")
        m = UNFIN.match(raw)
        if m:
            pending[m.group(1)] = (m.group(2), m.group(3))
            continue
        m = RESUMED.match(raw)
        if m:
            tid = m.group(1)
            if tid in pending:
                name, head = pending.pop(tid)
                raw = f"{tid} {name}({head}{m.group(3)}"
            else:
                continue
        m = LINE.match(raw)
        if not m:
            continue
        tid, name, args, ret, rest = m.groups()
        per.setdefault(tid, []).append((name, args, ret, rest))
    return per


def parse_marks(path):
    """marks file -> {n: [(kind, fds, strs, nums, resp)]}"""
    marks = {}
    cur = None
    call = None
    if not os.path.exists(path):
        return marks
    for line in open(path):
        t = line.split()
        if not t:
            continue
        if t[0] == "mark":
            cur = []
            marks[int(t[1])] = cur
        elif t[0] == "endmark":
            cur = None
        elif t[0] == "c" and cur is not None:
            kind = t[1]
            i = 2
            nf = int(t[i]); fds = [int(x) for x in t[i + 1:i + 1 + nf]]; i += 1 + nf
            ns = int(t[i]); strs = [bytes.fromhex(x[1:]) for x in t[i + 1:i + 1 + ns]]; i += 1 + ns
            nn = int(t[i]); nums = [int(x) for x in t[i + 1:i + 1 + nn]]
            call = (kind, fds, strs, nums)
        elif t[0] == "r" and cur is not None and call is not None:
            cur.append(call + (t[1:],))
            call = None
    return marks


ERRNO_RE = re.compile(r"^\s*(E[A-Z0-9]+)")
import errno as _errno
ERRNAME = {v: k for k, v in _errno.errorcode.items()}  # name -> number


def sret(ret, rest):
    """('ok', n) | ('err', errno)"""
    if ret == "?":
        return ("?", 0)
    v = int(ret, 16) if ret.startswith("0x") else int(ret)
    if v == -1:
        m = ERRNO_RE.match(rest)
        if m and m.group(1) in ERRNAME:
            return ("err", ERRNAME[m.group(1)])
        return ("err", -1)
    return ("ok", v)


def expect_resp(resp, kindret):
    """compare a recorded answer (token list) with the kernel's return"""
    k, v = kindret
    if resp[0] == "err":
        return k == "err" and v == int(resp[1])
    if k != "ok":
        return False
    if resp[0] == "fd":
        return v == int(resp[1])
    if resp[0] == "bytes":
        return True  # length checked by the caller where it applies
    return True


def match_call(rec, sc):
    """does the recorded call `rec` equal the system call `sc`?  returns None or a reason"""
    kind, fds, strs, nums, resp = rec
    name, argt, ret, rest = sc
    a = split_args(argt)
    r = sret(ret, rest)

    def need(cond, why):
        if not cond:
            raise AssertionError(why)

    try:
        if kind == "openat":
            need(name == "openat", "syscall")
            need(num(a[0]) == fds[0], "dirfd")
            need(strlit(a[1]) == strs[0], "path")
            need(num(a[2]) & ~O_LARGEFILE == nums[0] & ~O_LARGEFILE, "flags")   # rustix adds O_LARGEFILE
            if len(a) > 3:
                need(num(a[3]) == nums[1], "mode")
        elif kind == "openat2":
            need(name == "openat2", "syscall")
            need(num(a[0]) == fds[0], "dirfd")
            need(strlit(a[1]) == strs[0], "path")
            how = dict((kv.split("=")[0].strip(), kv.split("=")[1].strip()) for kv in split_args(a[2].strip("{}")) if "=" in kv)
            need(num(how.get("flags", "0")) == nums[0], "how.flags")
            need(num(how.get("mode", "0")) == nums[1], "how.mode")
            need(num(how.get("resolve", "0")) == nums[2], "how.resolve")
            need(num(a[3]) == nums[3], "size")
        elif kind == "readlinkat":
            need(name == "readlinkat", "syscall")
            need(num(a[0]) == fds[0], "dirfd")
            need(strlit(a[1]) == strs[0], "path")
            need(num(a[3]) == nums[0], "bufsiz")
            if resp[0] == "bytes" and r[0] == "ok":
                need(len(bytes.fromhex(resp[1][1:])) == r[1], "length")
        elif kind == "readlink_abs":
            need(name in ("readlink", "readlinkat"), "syscall")
            p = strlit(a[0]) if name == "readlink" else strlit(a[1])
            need(p == strs[0], "path")
        elif kind == "fstatat":
            if name == "fstat":
                need(strs[0] == b"", "path")
                need(num(a[0]) == fds[0], "fd")
            else:
                need(name == "newfstatat", "syscall")
                need(num(a[0]) == fds[0], "dirfd")
                need(strlit(a[1]) == strs[0], "path")
                need(num(a[3]) == nums[0], "flags")
        elif kind == "statx":
            need(name == "statx", "syscall")
            need(num(a[0]) == fds[0], "dirfd")
            need(strlit(a[1]) == strs[0], "path")
            need(num(a[2]) == nums[0], "flags")
            need(num(a[3]) == nums[1], "mask")
        elif kind == "fstatfs":
            need(name == "fstatfs", "syscall")
            need(num(a[0]) == fds[0], "fd")
        elif kind == "accessat":
            need(name in ("faccessat", "faccessat2"), "syscall")
            need(num(a[0]) == fds[0], "dirfd")
            need(strlit(a[1]) == strs[0], "path")
            need(num(a[2]) == nums[0], "mode")
            if name == "faccessat2":
                need(num(a[3]) == nums[1], "flags")
            else:
                need(nums[1] == 0, "flags need faccessat2")
        elif kind == "mkdirat":
            need(name == "mkdirat", "syscall")
            need(num(a[0]) == fds[0] and strlit(a[1]) == strs[0] and num(a[2]) == nums[0], "args")
        elif kind == "mknodat":
            need(name == "mknodat", "syscall")
            # the kernel's umode_t has 16 bits
            need(num(a[0]) == fds[0] and strlit(a[1]) == strs[0] and num(a[2]) & 0xffff == nums[0] & 0xffff, "args")
            if len(a) > 3:
                need(num(a[3]) == nums[1], "dev")
        elif kind == "unlinkat":
            need(name == "unlinkat", "syscall")
            need(num(a[0]) == fds[0] and strlit(a[1]) == strs[0] and num(a[2]) == nums[0], "args")
        elif kind == "linkat":
            need(name == "linkat", "syscall")
            need(num(a[0]) == fds[0] and strlit(a[1]) == strs[0] and num(a[2]) == fds[1]
                 and strlit(a[3]) == strs[1] and num(a[4]) == nums[0], "args")
        elif kind == "symlinkat":
            need(name == "symlinkat", "syscall")
            need(strlit(a[0]) == strs[0] and num(a[1]) == fds[0] and strlit(a[2]) == strs[1], "args")
        elif kind in ("renameat", "renameat2"):
            need(name in ("renameat", "renameat2"), "syscall")
            need(num(a[0]) == fds[0] and strlit(a[1]) == strs[0] and num(a[2]) == fds[1]
                 and strlit(a[3]) == strs[1], "args")
            fl = num(a[4]) if name == "renameat2" else 0
            need(fl == (nums[0] if nums else 0), "flags")
        elif kind == "dup":
            need(name == "fcntl", "syscall")
            need(num(a[0]) == fds[0], "fd")
            need(num(a[1]) == 0x406, "F_DUPFD_CLOEXEC")
            need(num(a[2]) == nums[0], "min")
        elif kind == "close":
            need(name == "close", "syscall")
            need(num(a[0]) == fds[0], "fd")
        elif kind == "dir_open":
            # rustix::fs::Dir::read_from: a private descriptor for the directory stream
            need(name == "openat", "syscall")
            need(num(a[0]) == fds[0], "fd")
            need(strlit(a[1]) == b".", "path")
            need(num(a[2]) | O_LARGEFILE == 0xb8000, "flags (O_RDONLY|O_DIRECTORY|O_NOFOLLOW|O_CLOEXEC)")
            if resp[0] == "unit":
                need(r[0] == "ok", "answer")
                return None
        elif kind == "fsopen":
            need(name == "fsopen" and strlit(a[0]) == strs[0] and num(a[1]) == nums[0], "args")
        elif kind == "fsconfig_set_string":
            need(name == "fsconfig" and num(a[0]) == fds[0] and num(a[1]) == 1
                 and strlit(a[2]) == strs[0] and strlit(a[3]) == strs[1], "args")
        elif kind == "fsconfig_create":
            need(name == "fsconfig" and num(a[0]) == fds[0] and num(a[1]) == 6, "args")
        elif kind == "fsmount":
            need(name == "fsmount" and num(a[0]) == fds[0] and num(a[1]) == nums[0] and num(a[2]) == nums[1], "args")
        elif kind == "open_tree":
            need(name == "open_tree" and num(a[0]) == fds[0] and strlit(a[1]) == strs[0] and num(a[2]) == nums[0], "args")
        else:
            return "unknown recorded kind " + kind
        need(expect_resp(resp, r), "answer")
    except AssertionError as e:
        return str(e)
    except Exception as e:  # unparsable argument
        return "parse: " + repr(e)
    return None


O_LARGEFILE = 0x8000

# recorded kinds that have no system call of their own in the strict set
SOFT_KINDS = {"gettid", "geteuid", "dir_next", "read_line", "random"}


def compare_window(rec, scs, forced_enosys):
    """rec: recorded calls; scs: system calls of the window -> list of mismatch strings"""
    out = []
    owned = set()          # descriptors created inside the window
    dirfds = set()         # private descriptors of rustix directory streams (closed by rustix itself)
    i = 0
    strict_rec = [c for c in rec if c[0] not in SOFT_KINDS]
    # a path with an embedded NUL is refused by the string conversion below the shim: no system call
    strict_rec = [c for c in strict_rec if not (c[4][:2] == ["err", "22"] and any(b"\x00" in s for s in c[2]))]
    if forced_enosys:
        strict_rec = [c for c in strict_rec if not (c[0] == "openat2" and c[4][:2] == ["err", "38"])]
    for sc in scs:
        name, argt, ret, rest = sc
        a = split_args(argt)
        # lenient system calls: reading from descriptors the window owns; memory management
        if name in ("read", "pread64", "getdents64", "getdents"):
            try:
                fd = num(a[0])
            except Exception:
                fd = None
            if fd in owned:
                continue
            out.append(f"unrecorded {name}({pretty(argt)[:120]}) on a descriptor the call did not open")
            continue
        if name == "mmap":
            try:
                fd = num(a[4])
            except Exception:
                fd = -1
            if fd == -1 or fd == 0xffffffff or fd == 0xffffffffffffffff:
                continue
            out.append(f"unrecorded mmap of descriptor {fd}")
            continue
        if name == "write":
            try:
                if num(a[0]) in (1, 2):
                    continue
            except Exception:
                pass
        if name == "fcntl":
            try:
                cmd = num(a[1])
            except Exception:
                cmd = -1
            if cmd in (1, 3):     # F_GETFD, F_GETFL: observe only
                continue
        if name in HARMLESS:
            continue
        if name == "close":
            try:
                cfd = num(a[0])
            except Exception:
                cfd = None
            nxt = strict_rec[i] if i < len(strict_rec) else None
            if cfd in dirfds and not (nxt and nxt[0] == "close" and nxt[1] == [cfd]):
                dirfds.discard(cfd)
                owned.discard(cfd)
                continue
        if name not in STRICT:
            out.append(f"system call outside every known class: {name}({pretty(argt)[:120]})")
            continue
        if i >= len(strict_rec):
            out.append(f"unrecorded {name}({pretty(argt)[:160]}) = {ret}{rest[:30]} after the end of the transcript")
            continue
        why = match_call(strict_rec[i], sc)
        if why is not None:
            rc = strict_rec[i]
            out.append(f"step {i}: kernel saw {name}({pretty(argt)[:160]}) = {ret}{rest[:24]}; recorder has {rc[0]} fds={rc[1]} strs={[s[:40] for s in rc[2]]} nums={rc[3]} -> {' '.join(rc[4])[:40]} [{why}]")
            # try to resynchronise: is this system call simply unrecorded?
            if i + 1 <= len(strict_rec) and match_call(strict_rec[i], sc) == "syscall":
                continue
            i += 1
            continue
        r = sret(ret, rest)
        if strict_rec[i][0] == "dir_open" and r[0] == "ok":
            dirfds.add(r[1])
        if r[0] == "ok" and name in ("openat", "openat2", "open", "fsopen", "fsmount", "open_tree") or (name == "fcntl" and r[0] == "ok"):
            owned.add(r[1])
        i += 1
    for c in strict_rec[i:]:
        out.append(f"recorded but not seen by the kernel: {c[0]} fds={c[1]} strs={[s[:40] for s in c[2]]} nums={c[3]}")
    return out


def run(harness, args, workdir, timeout=900, forced_enosys=False):
    os.makedirs(workdir, exist_ok=True)
    st = os.path.join(workdir, "strace.out")
    marks = os.path.join(workdir, "marks.txt")
    for p in (st, marks):
        if os.path.exists(p):
            os.unlink(p)
    # the harness appends to the marks file from inside the recorded windows — with `--unpriv` as uid 65534
    open(marks, "w").close()
    os.chmod(marks, 0o666)
    env = dict(os.environ, VERIF_STRACE_MARK=marks)
    jail = [os.path.join(os.path.dirname(os.path.abspath(__file__)), "jail.sh"),
            os.path.join(os.path.dirname(os.path.dirname(os.path.abspath(__file__))), ".cache")]
    cmd = jail + ["strace", "-f", "-qq", "-X", "raw", "-xx", "-s", "70000", "-o", st, harness] + args
    p = subprocess.run(cmd, env=env, stdout=subprocess.DEVNULL, stderr=subprocess.PIPE, timeout=timeout)
    res = {"cmd": " ".join(cmd), "rc": p.returncode, "windows": 0, "syscalls": 0, "recorded_calls": 0, "mismatches": []}
    if p.returncode != 0:
        res["mismatches"].append({"window": -1, "what": ["harness under strace exited %d: %s" % (p.returncode, p.stderr.decode(errors="replace")[-300:])]})
        return res
    per = parse_strace(st)
    rec = parse_marks(marks)
    seen = set()
    for tid, scs in per.items():
        cur = None
        win = []
        for sc in scs:
            name, argt, ret, rest = sc
            if name == "faccessat" and "VERIF-MARK" in unhex_safe(argt):
                txt = unhex_safe(argt)
                m = re.search(r"VERIF-MARK-(BEGIN|END)-(\d+)", txt)
                if m.group(1) == "BEGIN":
                    cur = int(m.group(2)); win = []
                else:
                    n = int(m.group(2))
                    if cur == n and n in rec:
                        seen.add(n)
                        res["windows"] += 1
                        res["syscalls"] += len(win)
                        res["recorded_calls"] += len(rec[n])
                        mm = compare_window(rec[n], win, forced_enosys)
                        if mm:
                            res["mismatches"].append({"window": n, "what": mm[:8]})
                    cur = None
                continue
            if cur is not None:
                win.append(sc)
    if not rec and per:
        res["mismatches"].append({"window": -1, "what": ["no recorded window at all: the marks file stayed empty"]})
    missing = sorted(set(rec) - seen)
    if missing:
        res["mismatches"].append({"window": missing[0], "what": [f"{len(missing)} recorded windows were not found in the strace output"]})
    for p_ in (st, marks):
        try:
            os.unlink(p_)
        except OSError:
            pass
    return res


def pretty(argt):
    """\\xNN escapes of printable ASCII -> the character (for messages)"""
    def f(m):
        c = int(m.group(1), 16)
        return chr(c) if 32 <= c < 127 and c not in (34, 92) else m.group(0)
    return re.sub(r"\\x([0-9a-f]{2})", f, argt)


def unhex_safe(argt):
    try:
        m = re.search(r'"((?:\\x[0-9a-f]{2})*)"', argt)
        return unhex(m.group(1)).decode(errors="replace") if m else ""
    except Exception:
        return ""


if __name__ == "__main__":
    import json
    r = run(sys.argv[1], sys.argv[2:], "/verif/.cache/strace-tie")
    print(json.dumps(r, indent=1)[:6000])
    sys.exit(1 if r["mismatches"] else 0)
