"""Shared machinery of the /verif checks: builds, suite runs, transcript parsing,
Lean audit, verdicts, evidence."""
import json
import os
import re
import subprocess
import sys
import time

VERIF = os.path.dirname(os.path.dirname(os.path.abspath(__file__)))
REPO = "/repo"
CACHE = os.path.join(VERIF, ".cache")
HARNESS_DIR = os.path.join(VERIF, "harness")
HARNESS_BIN = os.path.join(CACHE, "target", "debug", "verif-harness")
LEAN_DIR = os.path.join(VERIF, "lean")
MODEL_BIN = os.path.join(LEAN_DIR, ".lake", "build", "bin", "pathrs_model")
ALLOWED_AXIOMS = {"propext", "Classical.choice", "Quot.sound"}
BANNED = re.compile(r"\bsorry\b|\badmit\b|^axiom |native_decide|bv_decide|implemented_by|\bunsafe |maxHeartbeats 0", re.M)

ENV = dict(os.environ, CARGO_NET_OFFLINE="true")


def sh(cmd, cwd=None, timeout=None, env=None, inp=None):
    p = subprocess.run(cmd, cwd=cwd, shell=isinstance(cmd, str), stdout=subprocess.PIPE,
                       stderr=subprocess.STDOUT, timeout=timeout, env=env or ENV, input=inp)
    return p.returncode, p.stdout.decode("utf-8", "replace")


class BuildError(Exception):
    pass


def build_harness():
    os.makedirs(CACHE, exist_ok=True)
    lock = os.path.join(HARNESS_DIR, "Cargo.lock")
    if not os.path.exists(lock):
        sh(["cp", os.path.join(REPO, "Cargo.lock"), lock])
    rc, out = sh(["cargo", "build", "--offline"], cwd=HARNESS_DIR, timeout=1800)
    if rc != 0:
        raise BuildError("harness/libpathrs build failed:\n" + out[-4000:])
    return HARNESS_BIN


def build_lean(targets):
    rc, out = sh(["lake", "build"] + targets, cwd=LEAN_DIR, timeout=3600)
    return rc, out


def strip_comments(src):
    src = re.sub(r"/-.*?-/", "", src, flags=re.S)
    src = re.sub(r"--.*", "", src)
    return src


def scan_sources():
    """Banned constructs in any Lean source of the project (outside comments)."""
    hits = []
    for root, _, files in os.walk(LEAN_DIR):
        if ".lake" in root:
            continue
        for f in files:
            if f.endswith(".lean"):
                p = os.path.join(root, f)
                body = strip_comments(open(p).read())
                for m in BANNED.finditer(body):
                    hits.append(f"{os.path.relpath(p, LEAN_DIR)}: {m.group(0).strip()}")
    return hits


def theorems_of(module_path):
    """fully qualified names of the theorems of a file (`namespace N … end N` blocks are tracked)"""
    src = strip_comments(open(module_path).read())
    ns = []
    out = []
    for line in src.splitlines():
        m = re.match(r"^namespace\s+([A-Za-z0-9_.']+)", line)
        if m:
            ns.append(m.group(1))
            continue
        m = re.match(r"^end\s+([A-Za-z0-9_.']+)", line)
        if m and ns and ns[-1] == m.group(1):
            ns.pop()
            continue
        m = re.match(r"^theorem\s+([A-Za-z0-9_.']+)", line)
        if m:
            out.append(".".join(ns + [m.group(1)]))
    return out


def prop_modules(prop):
    """Lean modules that hold the property theorems of `prop`: Props/<prop>.lean and, where a theorem needs imports the
    main file cannot have (import cycles), Props/<prop>_<Topic>.lean."""
    import glob
    d = os.path.join(LEAN_DIR, "Pathrs", "Proofs", "Props")
    files = [os.path.join(d, f"{prop}.lean")] + sorted(glob.glob(os.path.join(d, f"{prop}_*.lean")))
    return [(f, "Pathrs.Proofs.Props." + os.path.basename(f)[:-5]) for f in files if os.path.exists(f)]


def audit_axioms(prop):
    """Run `#print axioms` on every theorem of Props/<prop>.lean (and Props/<prop>_*.lean)."""
    mods = prop_modules(prop)
    names = []
    for f, _ in mods:
        names += theorems_of(f)
    tmp = os.path.join(CACHE, f"audit_{prop}.lean")
    with open(tmp, "w") as f:
        for _, m in mods:
            f.write(f"import {m}\n")
        for n in names:
            f.write(f"#print axioms {n}\n")
    rc, out = sh(["lake", "env", "lean", tmp], cwd=LEAN_DIR, timeout=1800)
    result = {}
    cur = None
    # output: "'name' depends on axioms: [a, b]" or "'name' does not depend on any axioms"
    for m in re.finditer(r"'(\S+)' (does not depend on any axioms|depends on axioms: \[([^\]]*)\])", out, flags=re.S):
        name = m.group(1)
        axs = set() if m.group(3) is None else {a.strip() for a in m.group(3).replace("\n", " ").split(",") if a.strip()}
        result[name] = axs
    return rc, out, names, result


# --------------------------------------------------------------------------
# transcripts
# --------------------------------------------------------------------------

def unhex(t):
    assert t.startswith("x"), t
    return bytes.fromhex(t[1:])


class Case:
    __slots__ = ("id", "meta", "tree", "op", "cfg", "events", "res", "kern", "fdt", "snaps", "after", "handle", "raw", "extra")

    def __init__(self):
        self.id = ""
        self.meta = {}
        self.tree = []
        self.op = []
        self.cfg = {}
        self.events = []
        self.res = []
        self.kern = None
        self.fdt = []
        self.snaps = []
        self.after = None
        self.handle = None
        self.raw = []
        self.extra = {}

    def kv(self, toks):
        d = {}
        for t in toks:
            if "=" in t:
                k, v = t.split("=", 1)
                d[k] = v
        return d


def parse_cases(path):
    cases = []
    cur = None
    pending = None
    with open(path, "r") as f:
        for line in f:
            line = line.rstrip("\n")
            t = line.split()
            if not t:
                continue
            if t[0] == "case":
                cur = Case()
                cur.id = t[1]
                cur.raw = [line]
                continue
            if cur is None:
                continue
            cur.raw.append(line)
            k = t[0]
            if k == "meta":
                cur.meta = cur.kv(t[1:])
            elif k == "e":
                cur.tree.append(t[1:])
            elif k == "op":
                cur.op = t[1:]
            elif k == "cfg":
                cur.cfg = cur.kv(t[1:])
            elif k == "handle":
                cur.handle = cur.kv(t[1:])
            elif k == "c":
                pending = t[1:]
            elif k == "r":
                cur.events.append((pending, t[1:]))
                pending = None
            elif k == "res":
                cur.res = t[1:]
            elif k == "kern":
                cur.kern = t[1:]
            elif k == "fdt":
                cur.fdt = t[1:]
            elif k == "snap":
                cur.snaps.append(t[1:])
            elif k == "after":
                cur.after = []
            elif k == "a":
                if cur.after is None:
                    cur.after = []
                cur.after.append(t[1:])
            elif k == "end":
                cases.append(cur)
                cur = None
            else:
                cur.extra.setdefault(k, []).append(t[1:])
    return cases


def canon_res(toks, drop_nofollow=True):
    """Canonical outcome of a `res`/`kern` line: no descriptor numbers."""
    if not toks:
        return ("?",)
    if toks[0] == "ok" and toks[1] == "fd":
        d = dict(t.split("=", 1) for t in toks[2:] if "=" in t)
        label = d.get("label", "?")
        if label.startswith("?"):
            label = "new"
        fl = int(d.get("fl", "0"))
        if drop_nofollow:
            fl &= ~0o400000
        return ("ok", "fd", label, d.get("kind"), fl, d.get("cloexec"))
    if toks[0] == "ok":
        return tuple(toks)
    if toks[0] == "err":
        return tuple(toks)
    if toks[0] == "panic":
        return ("panic",)
    return tuple(toks)


def run_model(transcript_path, out_path, extra_args=()):
    with open(transcript_path, "rb") as fin, open(out_path, "wb") as fout:
        p = subprocess.run([MODEL_BIN, *extra_args], stdin=fin, stdout=fout, stderr=subprocess.PIPE, timeout=3600)
    if p.returncode != 0:
        raise BuildError("model driver failed: " + p.stderr.decode()[-2000:])
    verdicts = {}
    extra = {}
    with open(out_path) as f:
        for line in f:
            t = line.split()
            if len(t) >= 3 and t[0] == "case":
                verdicts[t[1]] = (t[2], line.strip())
            elif len(t) >= 3:
                extra.setdefault(t[0], {})[t[1]] = (t[2], line.strip())
    return verdicts, extra


# every harness run happens in a private mount namespace in which only the scratch area is writable (tools/jail.sh)
JAIL = [os.path.join(VERIF, "tools", "jail.sh"), CACHE]


def run_harness(args, out_path, timeout=3600, prefix=()):
    cmd = JAIL + list(prefix) + [HARNESS_BIN] + args + ["--out", out_path]
    rc, out = sh(cmd, timeout=timeout)
    if rc != 0:
        raise BuildError(f"harness {' '.join(args)} failed rc={rc}:\n{out[-3000:]}")
    return out


# --------------------------------------------------------------------------
# known findings
# --------------------------------------------------------------------------

def load_known():
    p = os.path.join(VERIF, "known_findings.json")
    if not os.path.exists(p):
        return []
    return json.load(open(p))["findings"]


def finding_matches(entry, prop, facts):
    """`facts` is a dict describing one failing item; every key of entry['match']
    must be satisfied by it."""
    if entry.get("status") != "known":
        return False
    if prop not in entry.get("properties", [entry.get("property")]):
        return False
    def one(m):
        for k, want in m.items():
            have = facts.get(k)
            if k.endswith("_in"):
                if facts.get(k[:-3]) not in want:
                    return False
            elif k.endswith("_contains"):
                v = facts.get(k[:-9])
                if v is None or want not in v:
                    return False
            elif have != want:
                return False
        return True
    # `match`: one description of the failing item; `match_any`: the same defect reached from several call sites
    alts = ([entry["match"]] if "match" in entry else []) + list(entry.get("match_any", []))
    return any(one(m) for m in alts) if alts else True


class Verdict:
    """Collects failing items of one check run and prints the contractual lines."""

    def __init__(self, prop, tier, seed):
        self.prop = prop
        self.tier = tier
        self.seed = seed
        self.violations = []   # (facts, replay dict, concrete: bool)
        self.known_hits = {}
        self.known = load_known()
        self.t0 = time.time()

    def fail(self, facts, replay, concrete=True):
        for e in self.known:
            if finding_matches(e, self.prop, facts):
                self.known_hits.setdefault(e["id"], [e, 0])[1] += 1
                return
        self.violations.append((facts, replay, concrete))

    def finish(self, evidence):
        os.makedirs(os.path.join(VERIF, "replays"), exist_ok=True)
        os.makedirs(os.path.join(VERIF, "evidence"), exist_ok=True)
        for fid, (e, n) in sorted(self.known_hits.items()):
            print(f"KNOWN-FINDING: property={self.prop} {fid}: {e['text']} ({n} cases this run)")
        shown = 0
        for i, (facts, replay, concrete) in enumerate(self.violations):
            if shown >= 20:
                break
            path = os.path.join(VERIF, "replays", f"{self.prop}-{self.seed}-{i}.json")
            replay = dict(replay)
            replay.setdefault("property", self.prop)
            replay.setdefault("kind", "failing-input" if concrete else "no-failing-input-found")
            replay.setdefault("facts", facts)
            replay.setdefault("how", f"./check {self.prop} --replay {path}")
            with open(path, "w") as f:
                json.dump(replay, f, indent=1, default=str)
            suffix = "" if concrete else " no-failing-input-found"
            print(f"VIOLATION property={self.prop} replay={path}{suffix}")
            shown += 1
        evidence["property_id"] = self.prop
        evidence["tier"] = self.tier
        evidence["seed"] = self.seed
        evidence["wall_s"] = round(time.time() - self.t0, 2)
        evidence["violations"] = len(self.violations)
        evidence.setdefault("coverage", {})["known_findings_hit"] = {k: v[1] for k, v in self.known_hits.items()}
        with open(os.path.join(VERIF, "evidence", f"{self.prop}.json"), "w") as f:
            json.dump(evidence, f, indent=1, default=str)
        return 1 if self.violations else 0
